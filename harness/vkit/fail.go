package vkit

import (
	"fmt"
	"os"
	"strings"
	"sync"
)

// TB is the part of *rapid.T / *testing.T that vkit needs.
type TB interface {
	Helper()
	Fatalf(format string, args ...any)
	Logf(format string, args ...any)
}

var (
	knownOnce sync.Once
	knownSigs map[string]bool
	printed   sync.Map
)

func loadKnown() {
	knownSigs = map[string]bool{}
	for _, s := range strings.Split(os.Getenv("VKIT_KNOWN"), ",") {
		s = strings.TrimSpace(s)
		if s != "" {
			knownSigs[s] = true
		}
	}
}

// Known reports whether sig is a listed known finding. Engines call it when a
// generated case has the shape of a listed finding: the hit is counted and the
// engine then avoids that shape (so that the search continues behind it).
func Known(st *Stats, sig string) bool {
	knownOnce.Do(loadKnown)
	if knownSigs[sig] {
		if st != nil {
			st.knownHit(sig)
		}
		return true
	}
	return false
}

// Fail reports a violation with a stable signature and aborts the case. The
// marker line is what the driver turns into the VIOLATION line.
func Fail(t TB, sig string, format string, args ...any) {
	t.Helper()
	Announce(sig, format, args...)
	t.Fatalf("[%s] %s", sig, fmt.Sprintf(format, args...))
}

// Announce prints the violation marker (once per signature and process) and arms the watchdog;
// engines that must clean up a bubble before aborting call Announce, clean up, then Fatalf.
func Announce(sig string, format string, args ...any) {
	msg := fmt.Sprintf(format, args...)
	noteFailure()
	if _, dup := printed.LoadOrStore(sig, true); !dup {
		one := strings.ReplaceAll(msg, "\n", " | ")
		if len(one) > 4000 {
			one = one[:4000] + "..."
		}
		fmt.Fprintf(os.Stdout, "VKIT-VIOLATION sig=%s msg=%s\n", sig, one)
	}
}

// Inconclusive marks the process result as not-a-verdict (driver exit 2).
func Inconclusive(format string, args ...any) {
	fmt.Fprintf(os.Stdout, "VKIT-INCONCLUSIVE %s\n", fmt.Sprintf(format, args...))
}

var printedOther sync.Map

// Other records a divergence whose signature belongs to a different property than the one being
// checked: it is not reported as a violation of this property.
func Other(st *Stats, sig string) {
	if st != nil {
		st.Metric("other-property:"+sig, 1)
	}
	if _, dup := printedOther.LoadOrStore(sig, true); !dup {
		fmt.Fprintf(os.Stdout, "VKIT-OTHER sig=%s\n", sig)
	}
}
