package vkit

import (
	"fmt"
	"os"
	"sync"
	"sync/atomic"
	"time"
)

// The watchdog runs outside any synctest bubble (it is started from TestMain), so it sees
// real time. It ends the process when a case that has already reported a violation does not
// terminate (its bubble may be wedged by the very defect that was reported), or when no case
// has made progress for a long time (reported as a stall, which the driver treats as
// inconclusive unless the job declares that a stall is itself a violation).

var (
	wdFailAt   atomic.Int64 // real unix nanos of a reported failure in the running case, 0 if none
	wdProgress atomic.Int64 // real unix nanos of the last sign of life
	wdCurMu    sync.Mutex
	wdCurrent  func() string
	wallBase   atomic.Int64 // real clock, maintained by the watchdog goroutine
)

// wallNanos returns the real clock as last sampled by the watchdog goroutine (callers may be
// inside a bubble, where time.Now is virtual).
func wallNanos() int64 { return wallBase.Load() }

// CaseStart marks the beginning of a generated case; cur (optional) renders the case so far.
func CaseStart(cur func() string) {
	wdFailAt.Store(0)
	wdProgress.Store(wallNanos())
	wdCurMu.Lock()
	wdCurrent = cur
	wdCurMu.Unlock()
}

// Progress tells the watchdog that the running case is alive.
func Progress() { wdProgress.Store(wallNanos()) }

// StartWatchdog must be called from TestMain (outside bubbles).
func StartWatchdog() {
	failGrace := 15 * time.Second
	stall := 120 * time.Second
	if v := os.Getenv("VKIT_STALL"); v != "" {
		if d, err := time.ParseDuration(v); err == nil {
			stall = d
		}
	}
	wallBase.Store(time.Now().UnixNano())
	wdProgress.Store(wallBase.Load())
	go func() {
		for {
			time.Sleep(100 * time.Millisecond)
			now := time.Now().UnixNano()
			wallBase.Store(now)
			if f := wdFailAt.Load(); f != 0 && time.Duration(now-f) > failGrace {
				fmt.Fprintf(os.Stdout, "VKIT-WATCHDOG: the case did not terminate within %v after reporting a violation; ending the shard\n", failGrace)
				DumpAll()
				os.Exit(1)
			}
			if p := wdProgress.Load(); time.Duration(now-p) > stall {
				cur := ""
				wdCurMu.Lock()
				if wdCurrent != nil {
					func() {
						defer func() { _ = recover() }()
						cur = wdCurrent()
					}()
				}
				wdCurMu.Unlock()
				fmt.Fprintf(os.Stdout, "VKIT-STALL no case progress for %v; current case: %s\n", stall, cur)
				for _, g := range Goroutines() {
					if g.LibFrames() {
						fmt.Fprintln(os.Stdout, g.Stack)
						fmt.Fprintln(os.Stdout)
					}
				}
				DumpAll()
				os.Exit(4)
			}
		}
	}()
}

func noteFailure() {
	wdFailAt.CompareAndSwap(0, wallNanos())
}
