package vkit

import (
	"bytes"
	"fmt"
	"regexp"
	"runtime"
	"strings"
	"sync/atomic"
)

// Op is one library call launched in its own goroutine so that the driver can
// observe whether it is still blocked (enabledness) at a quiescent point.
type Op struct {
	Name  string
	done  chan struct{}
	fin   atomic.Bool
	Res   any
	Panic any
}

// Launch runs f in a new goroutine, recovering a panic into Op.Panic.
func Launch(name string, f func() any) *Op {
	o := &Op{Name: name, done: make(chan struct{})}
	go func() {
		defer func() {
			if r := recover(); r != nil {
				o.Panic = r
			}
			o.fin.Store(true)
			close(o.done)
		}()
		o.Res = f()
	}()
	return o
}

// Finished reports (without blocking) whether the call has returned.
func (o *Op) Finished() bool { return o.fin.Load() }

// Done is closed when the call has returned or panicked.
func (o *Op) Done() <-chan struct{} { return o.done }

// Wait blocks until the call has returned.
func (o *Op) Wait() { <-o.done }

// Call runs f synchronously, recovering a panic.
func Call(f func() any) (res any, panicked any) {
	defer func() {
		if r := recover(); r != nil {
			panicked = r
		}
	}()
	res = f()
	return
}

var (
	hdrRe    = regexp.MustCompile(`(?m)^goroutine (\d+) \[([^\]]*)\]:`)
	bubbleRe = regexp.MustCompile(`synctest bubble (\d+)`)
)

// Goroutine is a parsed entry of a runtime.Stack(all) dump.
type Goroutine struct {
	ID     string
	State  string
	Bubble string
	Stack  string
}

// Goroutines parses a full goroutine dump.
func Goroutines() []Goroutine {
	buf := make([]byte, 1<<20)
	for {
		n := runtime.Stack(buf, true)
		if n < len(buf) {
			buf = buf[:n]
			break
		}
		buf = make([]byte, 2*len(buf))
	}
	var out []Goroutine
	for _, blk := range bytes.Split(buf, []byte("\n\n")) {
		m := hdrRe.FindSubmatch(blk)
		if m == nil {
			continue
		}
		g := Goroutine{ID: string(m[1]), State: string(m[2]), Stack: string(blk)}
		if b := bubbleRe.FindSubmatch(m[2]); b != nil {
			g.Bubble = string(b[1])
		}
		out = append(out, g)
	}
	return out
}

// BubbleOthers returns the goroutines that share the calling goroutine's
// synctest bubble (excluding the caller). It must be called from inside a bubble.
func BubbleOthers() []Goroutine {
	all := Goroutines()
	// the first entry of a runtime.Stack(all) dump is the calling goroutine
	if len(all) == 0 || all[0].Bubble == "" {
		return nil
	}
	me := all[0]
	var out []Goroutine
	for _, g := range all[1:] {
		if g.Bubble == me.Bubble && !strings.Contains(g.Stack, "internal/synctest.Run") && !strings.Contains(g.Stack, "synctest.testingSynctestTest") {
			out = append(out, g)
		}
	}
	return out
}

// LibFrames reports whether the goroutine's stack has a frame inside the
// library under test (non-test file of the bigbuff module).
func (g Goroutine) LibFrames() bool {
	return strings.Contains(g.Stack, "github.com/joeycumines/go-bigbuff.")
}

// DescribeGoroutines renders goroutines compactly for failure messages.
func DescribeGoroutines(gs []Goroutine) string {
	var sb strings.Builder
	for _, g := range gs {
		lines := strings.Split(g.Stack, "\n")
		fmt.Fprintf(&sb, "g%s[%s]:", g.ID, g.State)
		n := 0
		for _, l := range lines[1:] {
			l = strings.TrimSpace(l)
			if l == "" || strings.HasPrefix(l, "/") || strings.HasPrefix(l, "created by") {
				continue
			}
			if i := strings.LastIndex(l, "("); i > 0 {
				l = l[:i]
			}
			fmt.Fprintf(&sb, " %s", l)
			n++
			if n >= 6 {
				break
			}
		}
		sb.WriteString("\n")
	}
	return sb.String()
}

// NoStarve wraps the actions of a rapid T.Repeat state machine. rapid draws an action, and when the action calls
// t.Skip (not enabled in the current state) draws again — but gives up after 100 consecutive skipped draws with a
// stopTest panic ("can't find a valid (non-skipped) action"), which would unwind a synctest bubble that still holds
// parked goroutines. In states where only a small share of the action weights is enabled that is a matter of luck over
// millions of steps. The wrapper lets skips through until 60 in a row were seen and from then on turns a skip into a
// completed no-op action (idle, may be nil, runs instead), so the run always continues.
func NoStarve[T any](acts map[string]func(T), idle func()) map[string]func(T) {
	streak := 0
	out := make(map[string]func(T), len(acts))
	for name, f := range acts {
		if name == "" { // the invariant action
			out[name] = f
			continue
		}
		out[name] = func(t T) {
			defer func() {
				r := recover()
				if r == nil {
					streak = 0
					return
				}
				if fmt.Sprintf("%T", r) == "rapid.invalidData" {
					if streak++; streak >= 60 {
						streak = 0
						if idle != nil {
							idle()
						}
						return
					}
				}
				panic(r)
			}()
			f(t)
		}
	}
	return out
}
