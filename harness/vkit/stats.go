// Package vkit is the small toolkit shared by every engine of the go-bigbuff
// verification harness: evidence counters, violation reporting with stable
// signatures, known-finding handling, and the launch/settle stepper used by the
// model-based (synctest bubble) engines.
package vkit

import (
	"encoding/binary"
	"encoding/json"
	"fmt"
	"hash/fnv"
	"os"
	"sort"
	"strings"
	"sync"
)

// Stats accumulates what one engine actually explored in this process.
type Stats struct {
	mu         sync.Mutex
	Engine     string         `json:"engine"`
	Cases      int            `json:"cases"`
	NonTrivial int            `json:"nontrivial_total"`
	Classes    map[string]int `json:"classes"`
	Excluded   map[string]int `json:"excluded"`
	KnownHits  map[string]int `json:"known_hits"`
	Samples    []any          `json:"samples"`
	Metrics    map[string]int `json:"metrics"`
	hashes     map[uint64]struct{}
	maxSamples int
}

var (
	regMu    sync.Mutex
	registry = map[string]*Stats{}
)

// For returns the (process-wide) Stats of an engine.
func For(engine string) *Stats {
	regMu.Lock()
	defer regMu.Unlock()
	s := registry[engine]
	if s == nil {
		s = &Stats{
			Engine:     engine,
			Classes:    map[string]int{},
			Excluded:   map[string]int{},
			KnownHits:  map[string]int{},
			Metrics:    map[string]int{},
			hashes:     map[uint64]struct{}{},
			maxSamples: 6,
		}
		registry[engine] = s
	}
	return s
}

// Hash64 is the hash used for "distinct" counting.
func Hash64(s string) uint64 {
	h := fnv.New64a()
	_, _ = h.Write([]byte(s))
	return h.Sum64()
}

// Case records one generated case. trace is the normalised rendering of the
// case (used for distinctness and as a sample), nontrivial is the engine's
// stated rule evaluated on this case, classes are free-form labels counted in
// the histogram.
func (s *Stats) Case(trace []string, nontrivial bool, classes ...string) {
	Progress()
	s.mu.Lock()
	defer s.mu.Unlock()
	s.Cases++
	for _, c := range classes {
		s.Classes[c]++
	}
	if !nontrivial {
		return
	}
	s.NonTrivial++
	h := Hash64(strings.Join(trace, ";"))
	if _, ok := s.hashes[h]; ok {
		return
	}
	s.hashes[h] = struct{}{}
	if len(s.Samples) < s.maxSamples {
		cp := append([]string(nil), trace...)
		if len(cp) > 80 {
			cp = append(cp[:80], fmt.Sprintf("... (%d more)", len(trace)-80))
		}
		s.Samples = append(s.Samples, cp)
	}
}

// Exclude counts a case shape that the generator refuses by construction.
func (s *Stats) Exclude(why string) {
	s.mu.Lock()
	s.Excluded[why]++
	s.mu.Unlock()
}

// Metric adds to a named counter.
func (s *Stats) Metric(name string, n int) {
	s.mu.Lock()
	s.Metrics[name] += n
	s.mu.Unlock()
}

// Class counts a label without counting a case.
func (s *Stats) Class(name string) {
	s.mu.Lock()
	s.Classes[name]++
	s.mu.Unlock()
}

func (s *Stats) knownHit(sig string) {
	s.mu.Lock()
	s.KnownHits[sig]++
	s.mu.Unlock()
}

// DumpAll writes every engine's stats to $VKIT_STATS (JSON) and the distinct
// hashes to $VKIT_STATS.<engine>.hashes (little-endian uint64s). Called from
// TestMain.
func DumpAll() {
	path := os.Getenv("VKIT_STATS")
	if path == "" {
		return
	}
	regMu.Lock()
	defer regMu.Unlock()
	names := make([]string, 0, len(registry))
	for n := range registry {
		names = append(names, n)
	}
	sort.Strings(names)
	out := map[string]any{}
	for _, n := range names {
		s := registry[n]
		s.mu.Lock()
		b, _ := json.Marshal(s)
		var m map[string]any
		_ = json.Unmarshal(b, &m)
		m["distinct_nontrivial"] = len(s.hashes)
		out[n] = m
		buf := make([]byte, 0, 8*len(s.hashes))
		for h := range s.hashes {
			buf = binary.LittleEndian.AppendUint64(buf, h)
		}
		s.mu.Unlock()
		_ = os.WriteFile(path+"."+n+".hashes", buf, 0o644)
	}
	b, _ := json.MarshalIndent(out, "", " ")
	_ = os.WriteFile(path, b, 0o644)
}
