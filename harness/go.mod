module verif/harness

go 1.26.8

require (
	github.com/anishathalye/porcupine v1.3.0
	github.com/joeycumines/go-bigbuff v0.0.0
	pgregory.net/rapid v1.3.0
)

replace github.com/joeycumines/go-bigbuff => /repo
