//go:build verif && go1.25

package props

// c14free — free-running Workers programs in a synctest bubble (C14): 2-6 caller goroutines make 2-12 invocations
// each, through Workers.Call with a function of their own or through one of 1-2 shared wrappers (Workers.Wrap) whose
// function serves every invocation of that wrapper, possibly several at once. Every execution of any function draws
// a fresh execution id and returns a value and an error that belong to that id alone.
//
// Oracle (bijection between invocations and executions): every invocation returns the value AND the error of one
// execution that had finished by the time the invocation returned; no two invocations return the same execution; an
// invocation that passed its own function returns an execution of that very function; the number of executions
// equals the number of invocations; at no instant are more functions executing than the largest count requested so
// far; Wait returns afterwards with Count() == 0 and no goroutine left.

import (
	"fmt"
	"runtime"
	"strings"
	"sync"
	"sync/atomic"
	"testing"
	"testing/synctest"
	"time"

	bigbuff "github.com/joeycumines/go-bigbuff"
	"pgregory.net/rapid"

	"verif/harness/vkit"
)

type c14fTok struct{ exec int }
type c14fErr struct{ exec int }

func (e *c14fErr) Error() string { return fmt.Sprintf("c14f error of execution %d", e.exec) }

type c14fInv struct {
	g, idx  int
	count   int
	wrapper int // -1: own function through Call
	yields  int
	nilErr  bool
}

func TestC14Free(t *testing.T) {
	st := vkit.For("c14_free")
	rapid.Check(t, func(t *rapid.T) {
		// one case in sixty is a marathon instead: tens of thousands of calls queued behind one gated call with a single
		// worker, so that one worker goroutine serves a very long unbroken run of items
		if rapid.IntRange(0, 59).Draw(t, "marathon") == 0 {
			c14Marathon(t, st, rapid.SampledFrom([]int{3000, 17000, 40000}).Draw(t, "marathonCalls"), rapid.IntRange(1, 2).Draw(t, "marathonCount"))
			return
		}
		nW := rapid.IntRange(1, 2).Draw(t, "wrappers")
		wrapCount := make([]int, nW)
		for i := range wrapCount {
			wrapCount[i] = rapid.IntRange(1, 4).Draw(t, "wrapCount")
		}
		nG := rapid.IntRange(2, 6).Draw(t, "callers")
		var prog [][]*c14fInv
		total := 0
		for g := 0; g < nG; g++ {
			n := rapid.IntRange(2, 12).Draw(t, "invocations")
			var is []*c14fInv
			for i := 0; i < n; i++ {
				in := &c14fInv{g: g, idx: i, count: rapid.IntRange(1, 4).Draw(t, "count"), wrapper: -1,
					yields: rapid.SampledFrom([]int{0, 0, 1, 3, 10}).Draw(t, "yields"), nilErr: rapid.Bool().Draw(t, "nilErr")}
				if rapid.IntRange(0, 2).Draw(t, "viaWrapper") != 0 {
					in.wrapper = rapid.IntRange(0, nW-1).Draw(t, "wrapper")
					in.count = wrapCount[in.wrapper]
				}
				is = append(is, in)
				total++
			}
			prog = append(prog, is)
		}
		trace := []string{fmt.Sprintf("wrappers(count)=%v", wrapCount)}
		for g, is := range prog {
			var d []string
			for _, in := range is {
				d = append(d, fmt.Sprintf("{n=%d w=%d y=%d}", in.count, in.wrapper, in.yields))
			}
			trace = append(trace, fmt.Sprintf("g%d=%s", g, strings.Join(d, "")))
		}
		vkit.CaseStart(func() string { return strings.Join(trace, " ; ") })

		type exec struct {
			tok      *c14fTok
			err      error
			owner    *c14fInv // nil: a wrapper's function
			finished atomic.Bool
		}
		var (
			mu       sync.Mutex
			execs    []*exec
			byTok    = map[*c14fTok]*exec{}
			problems []string
			running  atomic.Int32
			maxReq   atomic.Int32
			overlap  atomic.Bool
			leak     string
			countEnd = -1
		)
		note := func(f string, a ...any) {
			mu.Lock()
			problems = append(problems, fmt.Sprintf(f, a...))
			mu.Unlock()
		}
		run := func(owner *c14fInv, yields int, nilErr bool) (any, error) {
			r := running.Add(1)
			if r > 1 {
				overlap.Store(true)
			}
			if mx := maxReq.Load(); r > mx {
				note("%d functions executing at once although the largest count requested so far is %d", r, mx)
			}
			e := &exec{owner: owner}
			mu.Lock()
			e.tok = &c14fTok{len(execs)}
			if !nilErr {
				e.err = &c14fErr{len(execs)}
			}
			execs = append(execs, e)
			byTok[e.tok] = e
			mu.Unlock()
			for i := 0; i < yields; i++ {
				runtime.Gosched()
			}
			running.Add(-1)
			e.finished.Store(true)
			return e.tok, e.err
		}
		rapid.SyncTest(t, func(t *rapid.T) {
			w := new(bigbuff.Workers)
			wrapped := make([]func() (any, error), nW)
			for i := range wrapped {
				wrapped[i] = w.Wrap(wrapCount[i], func() (any, error) { return run(nil, 2, i%2 == 0) })
			}
			returnedBy := map[*exec]*c14fInv{}
			var wg sync.WaitGroup
			for g := range prog {
				wg.Add(1)
				go func(g int) {
					defer wg.Done()
					defer func() {
						if r := recover(); r != nil {
							note("caller g%d panicked: %v", g, r)
						}
					}()
					for _, in := range prog[g] {
						for {
							mx := maxReq.Load()
							if int32(in.count) <= mx || maxReq.CompareAndSwap(mx, int32(in.count)) {
								break
							}
						}
						var v any
						var err error
						if in.wrapper >= 0 {
							v, err = wrapped[in.wrapper]()
						} else {
							v, err = w.Call(in.count, func() (any, error) { return run(in, in.yields, in.nilErr) })
						}
						tok, _ := v.(*c14fTok)
						mu.Lock()
						e := byTok[tok]
						switch {
						case e == nil:
							problems = append(problems, fmt.Sprintf("invocation g%d#%d returned (%v, %v): not the value of any execution", in.g, in.idx, v, err))
						case !e.finished.Load():
							problems = append(problems, fmt.Sprintf("invocation g%d#%d returned the value of execution %d before that execution finished", in.g, in.idx, tok.exec))
						case err != e.err:
							problems = append(problems, fmt.Sprintf("invocation g%d#%d returned the value of execution %d with the error %v (that execution returned %v)", in.g, in.idx, tok.exec, err, e.err))
						case returnedBy[e] != nil:
							problems = append(problems, fmt.Sprintf("invocations g%d#%d and g%d#%d both returned the result of execution %d", returnedBy[e].g, returnedBy[e].idx, in.g, in.idx, tok.exec))
						case in.wrapper < 0 && e.owner != in:
							problems = append(problems, fmt.Sprintf("invocation g%d#%d passed its own function but returned the result of execution %d of another function", in.g, in.idx, tok.exec))
						case in.wrapper >= 0 && e.owner != nil:
							problems = append(problems, fmt.Sprintf("invocation g%d#%d of a wrapper returned the result of execution %d of a function passed to Call", in.g, in.idx, tok.exec))
						default:
							returnedBy[e] = in
						}
						mu.Unlock()
					}
				}(g)
			}
			wg.Wait()
			w.Wait()
			countEnd = w.Count()
			time.Sleep(time.Second)
			synctest.Wait()
			if left := vkit.BubbleOthers(); len(left) != 0 {
				leak = vkit.DescribeGoroutines(left)
			}
		})
		if len(problems) > 0 {
			sig := "C14/wrong-result"
			if strings.Contains(problems[0], "executing at once") {
				sig = "C14/concurrency-bound"
			}
			vkit.Fail(t, sig, "%s (and %d more)\ncase: %v", problems[0], len(problems)-1, trace)
		}
		if len(execs) != total {
			vkit.Fail(t, "C14/executions-vs-calls", "%d invocations, %d executions\ncase: %v", total, len(execs), trace)
		}
		if countEnd != 0 {
			vkit.Fail(t, "C14/count-after-wait", "Count()=%d after Wait returned with no call in flight\ncase: %v", countEnd, trace)
		}
		if leak != "" {
			vkit.Fail(t, "C14+C12/goroutine-leak", "goroutines remain after Wait:\n%s\ncase: %v", leak, trace)
		}
		st.Case(trace, overlap.Load(), fmt.Sprintf("callers:%d", nG))
	})
}


// c14Marathon: n calls (each from its own goroutine, each returning its own index) queue up behind gated calls that
// keep every worker busy; then the gates open. Every call returns its own result, Wait returns, Count is zero, nobody
// is left behind (a call that is never executed leaves the bubble deadlocked, which the driver reports).
func c14Marathon(t *rapid.T, st *vkit.Stats, n, count int) {
	trace := []string{fmt.Sprintf("marathon: %d calls behind %d gated ones, count=%d", n, count, count)}
	vkit.CaseStart(func() string { return trace[0] })
	var wrong atomic.Int64
	var firstWrong atomic.Value
	countEnd := -1
	rapid.SyncTest(t, func(t *rapid.T) {
		w := new(bigbuff.Workers)
		gate := make(chan struct{})
		var wg sync.WaitGroup
		for g := 0; g < count; g++ {
			wg.Add(1)
			go func() {
				defer wg.Done()
				_, _ = w.Call(count, func() (any, error) { <-gate; return nil, nil })
			}()
		}
		synctest.Wait() // the gated calls occupy every worker
		for i := 0; i < n; i++ {
			wg.Add(1)
			go func(i int) {
				defer wg.Done()
				v, err := w.Call(count, func() (any, error) { return i, nil })
				if v != any(i) || err != nil {
					if wrong.Add(1) == 1 {
						firstWrong.Store(fmt.Sprintf("call %d returned (%v, %v)", i, v, err))
					}
				}
			}(i)
		}
		synctest.Wait() // everything is queued
		close(gate)
		wg.Wait()
		w.Wait()
		countEnd = w.Count()
	})
	if wrong.Load() > 0 {
		vkit.Fail(t, "C14/wrong-result", "%d of %d calls returned something else than their own function's result, e.g. %v\ncase: %v", wrong.Load(), n, firstWrong.Load(), trace)
	}
	if countEnd != 0 {
		vkit.Fail(t, "C14/count-after-wait", "Count()=%d after Wait returned with no call in flight\ncase: %v", countEnd, trace)
	}
	st.Case(trace, n > 16384, "marathon")
}
