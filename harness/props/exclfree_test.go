//go:build verif && go1.25

package props

// exclfree — free-running concurrent Exclusive programs inside a synctest bubble (C09, C10): 2-8 caller
// goroutines issue calls of every style on 1-3 keys with drawn yields; work functions yield a drawn number of
// times before and after resolving; drawn Gosched bursts at the library's instrumentation points (runner start,
// after the work function) widen the attach / hand-over windows. Oracles over the recorded history (logical
// clock): executions of one key never overlap (counter checked inside the work functions), every call gets
// exactly one outcome and it comes from an execution of its key begun after the call was made, calls answered
// by one execution see the same outcome, no closure runs twice, every Start is followed by an execution, no
// per-key state and no goroutine is left.

import (
	"fmt"
	"math"
	"os"
	"runtime"
	"strings"
	"sync"
	"sync/atomic"
	"testing"
	"testing/synctest"
	"time"

	bigbuff "github.com/joeycumines/go-bigbuff"
	"pgregory.net/rapid"

	"verif/harness/vkit"
)

type efCall struct {
	g, idx int
	key    int
	style  string
	wait   time.Duration
	preY   int
	workY  int
	// preSleep: a pause on the virtual clock before the call
	preSleep time.Duration
	postY    int
	skip     bool
	dual     bool // Options only: resolve is called from two goroutines at once, with different values
	// many-keys scenario: the work function of this call returns only after the key burst has drained and the
	// follow-up call has been announced / this call is made only once the burst has drained
	waitBurst  bool
	afterBurst bool
	invoked    int64
	got        *bigbuff.ExclusiveOutcome
	nGot       int
	closed     bool
	ran        int64 // how many times its closure was executed
}

// efRes is what a dual-resolving work function resolves with: both goroutines name the execution, each its own variant
type efRes struct{ exec, variant int }

type efExec struct {
	id           int
	key          int
	fnOf         *efCall
	start, ended int64
}

func TestExclFree(t *testing.T) {
	prof := os.Getenv("VKIT_PROFILE")
	st := vkit.For("exclfree_" + prof)
	defer bigbuff.VerifSetHook(nil)
	rapid.Check(t, func(t *rapid.T) {
		nKeys := rapid.IntRange(1, 3).Draw(t, "keys")
		nG := rapid.IntRange(2, 8).Draw(t, "goroutines")
		var calls [][]*efCall
		for g := 0; g < nG; g++ {
			n := rapid.IntRange(1, 5).Draw(t, "calls")
			var cs []*efCall
			for i := 0; i < n; i++ {
				c := &efCall{g: g, idx: i,
					key:   rapid.IntRange(0, nKeys-1).Draw(t, "key"),
					style: rapid.SampledFrom([]string{"Call", "Call", "CallAfter", "CallAsync", "Start", "StartAfter", "Options"}).Draw(t, "style"),
					preY:  rapid.SampledFrom([]int{0, 0, 1, 3, 8}).Draw(t, "preY"),
					workY: rapid.SampledFrom([]int{0, 0, 1, 3, 8}).Draw(t, "workY"),
					postY: rapid.SampledFrom([]int{0, 0, 1, 3}).Draw(t, "postY"),
				}
				// a pause on the (virtual) clock before the call: the same few durations as the waits, so that callers
				// wake up at the very instant at which somebody else's wait ends
				c.preSleep = rapid.SampledFrom([]time.Duration{0, 0, 0, time.Microsecond, time.Millisecond, 2 * time.Millisecond}).Draw(t, "preSleep")
				if strings.Contains(c.style, "After") || c.style == "Options" {
					c.wait = rapid.SampledFrom([]time.Duration{0, 0, time.Microsecond, time.Microsecond, time.Millisecond, time.Millisecond, -1, math.MinInt64}).Draw(t, "wait")
				}
				if c.style == "Options" {
					c.skip = rapid.IntRange(0, 4).Draw(t, "skip") == 0
					c.dual = !c.skip && rapid.IntRange(0, 3).Draw(t, "dualResolve") == 0
				}
				cs = append(cs, c)
			}
			calls = append(calls, cs)
		}
		// many keys at once (one case in eight): while a slow work function runs on key 0, 64-120 other keys are
		// all present at the same time and then drain; afterwards key 0 is called again while the slow one still runs
		burstN := 0
		burstAge := time.Duration(0)
		if rapid.IntRange(0, 7).Draw(t, "keyBurst") == 0 {
			burstN = rapid.IntRange(64, 120).Draw(t, "burstKeys")
			burstAge = rapid.SampledFrom([]time.Duration{0, 0, 2 * time.Minute, 3 * time.Hour}).Draw(t, "slowAge")
			slow := &efCall{g: nG, key: 0, style: rapid.SampledFrom([]string{"Call", "CallAsync", "Start", "Options"}).Draw(t, "slowStyle"), waitBurst: true,
				postY: rapid.SampledFrom([]int{0, 3}).Draw(t, "slowPostY"), workY: rapid.SampledFrom([]int{20, 60, 200}).Draw(t, "slowTail")}
			follow := &efCall{g: nG + 1, key: 0, style: rapid.SampledFrom([]string{"Call", "CallAsync", "Start", "Options"}).Draw(t, "followStyle"), afterBurst: true}
			// key 0 belongs to the slow call and its follow-up (no other closure may be the one that gets executed)
			if nKeys < 2 {
				nKeys = 2
			}
			for _, cs := range calls {
				for _, c := range cs {
					if c.key == 0 {
						c.key = 1 + c.idx%(nKeys-1)
					}
				}
			}
			calls = append(calls, []*efCall{slow}, []*efCall{follow})
		}
		hookY := map[int]int{
			bigbuff.VerifExclRunnerStart: rapid.SampledFrom([]int{0, 0, 1, 3, 10}).Draw(t, "hookRunner"),
			bigbuff.VerifExclAfterWork:   rapid.SampledFrom([]int{0, 0, 1, 3, 10}).Draw(t, "hookAfter"),
		}
		var trace []string
		trace = append(trace, fmt.Sprintf("keys=%d hooks=%v burstKeys=%d slowAge=%v", nKeys, hookY, burstN, burstAge))
		for g, cs := range calls {
			var d []string
			for _, c := range cs {
				d = append(d, fmt.Sprintf("%s(k%d,w=%v,y=%d/%d/%d,skip=%v,dual=%v,slow=%v,follow=%v)", c.style, c.key, c.wait, c.preY, c.workY, c.postY, c.skip, c.dual, c.waitBurst, c.afterBurst)+fmt.Sprintf("+sleep%v", c.preSleep))
			}
			trace = append(trace, fmt.Sprintf("g%d=%v", g, d))
		}
		vkit.CaseStart(func() string { return strings.Join(trace, " ; ") })
		bigbuff.VerifSetHook(func(p int) {
			for i := hookY[p]; i > 0; i-- {
				runtime.Gosched()
			}
		})
		var (
			clock    atomic.Int64
			mu       sync.Mutex
			execs    []*efExec
			inKey    = make([]atomic.Int64, 3)
			overlaps []string
			panics   []string
			keysLeft = -1
			leak     string
			gapCalls int
		)
		resolvedNotReturned := make([]atomic.Int64, 3)
		keys := []any{nil, "a", 7}
		rapid.SyncTest(t, func(t *rapid.T) {
			var e bigbuff.Exclusive
			slowRunning := make(chan struct{}) // the slow work function has started
			burstDone := make(chan struct{})   // every burst key has come and gone
			followNow := make(chan struct{})   // the follow-up call is about to be made
			var slowOnce, followOnce sync.Once
			body := func(c *efCall, work bool, resolve func(any, error)) (any, error) {
				atomic.AddInt64(&c.ran, 1)
				if n := inKey[c.key].Add(1); n > 1 {
					mu.Lock()
					overlaps = append(overlaps, fmt.Sprintf("closure of g%d#%d started on key %d while %d other work function(s) of that key had not returned", c.g, c.idx, c.key, n-1))
					mu.Unlock()
				}
				ex := &efExec{key: c.key, fnOf: c, start: clock.Add(1)}
				mu.Lock()
				ex.id = len(execs)
				execs = append(execs, ex)
				mu.Unlock()
				if c.waitBurst {
					slowOnce.Do(func() { close(slowRunning) })
					<-burstDone
					<-followNow
				}
				for i := 0; i < c.workY; i++ {
					runtime.Gosched()
				}
				if work {
					if c.dual {
						// two goroutines released together both resolve, each with its own value: only one of them
						// may count, and it must count for every caller
						var ready, dwg sync.WaitGroup
						var goNow atomic.Bool
						ready.Add(2)
						dwg.Add(2)
						for v := 1; v <= 2; v++ {
							go func(v int) {
								defer dwg.Done()
								ready.Done()
								for !goNow.Load() {
								}
								resolve(efRes{ex.id, v}, nil)
							}(v)
						}
						ready.Wait()
						goNow.Store(true)
						dwg.Wait()
					} else if !c.skip {
						resolve(ex.id, nil)
					}
					resolvedNotReturned[c.key].Add(1)
					for i := 0; i < c.postY; i++ {
						runtime.Gosched()
					}
					resolvedNotReturned[c.key].Add(-1)
				}
				ex.ended = clock.Add(1)
				inKey[c.key].Add(-1)
				return ex.id, nil
			}
			var wg sync.WaitGroup
			for g := range calls {
				wg.Add(1)
				go func(g int) {
					defer wg.Done()
					defer func() {
						if r := recover(); r != nil {
							mu.Lock()
							panics = append(panics, fmt.Sprintf("g%d: %v", g, r))
							mu.Unlock()
						}
					}()
					for _, c := range calls[g] {
						if c.preSleep > 0 {
							time.Sleep(c.preSleep)
						}
						for i := 0; i < c.preY; i++ {
							runtime.Gosched()
						}
						if c.afterBurst {
							<-burstDone
							followOnce.Do(func() { close(followNow) })
						}
						k := keys[c.key]
						value := func() (any, error) { return body(c, false, nil) }
						if resolvedNotReturned[c.key].Load() > 0 {
							mu.Lock()
							gapCalls++
							mu.Unlock()
						}
						c.invoked = clock.Add(1)
						var ch <-chan *bigbuff.ExclusiveOutcome
						switch c.style {
						case "Call":
							r, err := e.Call(k, value)
							c.got, c.nGot, c.closed = &bigbuff.ExclusiveOutcome{Result: r, Error: err}, 1, true
						case "CallAfter":
							r, err := e.CallAfter(k, value, c.wait)
							c.got, c.nGot, c.closed = &bigbuff.ExclusiveOutcome{Result: r, Error: err}, 1, true
						case "CallAsync":
							ch = e.CallAsync(k, value)
						case "Start":
							e.Start(k, value)
						case "StartAfter":
							e.StartAfter(k, value, c.wait)
						case "Options":
							ch = e.CallWithOptions(bigbuff.ExclusiveKey(k), bigbuff.ExclusiveWait(c.wait),
								bigbuff.ExclusiveWork(func(resolve func(any, error)) { _, _ = body(c, true, resolve) }))
						}
						if ch != nil {
							for o := range ch {
								c.nGot++
								c.got = o
							}
							c.closed = true
						}
					}
				}(g)
			}
			if burstN > 0 {
				wg.Add(1)
				go func() {
					defer wg.Done()
					defer func() {
						if r := recover(); r != nil {
							mu.Lock()
							panics = append(panics, fmt.Sprintf("burst: %v", r))
							mu.Unlock()
						}
					}()
					<-slowRunning
					if burstAge > 0 {
						time.Sleep(burstAge) // the slow work function has been running for a long (virtual) time by now
					}
					started := make(chan struct{}, burstN)
					release := make(chan struct{})
					var bw sync.WaitGroup
					for i := 0; i < burstN; i++ {
						bw.Add(1)
						go func(i int) {
							defer bw.Done()
							// keys are independent: all burst functions are inside their work at the same time
							_, _ = e.Call(1000+i, func() (any, error) { started <- struct{}{}; <-release; return nil, nil })
						}(i)
					}
					for i := 0; i < burstN; i++ {
						<-started
					}
					close(release)
					bw.Wait()
					close(burstDone)
				}()
			} else {
				close(burstDone)
				close(followNow)
			}
			wg.Wait()
			// Start-style work may still be pending or running: let every wait elapse and everything finish
			for i := 0; i < 10; i++ {
				time.Sleep(time.Second)
				synctest.Wait()
			}
			keysLeft = bigbuff.VerifExclusiveKeys(&e)
			if left := vkit.BubbleOthers(); len(left) != 0 {
				leak = vkit.DescribeGoroutines(left)
			}
		})
		bigbuff.VerifSetHook(nil)
		on := func(tags string) bool {
			if prof == "" {
				return true
			}
			for _, p := range strings.Split(tags, "+") {
				if p == prof {
					return true
				}
			}
			return false
		}
		fail := func(sig, f string, a ...any) {
			t.Helper()
			if !on(sig[:strings.Index(sig, "/")]) {
				vkit.Other(st, sig)
				return
			}
			var hist []string
			for _, ex := range execs {
				hist = append(hist, fmt.Sprintf("e%d[k%d fn=g%d#%d %d..%d]", ex.id, ex.key, ex.fnOf.g, ex.fnOf.idx, ex.start, ex.ended))
			}
			for _, cs := range calls {
				for _, c := range cs {
					r := "-"
					if c.got != nil {
						r = fmt.Sprintf("%v/%v", c.got.Result, c.got.Error)
					}
					hist = append(hist, fmt.Sprintf("g%d#%d %s k%d t=%d -> %s", c.g, c.idx, c.style, c.key, c.invoked, r))
				}
			}
			vkit.Fail(t, sig, "%s\ncase: %s\nhistory: %s", fmt.Sprintf(f, a...), strings.Join(trace, " ; "), strings.Join(hist, " ; "))
		}
		if len(panics) > 0 {
			fail("C09+C10/panic", "panic in a concurrent Exclusive program: %v", panics)
		}
		if len(overlaps) > 0 {
			fail("C09/overlap", "%s", overlaps[0])
		}
		// interval check as well (the counter above catches it at the instant; this one is the history form)
		for i, a := range execs {
			for _, b := range execs[i+1:] {
				if a.key == b.key && a.start < b.ended && b.start < a.ended {
					fail("C09/overlap", "executions e%d and e%d of key %d overlap in time", a.id, b.id, a.key)
				}
			}
		}
		answering := func(c *efCall) *efExec {
			var best *efExec
			for _, ex := range execs {
				if ex.key == c.key && ex.start > c.invoked && (best == nil || ex.start < best.start) {
					best = ex
				}
			}
			return best
		}
		nCalls := 0
		coalesced := false
		byExec := map[int]int{}
		variantOf := map[int]int{}
		for _, cs := range calls {
			for _, c := range cs {
				nCalls++
				if c.ran > 1 {
					fail("C10/function-executed-twice", "the closure of call g%d#%d ran %d times", c.g, c.idx, c.ran)
				}
				a := answering(c)
				if c.style == "Start" || c.style == "StartAfter" {
					if a == nil {
						fail("C10/start-without-execution", "%s g%d#%d on key %d (t=%d) was never followed by an execution begun after it", c.style, c.g, c.idx, c.key, c.invoked)
					}
					continue
				}
				if c.nGot != 1 || !c.closed || c.got == nil {
					fail("C10/outcome-count", "call g%d#%d (%s) received %d outcomes (closed=%v)", c.g, c.idx, c.style, c.nGot, c.closed)
					continue
				}
				if a == nil {
					fail("C10/answered-without-execution", "call g%d#%d (%s key %d t=%d) got %v/%v but no execution of its key began after it", c.g, c.idx, c.style, c.key, c.invoked, c.got.Result, c.got.Error)
					continue
				}
				// (in a concurrent program the call may attach later than it was stamped, so ANY execution of its
				// key begun after the stamp is a legitimate answer; one begun before it is not)
				if c.got.Error != nil {
					if !strings.Contains(c.got.Error.Error(), "resolve not called") {
						fail("C10/wrong-outcome", "call g%d#%d (%s) received the unexpected error %v", c.g, c.idx, c.style, c.got.Error)
						continue
					}
					okSkip := false
					for _, ex := range execs {
						if ex.key == c.key && ex.start > c.invoked && ex.fnOf.skip && ex.fnOf.style == "Options" {
							okSkip = true
						}
					}
					if !okSkip {
						fail("C10/resolve-not-called", "call g%d#%d (%s key %d t=%d) got resolve-not-called but no non-resolving execution of its key began after it", c.g, c.idx, c.style, c.key, c.invoked)
					}
					continue
				}
				id, isInt := c.got.Result.(int)
				variant := 0
				if r, ok := c.got.Result.(efRes); ok {
					id, variant, isInt = r.exec, r.variant, true
				}
				if !isInt || id < 0 || id >= len(execs) {
					fail("C10/wrong-outcome", "call g%d#%d (%s) received %v/%v which no execution resolved", c.g, c.idx, c.style, c.got.Result, c.got.Error)
					continue
				}
				ex := execs[id]
				if v0, seen := variantOf[id]; seen && v0 != variant {
					fail("C10/coalesced-different-results", "two calls answered by execution e%d received different results (variants %d and %d of a work function that resolved twice concurrently)", id, v0, variant)
				}
				variantOf[id] = variant
				if (variant != 0) != ex.fnOf.dual {
					fail("C10/wrong-outcome", "call g%d#%d received %v, which execution e%d never resolved with", c.g, c.idx, c.got.Result, id)
				}
				byExec[id]++
				if byExec[id] >= 2 {
					coalesced = true
				}
				switch {
				case ex.key != c.key:
					fail("C10/wrong-outcome", "call g%d#%d on key %d received the result of e%d, an execution of key %d", c.g, c.idx, c.key, id, ex.key)
				case ex.start < c.invoked:
					fail("C10/stale-result", "call g%d#%d (%s key %d made at t=%d) received the result of e%d, which began earlier (t=%d)", c.g, c.idx, c.style, c.key, c.invoked, id, ex.start)
				case ex.fnOf.skip && ex.fnOf.style == "Options":
					fail("C10/resolve-not-called", "call g%d#%d received a result from e%d, which never called resolve", c.g, c.idx, id)
				}
			}
		}
		if len(execs) > nCalls {
			fail("C10/executions-outnumber-calls", "%d executions for %d calls", len(execs), nCalls)
		}
		if keysLeft != 0 {
			fail("C10/state-left", "%d per-key entries remain after every call was answered and all work finished", keysLeft)
		}
		if leak != "" {
			fail("C10+C12/exclusive-goroutine-leak", "goroutines remain:\n%s", leak)
		}
		perKey := map[int]int{}
		for _, ex := range execs {
			perKey[ex.key]++
		}
		multi := false
		for _, n := range perKey {
			if n >= 2 {
				multi = true
			}
		}
		nt := multi && (gapCalls > 0 || nKeys >= 2)
		if prof == "C10" {
			nt = coalesced
		}
		cls := []string{fmt.Sprintf("keys:%d", nKeys)}
		if burstN > 0 {
			cls = append(cls, "many-keys-burst")
		}
		for _, ex := range execs {
			if ex.fnOf.dual {
				cls = append(cls, "dual-resolve")
				break
			}
		}
		if coalesced {
			cls = append(cls, "coalesced")
		}
		if gapCalls > 0 {
			cls = append(cls, "call-in-resolve-return-gap")
		}
		st.Case(trace, nt, cls...)
	})
}
