//go:build go1.25

package props

// C04 with large backlogs (virtual time): thousands of values are put, read and committed in big strides, consumers are
// closed, a FixedBufferCleaner is overrun by a burst — then nothing else happens. One cooldown later the fully consumed
// prefix must be gone: Size equals the backlog of the slowest open consumer (at most max for a fixed cleaner). The case
// sizes straddle every power of two up to 2^14, so a per-pass limit or an int conversion hidden in the cleaning path
// shows.

import (
	"context"
	"fmt"
	"runtime"
	"strings"
	"sync"
	"testing"
	"testing/synctest"
	"time"

	bigbuff "github.com/joeycumines/go-bigbuff"
	"pgregory.net/rapid"

	"verif/harness/vkit"
)

func TestC04Bulk(t *testing.T) {
	st := vkit.For("c04_bulk")
	rapid.Check(t, func(t *rapid.T) {
		n := rapid.SampledFrom([]int{300, 1000, 4095, 4096, 4097, 5000, 8193, 10000, 20000}).Draw(t, "values")
		cd := rapid.SampledFrom([]time.Duration{0, time.Millisecond, 10 * time.Millisecond}).Draw(t, "cooldown")
		nCons := rapid.IntRange(1, 3).Draw(t, "consumers")
		mode := rapid.SampledFrom([]string{"commit-all", "commit-all", "close-slowest", "fixed-burst"}).Draw(t, "mode")
		batches := rapid.SampledFrom([]int{1, 3, 10}).Draw(t, "putBatches")
		stride := rapid.SampledFrom([]int{0, 0, 1000, 4096}).Draw(t, "commitStride") // 0 = one commit at the end
		lag := rapid.IntRange(0, 9).Draw(t, "slowestBacklog")
		// the cleaner may be slow (it yields before answering) and the consumers may run side by side: commits then
		// arrive while a cleanup pass is inside the cleaner callback
		cleanerYield := rapid.SampledFrom([]int{0, 0, 2, 10, 40}).Draw(t, "cleanerYield")
		parallel := rapid.Bool().Draw(t, "parallelConsumers")
		trace := []string{fmt.Sprintf("values=%d cooldown=%v consumers=%d mode=%s putBatches=%d commitStride=%d slowestBacklog=%d cleanerYield=%d parallel=%v", n, cd, nCons, mode, batches, stride, lag, cleanerYield, parallel)}
		vkit.CaseStart(func() string { return strings.Join(trace, " ; ") })
		rapid.SyncTest(t, func(t *rapid.T) {
			b := new(bigbuff.Buffer)
			fixMax, fixTgt := 100, 50
			cleaner := bigbuff.Cleaner(bigbuff.DefaultCleaner)
			if mode == "fixed-burst" {
				cleaner = bigbuff.FixedBufferCleaner(fixMax, fixTgt, nil)
			}
			if cleanerYield > 0 {
				inner := cleaner
				cleaner = func(size int, offsets []int) int {
					for i := 0; i < cleanerYield; i++ {
						runtime.Gosched()
					}
					return inner(size, offsets)
				}
			}
			if err := b.SetCleanerConfig(bigbuff.CleanerConfig{Cleaner: cleaner, Cooldown: cd}); err != nil {
				t.Fatalf("harness: %v", err)
			}
			var cons []bigbuff.Consumer
			for i := 0; i < nCons; i++ {
				c, err := b.NewConsumer()
				if err != nil {
					t.Fatalf("harness: %v", err)
				}
				cons = append(cons, c)
			}
			synctest.Wait()
			time.Sleep(bigbuff.DefaultCleanerCooldown + 2*cd + time.Millisecond) // let init-time timers expire
			ctx := context.Background()
			per := (n + batches - 1) / batches
			for put := 0; put < n; {
				k := min(per, n-put)
				vals := make([]any, k)
				for i := range vals {
					vals[i] = put + i
				}
				if err := b.Put(ctx, vals...); err != nil {
					t.Fatalf("harness: put: %v", err)
				}
				put += k
			}
			fail := func(sig, f string, a ...any) {
				msg := fmt.Sprintf(f, a...)
				vkit.Announce(sig, "%s\ncase: %v", msg, trace)
				for _, c := range cons {
					_ = c.Rollback()
				}
				go func() { _ = b.Close() }()
				t.Fatalf("[%s] %s\ncase: %v", sig, msg, trace)
			}
			want := 0
			switch mode {
			case "commit-all", "close-slowest":
				// everybody reads everything; the last consumer stays `lag` values behind (uncommitted beyond that)
				var emu sync.Mutex
				var firstSig, firstMsg string
				note := func(sig, f string, a ...any) {
					emu.Lock()
					if firstSig == "" {
						firstSig, firstMsg = sig, fmt.Sprintf(f, a...)
					}
					emu.Unlock()
				}
				read := func(ci int, c bigbuff.Consumer) {
					upto := n
					if ci == len(cons)-1 {
						upto = n - lag
					}
					for i := 0; i < upto; i++ {
						v, err := c.Get(ctx)
						if err != nil || v != any(i) {
							note("C01+C03/get-value", "consumer %d: Get #%d returned (%v,%v)", ci, i, v, err)
							return
						}
						if stride > 0 && (i+1)%stride == 0 {
							if err := c.Commit(); err != nil {
								note("C02/commit-error", "Commit failed: %v", err)
								return
							}
						}
					}
					if upto > 0 && (stride == 0 || upto%stride != 0) {
						if err := c.Commit(); err != nil {
							note("C02/commit-error", "final Commit failed: %v", err)
						}
					}
				}
				if parallel {
					var wg sync.WaitGroup
					for ci, c := range cons {
						wg.Add(1)
						go func() { defer wg.Done(); read(ci, c) }()
					}
					wg.Wait()
				} else {
					for ci, c := range cons {
						read(ci, c)
					}
				}
				if firstSig != "" {
					fail(firstSig, "%s", firstMsg)
				}
				want = lag
				if mode == "close-slowest" && nCons >= 2 {
					// closing the slowest consumer releases its hold; the others have committed everything
					if err := cons[len(cons)-1].Close(); err != nil {
						fail("C12/close-error", "Close failed: %v", err)
					}
					want = 0
				}
			case "fixed-burst":
				// nobody reads: the burst overruns max; once quiescent the size must be <= max
				want = -1
			}
			// no further operation: one cooldown later the prefix must be gone
			time.Sleep(cd + time.Millisecond)
			synctest.Wait()
			size := b.Size()
			switch {
			case want >= 0 && size != want:
				fail("C04/prefix-not-freed", "%d values were put and every open consumer committed past %d of them, yet Size()=%d (expected %d) one cooldown (%v) after the last change", n, n-want, size, want, cd)
			case want < 0 && n > fixMax && size > fixMax:
				fail("C04/fixed-over-max", "FixedBufferCleaner(%d,%d): the quiescent buffer holds %d values after a burst of %d", fixMax, fixTgt, size, n)
			}
			for _, c := range cons {
				_ = c.Rollback()
				_ = c.Close()
			}
			_ = b.Close()
			time.Sleep(time.Hour)
			synctest.Wait()
			st.Case(trace, n > 4096, "mode:"+mode, fmt.Sprintf("n:%d", n))
		})
	})
}

// TestC04Birth — the first moments of a Buffer's life (C04): a batch of fresh Buffers, each of which gets a consumer,
// a few values, reads and a commit in one breath — possibly before its background cleanup goroutine has run for the
// first time — and then nothing more. After quiescence plus the cooldown every one of them must have freed the
// consumed prefix (Size equals the consumer's backlog), without any further operation.
func TestC04Birth(t *testing.T) {
	st := vkit.For("c04_birth")
	rapid.Check(t, func(t *rapid.T) {
		nBuf := rapid.IntRange(5, 40).Draw(t, "buffers")
		m := rapid.IntRange(1, 5).Draw(t, "values")
		backlog := rapid.IntRange(0, m-1+1).Draw(t, "backlog") % m
		cfg := rapid.SampledFrom([]string{"none", "none", "cooldown0", "cooldown1ms", "after"}).Draw(t, "config")
		closeInstead := rapid.IntRange(0, 3).Draw(t, "closeConsumer") == 0
		trace := []string{fmt.Sprintf("buffers=%d values=%d backlog=%d config=%s closeConsumerInstead=%v", nBuf, m, backlog, cfg, closeInstead)}
		vkit.CaseStart(func() string { return strings.Join(trace, " ; ") })
		var bad string
		rapid.SyncTest(t, func(t *rapid.T) {
			ctx := context.Background()
			var bufs []*bigbuff.Buffer
			var cons []bigbuff.Consumer
			want := backlog
			for i := 0; i < nBuf; i++ {
				b := new(bigbuff.Buffer)
				set := func(cd time.Duration) {
					if err := b.SetCleanerConfig(bigbuff.CleanerConfig{Cleaner: bigbuff.DefaultCleaner, Cooldown: cd}); err != nil {
						t.Fatalf("harness: %v", err)
					}
				}
				switch cfg {
				case "cooldown0":
					set(0)
				case "cooldown1ms":
					set(time.Millisecond)
				}
				c, err := b.NewConsumer()
				if err != nil {
					t.Fatalf("harness: %v", err)
				}
				var extra bigbuff.Consumer
				if closeInstead {
					// a second consumer that never reads holds everything back until it is closed
					if extra, err = b.NewConsumer(); err != nil {
						t.Fatalf("harness: %v", err)
					}
				}
				vals := make([]any, m)
				for j := range vals {
					vals[j] = j
				}
				if err := b.Put(ctx, vals...); err != nil {
					t.Fatalf("harness: %v", err)
				}
				for j := 0; j < m-backlog; j++ {
					if v, err := c.Get(ctx); err != nil || v != any(j) {
						bad = fmt.Sprintf("buffer %d: Get #%d returned (%v,%v)", i, j, v, err)
						return
					}
				}
				if m-backlog > 0 {
					if err := c.Commit(); err != nil {
						bad = fmt.Sprintf("buffer %d: Commit failed: %v", i, err)
						return
					}
				}
				if extra != nil {
					if err := extra.Close(); err != nil {
						bad = fmt.Sprintf("buffer %d: closing the idle consumer failed: %v", i, err)
						return
					}
				}
				if cfg == "after" {
					set(time.Millisecond)
				}
				bufs, cons = append(bufs, b), append(cons, c)
			}
			synctest.Wait()
			time.Sleep(bigbuff.DefaultCleanerCooldown + 5*time.Millisecond)
			synctest.Wait()
			for i, b := range bufs {
				if sz := b.Size(); sz != want {
					bad = fmt.Sprintf("buffer %d still holds %d values one cooldown after its last operation; its only open consumer has committed all but %d", i, sz, want)
					break
				}
			}
			for i, b := range bufs {
				_ = cons[i].Close()
				_ = b.Close()
			}
			time.Sleep(time.Hour)
			synctest.Wait()
		})
		if bad != "" {
			sig := "C04/prefix-not-freed"
			if strings.Contains(bad, "returned (") || strings.Contains(bad, "failed") {
				sig = "C01+C02/birth-ops"
			}
			vkit.Fail(t, sig, "%s\ncase: %v", bad, trace)
		}
		st.Case(trace, true, "config:"+cfg)
	})
}
