//go:build verif

package props

// TestChanDoneGate — "once Done is closed nothing more is taken from the source" (C13), decided at the one place where
// a schedule could break it: a Get that has passed its closed-check and stands, holding the Channel's mutex, in front of
// its receive (instrumentation point ChannelGetLocked). The Get is stopped there by a gate; the Channel is then shut
// down (its parent context is cancelled, or Close is called from another goroutine), and the harness watches Done for a
// while before it lets the Get go on.
//
// Verdict, independent of timing: IF Done was seen closed while the Get stood at the gate, the number of values left in
// the source is noted at that moment, and must be the same after the Get has returned. (On a Channel that closes Done
// only under the mutex, Done cannot be seen closed while the Get stands there: nothing is asserted about that Get, and
// the round goes on to check that a Get issued after Done takes nothing either.) How long the harness watches only
// decides how often the first branch is reached, never what is reported.

import (
	"context"
	"fmt"
	"runtime"
	"strings"
	"sync/atomic"
	"testing"
	"time"

	bigbuff "github.com/joeycumines/go-bigbuff"
	"pgregory.net/rapid"

	"verif/harness/vkit"
)

type cdgKey struct{}

type cdgGate struct{ entered, release chan struct{} }

func TestChanDoneGate(t *testing.T) {
	st := vkit.For("chandonegate")
	var gate atomic.Pointer[cdgGate]
	bigbuff.VerifSetHook(func(p int) {
		if p == bigbuff.VerifChannelGetLocked {
			if g := gate.Swap(nil); g != nil {
				close(g.entered)
				<-g.release
			}
		}
	})
	defer bigbuff.VerifSetHook(nil)
	rapid.Check(t, func(t *rapid.T) {
		rounds := rapid.IntRange(3, 12).Draw(t, "rounds")
		how := rapid.SampledFrom([]string{"parent-cancel", "parent-cancel", "close", "grandparent-cancel"}).Draw(t, "how")
		prior := rapid.IntRange(0, 4).Draw(t, "priorGets")
		after := rapid.SampledFrom([]string{"none", "commit", "rollback"}).Draw(t, "afterPrior")
		fill := rapid.IntRange(1, 8).Draw(t, "sourceFill")
		watch := rapid.SampledFrom([]int{50, 400, 2000}).Draw(t, "watchYields")
		trace := []string{fmt.Sprintf("rounds=%d how=%s priorGets=%d then=%s sourceFill=%d watchYields=%d", rounds, how, prior, after, fill, watch)}
		vkit.CaseStart(func() string { return strings.Join(trace, " ; ") })
		seen := 0
		for r := 0; r < rounds; r++ {
			src := make(chan int, 16)
			for i := 0; i < prior+fill; i++ {
				src <- i
			}
			var ctx context.Context
			var cancel context.CancelFunc
			ctx, cancel = context.WithCancel(context.Background())
			if how == "grandparent-cancel" {
				ctx = context.WithValue(context.WithoutCancel(context.WithValue(ctx, cdgKey{}, 1)), cdgKey{}, 2)
				var c2 context.CancelFunc
				ctx, c2 = context.WithCancel(ctx)
				c1 := cancel
				cancel = func() { c2(); c1() }
			}
			ch, err := bigbuff.NewChannel(ctx, 50*time.Microsecond, src)
			if err != nil {
				cancel()
				t.Fatalf("harness: %v", err)
			}
			for i := 0; i < prior; i++ {
				if v, err := ch.Get(context.Background()); err != nil || v != any(i) {
					cancel()
					vkit.Fail(t, "C13/get-value", "round %d: Get #%d returned (%v,%v)\ncase: %v", r, i, v, err, trace)
				}
			}
			if prior > 0 {
				switch after {
				case "commit":
					_ = ch.Commit()
				case "rollback":
					_ = ch.Rollback()
				}
			}
			done := ch.Done() // (Done takes the mutex: fetched before the Get is parked on it)
			g := &cdgGate{entered: make(chan struct{}), release: make(chan struct{})}
			gate.Store(g)
			type res struct {
				v   any
				err error
			}
			got := make(chan res, 1)
			go func() {
				v, err := ch.Get(context.Background())
				got <- res{v, err}
			}()
			<-g.entered // the Get holds the mutex, has found the Channel open, and has not received yet
			closed := make(chan struct{})
			if how == "close" {
				go func() { _ = ch.Close(); close(closed) }()
			} else {
				cancel()
				close(closed)
			}
			sawDone, left := false, 0
			for i := 0; i < watch && !sawDone; i++ {
				select {
				case <-done:
					sawDone, left = true, len(src)
				default:
					runtime.Gosched()
				}
			}
			if !sawDone {
				time.Sleep(100 * time.Microsecond)
				select {
				case <-done:
					sawDone, left = true, len(src)
				default:
				}
			}
			close(g.release)
			out := <-got
			if sawDone {
				seen++
				if now := len(src); now != left {
					cancel()
					vkit.Fail(t, "C13+C12/taken-after-done", "round %d: Done was closed while a Get stood between its closed-check and its receive; %d values were left in the source at that moment, %d after that Get returned (%v,%v): a value was taken from the source after Done was closed\ncase: %v", r, left, now, out.v, out.err, trace)
				}
			}
			<-closed
			<-done
			// and a Get issued after Done: an error, nothing taken
			left = len(src)
			v, err := ch.Get(context.Background())
			if now := len(src); now != left {
				cancel()
				vkit.Fail(t, "C13+C12/taken-after-done", "round %d: a Get issued after Done was closed returned (%v,%v) and took %d value(s) from the source\ncase: %v", r, v, err, left-now, trace)
			}
			cancel()
			_ = ch.Close()
		}
		cls := []string{"how:" + how}
		if seen > 0 {
			cls = append(cls, "done-seen-while-gated")
		}
		st.Case(trace, prior > 0, cls...)
	})
}
