//go:build verif && go1.25

package props

// pubsubfree — free-running concurrent ChanPubSub programs inside a synctest bubble (C06, C07).
//
// A generated program = subscribers (manual Add/C/Wait loops and SubscribeContext iterators, each leaving
// at a drawn trigger: after n receipts, after some sender has *called* its j-th Send plus k yields, by
// cancelling, by breaking out of the iterator, or without ever running the iterator), 1-3 concurrent
// senders, and one witness subscriber that stays to the end. Goroutines run on the real scheduler; drawn
// runtime.Gosched bursts perturb them. Termination is decided by the bubble (deadlock panic) and by the
// real-time stall watchdog (a goroutine parked on a library mutex behind a blocked holder); the oracles are
// invariants over the recorded history (logical clock = one atomic counter).

import (
	"context"
	"fmt"
	"os"
	"runtime"
	"sort"
	"strings"
	"sync"
	"sync/atomic"
	"testing"
	"testing/synctest"

	bigbuff "github.com/joeycumines/go-bigbuff"
	"pgregory.net/rapid"

	"verif/harness/vkit"
)

type psfSub struct {
	kind      string // "manual" | "iter" | "iter-never-run"
	pre       int    // yields before subscribing
	early     bool   // subscribes before the senders start
	maxRecv   int    // leave after this many receipts (<0: only by trigger)
	trigSend  int    // leave once this many Sends have been called in total (<0: no trigger)
	trigYield int    // ... plus this many yields
	ackYield  int    // yields between receiving and Wait (manual)
	bodyYield int    // yields in the loop body
	leaveBy   string // iter: "cancel" | "break"
	errCancel bool   // iter: the context cancels itself right after an Err() call that answered nil
	members   []*psfSub
	bulk      int // bulk: this subscriber is one of `bulk` subscriptions registered and withdrawn together (Add(+k) / Add(-k))

	// history
	subCalled, subReturned     int64
	unsubCalled, unsubReturned int64
	got                        []psfRecv
}

type psfRecv struct {
	tok      int
	recvAt   int64
	waitCall int64
}

type psfSend struct {
	tok              int
	called, returned int64
	n                int
}

func (s psfSub) String() string {
	return fmt.Sprintf("{%s pre=%d early=%v max=%d trig=%d+%d ack=%d body=%d %s errCancelCtx=%v bulk=%d}", s.kind, s.pre, s.early, s.maxRecv, s.trigSend, s.trigYield, s.ackYield, s.bodyYield, s.leaveBy, s.errCancel, s.bulk)
}

// psfErrCancelCtx is a context that cancels itself right after an Err() call that answered nil: the adversary of
// every check-then-act on Err() (a context may be cancelled at any instant, in particular just after it was asked).
type psfErrCancelCtx struct {
	context.Context
	armed  atomic.Bool
	before bool // the cancellation lands just before the answer is computed (else: just after a nil answer)
	cancel context.CancelFunc
}

func (c *psfErrCancelCtx) Err() error {
	if c.armed.CompareAndSwap(true, false) {
		if c.before {
			c.cancel()
		} else {
			defer c.cancel()
		}
	}
	return c.Context.Err()
}

func psfYield(n int) {
	for i := 0; i < n; i++ {
		runtime.Gosched()
	}
}

func TestPubSubFree(t *testing.T) {
	prof := os.Getenv("VKIT_PROFILE")
	st := vkit.For("pubsubfree_" + prof)
	rapid.Check(t, func(t *rapid.T) {
		nSubs := rapid.IntRange(0, 5).Draw(t, "subs")
		subs := make([]*psfSub, nSubs)
		totalMsgs := 0
		nSend := rapid.IntRange(1, 3).Draw(t, "senders")
		msgs := make([]int, nSend)
		sy := make([][]int, nSend)
		for i := range msgs {
			msgs[i] = rapid.IntRange(1, 6).Draw(t, "msgs")
			totalMsgs += msgs[i]
			for j := 0; j < msgs[i]; j++ {
				sy[i] = append(sy[i], rapid.SampledFrom([]int{0, 0, 1, 2, 5}).Draw(t, "sy"))
			}
		}
		for i := range subs {
			s := &psfSub{}
			s.kind = rapid.SampledFrom([]string{"manual", "manual", "manual", "iter", "iter", "iter", "iter-never-run", "bulk"}).Draw(t, "kind")
			s.pre = rapid.SampledFrom([]int{0, 0, 1, 3, 10}).Draw(t, "pre")
			s.early = rapid.Bool().Draw(t, "early")
			s.maxRecv = rapid.SampledFrom([]int{-1, -1, 0, 1, 2, 4}).Draw(t, "maxRecv")
			if prof == "C07" || rapid.Bool().Draw(t, "useTrigger") {
				s.trigSend = rapid.IntRange(0, totalMsgs).Draw(t, "trigSend")
				s.trigYield = rapid.SampledFrom([]int{0, 0, 1, 2, 3, 5, 8, 13, 30}).Draw(t, "trigYield")
			} else {
				s.trigSend = -1
			}
			s.ackYield = rapid.SampledFrom([]int{0, 0, 0, 1, 3}).Draw(t, "ackYield")
			s.bodyYield = rapid.SampledFrom([]int{0, 0, 1, 3}).Draw(t, "bodyYield")
			s.leaveBy = rapid.SampledFrom([]string{"cancel", "cancel", "break", "break", "panic", "goexit"}).Draw(t, "leaveBy")
			s.errCancel = rapid.IntRange(0, 2).Draw(t, "errCancelCtx") == 0
			if s.kind == "bulk" {
				s.bulk = rapid.IntRange(2, 3).Draw(t, "bulkK")
				s.maxRecv = -1
				s.trigSend = rapid.IntRange(0, 1).Draw(t, "bulkTrig") // prompt: leaves at the first Send call at the latest
				s.trigYield = rapid.SampledFrom([]int{0, 1, 2, 3, 5, 8, 13, 30}).Draw(t, "bulkYield")
				for j := 0; j < s.bulk; j++ {
					s.members = append(s.members, &psfSub{kind: "manual", maxRecv: -1, trigSend: s.trigSend, ackYield: s.ackYield, bodyYield: s.bodyYield})
				}
			}
			if s.kind == "iter-never-run" {
				// contract: an iterator that is not run must have its context cancelled promptly, otherwise
				// every Send (correctly) waits for it; so it leaves at the first Send call at the latest
				s.trigSend = rapid.IntRange(0, 1).Draw(t, "neverRunTrig")
				s.trigYield = rapid.SampledFrom([]int{0, 1, 2, 3, 5, 8, 13, 30}).Draw(t, "neverRunYield")
			}
			subs[i] = s
		}
		// drawn yield bursts at the library's instrumentation points widen the few-instruction windows inside Send / Add
		hookY := map[int]int{}
		for _, p := range []int{bigbuff.VerifCasterArmed, bigbuff.VerifCasterNegAdded, bigbuff.VerifPubSubSendLocked, bigbuff.VerifPubSubNegDecided, bigbuff.VerifPubSubPongPhase} {
			hookY[p] = rapid.SampledFrom([]int{0, 0, 0, 0, 1, 1, 2, 5, 5, 20, 20, 300}).Draw(t, "hookYield")
		}
		if rapid.IntRange(0, 19).Draw(t, "longStall") == 0 {
			// one case in twenty: at one point a goroutine is away for very long (tens of thousands of yields), at most
			// three times — long enough for any bounded spin elsewhere to give up
			pts := []int{bigbuff.VerifPubSubSendLocked, bigbuff.VerifPubSubNegDecided, bigbuff.VerifCasterArmed, bigbuff.VerifCasterNegAdded, bigbuff.VerifPubSubPongPhase}
			hookY[pts[rapid.IntRange(0, len(pts)-1).Draw(t, "longStallAt")]] = 30000
		}
		var longLeft [32]atomic.Int32 // a very long burst is spent at most three times per point and case
		for i := range longLeft {
			longLeft[i].Store(3)
		}
		bigbuff.VerifSetHook(func(p int) {
			n := hookY[p]
			if n >= 300 && (p < 0 || p >= len(longLeft) || longLeft[p].Add(-1) < 0) {
				n = 1
			}
			for i := n; i > 0; i-- {
				runtime.Gosched()
			}
		})
		defer bigbuff.VerifSetHook(nil)
		// without the witness the subscriber count can drop to zero in the middle of the run (e.g. every counted
		// subscriber withdraws during a Send while somebody new joins): the global-order oracle then falls back to
		// successor consistency between the streams
		noWitness := rapid.IntRange(0, 2).Draw(t, "noWitness") == 0
		trace := []string{fmt.Sprintf("senders=%v hooks=%v noWitness=%v", sy, hookY, noWitness)}
		for i, s := range subs {
			trace = append(trace, fmt.Sprintf("s%d=%v", i, *s))
		}
		vkit.CaseStart(func() string { return strings.Join(trace, " ; ") })

		var (
			clock        atomic.Int64
			sendsCalled  atomic.Int64
			sendersDone  atomic.Bool
			mu           sync.Mutex
			sends        []psfSend
			panics       []string
			witness      = &psfSub{kind: "manual", maxRecv: -1, trigSend: -1}
			finalCount   int
			finalRound   string
			midSendLeave int
		)
		stamp := func() int64 { return clock.Add(1) }
		var logical []*psfSub // one entry per subscription (a bulk subscriber contributes its members)
		for _, s := range subs {
			if s.kind == "bulk" {
				logical = append(logical, s.members...)
			} else {
				logical = append(logical, s)
			}
		}
		all := append([]*psfSub{witness}, logical...)
		if noWitness {
			all = append([]*psfSub{{kind: "absent"}}, logical...)
		}

		rapid.SyncTest(t, func(t *rapid.T) {
			x := bigbuff.NewChanPubSub(make(chan int))
			guard := func(who string) {
				if r := recover(); r != nil {
					mu.Lock()
					panics = append(panics, fmt.Sprintf("%s: %v", who, r))
					mu.Unlock()
				}
			}
			var wgSubs, wgEarly, wgSend sync.WaitGroup
			doneCh := make(chan struct{})
			sendEvt := make([]chan struct{}, totalMsgs+1)
			for i := range sendEvt {
				sendEvt[i] = make(chan struct{})
			}
			close(sendEvt[0])
			runSub := func(idx int, s *psfSub, isWitness bool) {
				defer wgSubs.Done()
				defer guard(fmt.Sprintf("subscriber %d (%s)", idx, s.kind))
				earlyPending := s.early || isWitness
				markEarly := func() {
					if earlyPending {
						earlyPending = false
						wgEarly.Done()
					}
				}
				defer markEarly()
				psfYield(s.pre)
				// leave trigger
				quit := make(chan struct{})
				var quitOnce sync.Once
				fire := func() { quitOnce.Do(func() { close(quit) }) }
				trigDone := make(chan struct{})
				go func() {
					defer close(trigDone)
					if isWitness || s.trigSend < 0 {
						select {
						case <-doneCh:
						case <-quit:
							return
						}
					} else {
						select {
						case <-sendEvt[s.trigSend]:
							psfYield(s.trigYield)
						case <-doneCh:
						case <-quit:
							return
						}
					}
					fire()
				}()
				defer func() { fire(); <-trigDone }()

				switch s.kind {
				case "bulk":
					// k subscriptions registered with one Add(+k) that never receive and are withdrawn promptly with one
					// Add(-k) (like an iterator that is never run, the holder must not linger: every Send waits for it)
					s.subCalled = stamp()
					x.Add(s.bulk)
					s.subReturned = stamp()
					markEarly()
					<-quit
					s.unsubCalled = stamp()
					x.Add(-s.bulk)
					s.unsubReturned = stamp()
					for _, m := range s.members {
						m.subCalled, m.subReturned, m.unsubCalled, m.unsubReturned = s.subCalled, s.subReturned, s.unsubCalled, s.unsubReturned
					}
				case "manual":
					s.subCalled = stamp()
					x.Add(1)
					s.subReturned = stamp()
					markEarly()
					for s.maxRecv < 0 || len(s.got) < s.maxRecv {
						left := false
						select {
						case v := <-x.C():
							r := psfRecv{tok: v, recvAt: stamp()}
							psfYield(s.ackYield)
							r.waitCall = stamp()
							x.Wait()
							s.got = append(s.got, r)
							psfYield(s.bodyYield)
						case <-quit:
							left = true
						}
						if left {
							break
						}
					}
					s.unsubCalled = stamp()
					x.Add(-1)
					s.unsubReturned = stamp()
				case "iter", "iter-never-run":
					inner, cancel := context.WithCancel(context.Background())
					defer cancel()
					var ctx context.Context = inner
					if s.errCancel {
						w := &psfErrCancelCtx{Context: inner, cancel: cancel, before: s.pre%2 == 0}
						w.armed.Store(true)
						ctx = w
					}
					s.subCalled = stamp()
					seq := x.SubscribeContext(ctx)
					s.subReturned = stamp()
					markEarly()
					if s.kind == "iter-never-run" {
						<-quit
						s.unsubCalled = stamp()
						cancel() // the AfterFunc unsubscribes asynchronously
						return
					}
					helperDone := make(chan struct{})
					var cancelStamp atomic.Int64
					go func() {
						defer close(helperDone)
						<-quit
						if s.leaveBy != "cancel" {
							// a break/panic/goexit leaver waits for its next message; once the senders are done none will come
							<-doneCh
						}
						cancelStamp.CompareAndSwap(0, stamp())
						cancel()
					}()
					defer func() {
						fire()
						<-helperDone
						if s.unsubCalled == 0 || (cancelStamp.Load() != 0 && cancelStamp.Load() < s.unsubCalled) {
							s.unsubCalled = cancelStamp.Load()
						}
					}()
					// the loop may also be left by unwinding: a panic in the body (recovered by the caller) or
					// runtime.Goexit (e.g. t.FailNow) — "leaving its iterator early" without break or cancel
					loopDone := make(chan struct{})
					go func() {
						defer close(loopDone)
						defer func() { _ = recover() }()
						for v := range seq {
							// the iterator has already called Wait
							at := stamp()
							s.got = append(s.got, psfRecv{tok: v, recvAt: at, waitCall: at})
							psfYield(s.bodyYield)
							if s.maxRecv >= 0 && len(s.got) >= s.maxRecv {
								s.unsubCalled = stamp()
								switch s.leaveBy {
								case "panic":
									panic("psf: leaving the iterator by panic")
								case "goexit":
									runtime.Goexit()
								}
								break
							}
							if s.leaveBy == "break" || s.leaveBy == "panic" || s.leaveBy == "goexit" {
								select {
								case <-quit:
									s.unsubCalled = stamp()
									switch s.leaveBy {
									case "panic":
										panic("psf: leaving the iterator by panic")
									case "goexit":
										runtime.Goexit()
									}
									return
								default:
								}
							}
						}
					}()
					<-loopDone
					s.unsubReturned = stamp()
				}
			}
			if !noWitness {
				wgSubs.Add(1)
				wgEarly.Add(1)
				go runSub(-1, witness, true)
			}
			for i, s := range subs {
				wgSubs.Add(1)
				if s.early {
					wgEarly.Add(1)
				}
				go runSub(i, s, false)
			}
			wgEarly.Wait()
			for sidx := range msgs {
				wgSend.Add(1)
				go func(sidx int) {
					defer wgSend.Done()
					defer guard(fmt.Sprintf("sender %d", sidx))
					for j := 0; j < msgs[sidx]; j++ {
						psfYield(sy[sidx][j])
						tok := (sidx+1)*1000 + j
						rec := psfSend{tok: tok, called: stamp()}
						close(sendEvt[sendsCalled.Add(1)])
						rec.n = x.Send(tok)
						rec.returned = stamp()
						mu.Lock()
						sends = append(sends, rec)
						mu.Unlock()
					}
				}(sidx)
			}
			wgSend.Wait()
			sendersDone.Store(true)
			close(doneCh)
			wgSubs.Wait()
			// iterators that were never run unsubscribe from an AfterFunc goroutine: wait for the count to settle
			func() {
				defer guard("final")
				synctest.Wait() // exact quiescence, however long an AfterFunc goroutine was stalled
				finalCount = x.Add(0)
				// the instance still works
				x.Add(1)
				done := make(chan int, 1)
				go func() {
					defer guard("final subscriber")
					v := <-x.C()
					x.Wait()
					x.Add(-1)
					done <- v
				}()
				n := x.Send(424242)
				v := <-done
				finalRound = fmt.Sprintf("Send=%d recv=%d", n, v)
			}()
		})

		fail := func(sig, f string, a ...any) {
			t.Helper()
			sort.Slice(sends, func(i, j int) bool { return sends[i].called < sends[j].called })
			var hist []string
			for _, s := range sends {
				hist = append(hist, fmt.Sprintf("send(%d)[%d..%d]=%d", s.tok, s.called, s.returned, s.n))
			}
			for i, s := range all {
				hist = append(hist, fmt.Sprintf("sub%d(%s)[sub %d..%d unsub %d..%d] got=%v", i-1, s.kind, s.subCalled, s.subReturned, s.unsubCalled, s.unsubReturned, s.got))
			}
			vkit.Fail(t, sig, "%s\ncase: %s\nhistory: %s", fmt.Sprintf(f, a...), strings.Join(trace, " ; "), strings.Join(hist, " ; "))
		}
		if len(panics) > 0 {
			fail(psfPanicSig(panics), "panic(s) although every subscriber followed the contract: %v", panics)
		}
		if finalCount != 0 {
			fail("C07/final-count", "Add(0)=%d after every subscription was withdrawn", finalCount)
		}
		if finalRound != "Send=1 recv=424242" {
			fail("C07/broken-after-use", "a fresh subscribe/Send/receive/Wait/unsubscribe round gave %q", finalRound)
		}
		// ---- C06 history oracles
		receipts := map[int][]int{} // tok -> subscriber indexes
		for i, s := range all {
			seen := map[int]bool{}
			for _, r := range s.got {
				if seen[r.tok] {
					fail("C06/duplicate", "subscription %d received message %d twice", i-1, r.tok)
				}
				seen[r.tok] = true
				receipts[r.tok] = append(receipts[r.tok], i)
			}
		}
		sendByTok := map[int]psfSend{}
		for _, sd := range sends {
			sendByTok[sd.tok] = sd
			if len(receipts[sd.tok]) != sd.n {
				fail("C06/send-count", "Send(%d) returned %d but the message was received %d times", sd.tok, sd.n, len(receipts[sd.tok]))
			}
		}
		for tok := range receipts {
			if _, ok := sendByTok[tok]; !ok {
				fail("C06/invented", "message %d was received but never sent", tok)
			}
		}
		for i, s := range all {
			for _, r := range s.got {
				sd := sendByTok[r.tok]
				// (iterator bodies run after the iterator itself received and called Wait: no exact stamps there)
				if s.kind == "manual" && (r.recvAt > sd.returned || r.waitCall > sd.returned) {
					fail("C06/send-returned-early", "Send(%d) returned (t=%d) before subscription %d had received it and called Wait (t=%d/%d)", r.tok, sd.returned, i-1, r.recvAt, r.waitCall)
				}
				if sd.returned < s.subCalled {
					fail("C06/stale-message", "subscription %d (subscribe called at t=%d) received message %d whose Send had already returned at t=%d", i-1, s.subCalled, r.tok, sd.returned)
				}
			}
			// standing subscriptions must be among the receivers
			for _, sd := range sends {
				if s.subReturned != 0 && s.subReturned < sd.called && (s.unsubCalled == 0 || s.unsubCalled > sd.returned) {
					found := false
					for _, r := range s.got {
						if r.tok == sd.tok {
							found = true
						}
					}
					if !found {
						fail("C06/missed", "subscription %d stood throughout Send(%d) [sub returned t=%d < send called t=%d, send returned t=%d < unsub called t=%d] but did not receive it", i-1, sd.tok, s.subReturned, sd.called, sd.returned, s.unsubCalled)
					}
				}
			}
		}
		// one global order
		pos := map[int]int{}
		if !noWitness {
			// the witness stream is the order
			var w []int
			for i, r := range witness.got {
				w = append(w, r.tok)
				pos[r.tok] = i
			}
			if len(w) != len(sends) {
				fail("C06/witness-incomplete", "the witness subscription (subscribed before the first Send, leaves after the last) received %d of %d messages", len(w), len(sends))
			}
			lastSeq := map[int]int{}
			for _, tok := range w {
				s, j := tok/1000, tok%1000
				if prev, ok := lastSeq[s]; ok && j != prev+1 {
					fail("C06/sender-order", "the global order does not extend sender %d's program order: %v", s, w)
				}
				if _, ok := lastSeq[s]; !ok && j != 0 {
					fail("C06/sender-order", "the global order does not extend sender %d's program order: %v", s, w)
				}
				lastSeq[s] = j
			}
			for i, s := range logical {
				for k := 1; k < len(s.got); k++ {
					if pos[s.got[k].tok] != pos[s.got[k-1].tok]+1 {
						fail("C06/not-contiguous", "subscription %d saw %v which is not a contiguous run of the global order %v", i, s.got, w)
					}
				}
			}
			for _, a := range sends {
				for _, b := range sends {
					if a.returned < b.called && a.n > 0 && b.n > 0 && pos[a.tok] > pos[b.tok] {
						fail("C06/realtime-order", "Send(%d) returned before Send(%d) was called, yet the global order has them reversed: %v", a.tok, b.tok, w)
					}
				}
			}
		} else {
			// no witness: all streams must be explainable by ONE order in which only messages that nobody received
			// may be missing: successor consistency over the messages with n > 0, sender order and real-time order
			// inside every stream
			received := map[int]bool{}
			for _, sd := range sends {
				if sd.n > 0 {
					received[sd.tok] = true
				}
			}
			succ, pred := map[int]int{}, map[int]int{}
			for i, s := range logical {
				for k := 1; k < len(s.got); k++ {
					a, b := s.got[k-1].tok, s.got[k].tok
					if x, ok := succ[a]; ok && x != b {
						fail("C06/not-contiguous", "message %d is followed by %d in subscription %d's stream but by %d in another one: the streams are not runs of one order", a, b, i, x)
					}
					if x, ok := pred[b]; ok && x != a {
						fail("C06/not-contiguous", "message %d is preceded by %d in subscription %d's stream but by %d in another one", b, a, i, x)
					}
					succ[a], pred[b] = b, a
					if a/1000 == b/1000 && b%1000 <= a%1000 {
						fail("C06/sender-order", "subscription %d saw sender %d's messages out of program order: %v", i, a/1000, s.got)
					}
					sa, sb := sendByTok[a], sendByTok[b]
					if sb.returned < sa.called {
						fail("C06/realtime-order", "subscription %d saw %d before %d although Send(%d) had returned before Send(%d) was called", i, a, b, b, a)
					}
					// a message with receivers whose Send lies entirely between the two cannot have been skipped
					for _, sd := range sends {
						if sd.n > 0 && sd.tok != a && sd.tok != b && sa.returned < sd.called && sd.returned < sb.called {
							fail("C06/not-contiguous", "subscription %d saw %d then %d but not %d, which had receivers and was sent entirely in between", i, a, b, sd.tok)
						}
					}
				}
			}
		}
		// ---- classification
		for _, s := range logical {
			for _, sd := range sends {
				if s.unsubCalled != 0 && sd.called < s.unsubCalled && s.unsubCalled < sd.returned && s.subReturned < sd.called {
					midSendLeave++
					break
				}
			}
		}
		overlap := false
		for _, a := range sends {
			for _, b := range sends {
				if a.tok != b.tok && a.tok/1000 != b.tok/1000 && a.called < b.returned && b.called < a.returned {
					overlap = true
				}
			}
		}
		neverRun := false
		for _, s := range logical {
			if s.kind == "iter-never-run" {
				neverRun = true
			}
		}
		nt := midSendLeave > 0 || overlap
		if prof == "C07" {
			nt = midSendLeave > 0 || neverRun
		}
		cls := []string{fmt.Sprintf("senders:%d", nSend)}
		if midSendLeave > 0 {
			cls = append(cls, "unsubscribe-overlapping-send")
		}
		if overlap {
			cls = append(cls, "senders-overlapped")
		}
		if neverRun {
			cls = append(cls, "iterator-never-run")
		}
		st.Metric("mid-send-unsubscribes", midSendLeave)
		st.Case(trace, nt, cls...)
	})
}


// psfPanicSig: a panic in contract-following use is a C07 matter; when a Send is among the panicking calls the message
// it carried reached nobody and its count is lost, which is C06's business as well.
func psfPanicSig(panics []string) string {
	for _, p := range panics {
		if strings.Contains(p, "sender") {
			return "C07+C06/panic-in-contract-use"
		}
	}
	return "C07/panic-in-contract-use"
}
