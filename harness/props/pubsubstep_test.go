//go:build verif && go1.25

package props

// pubsubstep — model-based stepper for ChanPubSub inside a synctest bubble (C06, C07).
//
// Subscribers are harness goroutines paced by the generator: a manual subscriber is Add(1), then on command
// enters select{C, quit}; after receiving it holds the value until the "ack" rule lets it call Wait. An iterator
// subscriber ranges over SubscribeContext(ctx) with a gated loop body (the iterator itself receives and calls
// Wait). Because Send blocks on the unbuffered channel until the harness receives, "in the middle of a Send" is
// a state the driver can hold; the model tracks the Send phases
//     counted N -> delivery (copies received r, absorbed a) -> pong (acknowledged k of sent=r) -> returned
// and at every quiescent point checks exact enabledness: who has received, whose Wait has returned, whether Send
// has returned and with what, and that nobody else got anything.
//
// A Subscribe during the delivery phase parks on a library lock, so it is a compound rule (launch, verify it has
// not completed, finish the delivery, settle); a second concurrent Send likewise.

import (
	"context"
	"fmt"
	"os"
	"runtime"
	"strings"
	"sync/atomic"
	"testing"
	"testing/synctest"
	"time"

	bigbuff "github.com/joeycumines/go-bigbuff"
	"pgregory.net/rapid"

	"verif/harness/vkit"
)

type pssSub struct {
	id     int
	kind   string // "manual" | "iter" | "iter-never-run"
	state  string // manual: idle|receiving|holding|waiting|left ; iter: receiving|libwait|body|left ; never-run: dormant|left
	quit   chan struct{}
	ack    chan struct{}
	cont   chan int // 1 = continue, 0 = break, 2 = leave by panic (recovered by the caller), 3 = runtime.Goexit
	cancel context.CancelFunc
	op     *vkit.Op // the goroutine of the current receive cycle (manual) or the whole iterator
	leave  *vkit.Op // a launched Add(-1) of an idle manual subscriber
	got    []int    // values recorded
	// per-send bookkeeping
	counted   bool // counted by the Send in flight
	received  bool // received the in-flight message
	acked     bool // its Wait for the in-flight message has returned
	bodyEvent chan int
	round     int
	seq       func(func(int) bool) // the iterator of a subscription whose iterator is never run (properly)
	nilCalled bool
}

type pssMachine struct {
	prof  string
	t     *rapid.T
	st    *vkit.Stats
	x     *bigbuff.ChanPubSub[chan int, int]
	subs  []*pssSub
	trace []string

	sendOp   *vkit.Op
	sendVal  int
	n        int // counted when the Send started
	absorbed int
	nextVal  int

	midSendLeave bool
	joinDuring   bool
	deferredSub  bool
	gatedLeave   bool

	openGate *pssGate
	gate     atomic.Pointer[pssGate] // armed: the next negative Add pauses right after it adjusted the ping counter
}

// pssGate stops a leaving subscriber inside the library, between "the counters say it is gone" and "its pending copy
// of the in-flight message has been taken off the channel" (instrumentation point CasterNegAdded).
type pssGate struct{ entered, release chan struct{} }

func (m *pssMachine) hook(p int) {
	if p == bigbuff.VerifCasterNegAdded {
		if g := m.gate.Swap(nil); g != nil {
			close(g.entered)
			<-g.release
		}
	}
}

func (m *pssMachine) tr(f string, a ...any) {
	m.trace = append(m.trace, fmt.Sprintf(f, a...))
	if os.Getenv("VKIT_DEBUG") != "" {
		fmt.Println("TRACE", m.trace[len(m.trace)-1])
	}
}

func (m *pssMachine) cleanup() {
	m.gate.Store(nil)
	if m.openGate != nil {
		select {
		case <-m.openGate.release:
		default:
			close(m.openGate.release)
		}
	}
	for _, s := range m.subs {
		if s.cancel != nil {
			s.cancel()
		}
		if s.quit != nil {
			select {
			case <-s.quit:
			default:
				close(s.quit)
			}
		}
		if s.ack != nil {
			select {
			case <-s.ack:
			default:
				close(s.ack)
			}
		}
		if s.cont != nil {
			select {
			case s.cont <- 0:
			default:
			}
		}
	}
	x := m.x
	go func() {
		defer func() { _ = recover() }()
		for i := 0; i < 64; i++ {
			select {
			case <-x.C():
				go func() { defer func() { _ = recover() }(); x.Wait() }()
			default:
				runtime.Gosched()
			}
		}
	}()
	for i := 0; i < 300; i++ {
		runtime.Gosched()
	}
}

func (m *pssMachine) fail(sig, f string, a ...any) {
	m.t.Helper()
	if m.prof != "" {
		ok := false
		for _, p := range strings.Split(sig[:strings.Index(sig, "/")], "+") {
			if p == m.prof {
				ok = true
			}
		}
		if !ok {
			vkit.Other(m.st, sig)
			m.cleanup()
			panic(pssAbort{})
		}
	}
	msg := fmt.Sprintf("%s\ntrace: %s", fmt.Sprintf(f, a...), strings.Join(m.trace, " ; "))
	vkit.Announce(sig, "%s", msg)
	m.cleanup()
	m.t.Fatalf("[%s] %s", sig, msg)
}

type pssAbort struct{}

func (m *pssMachine) sending() bool { return m.sendOp != nil }

func (m *pssMachine) subscribed() int {
	n := 0
	for _, s := range m.subs {
		if s.state != "left" {
			n++
		}
	}
	return n
}

func (m *pssMachine) received() int {
	n := 0
	for _, s := range m.subs {
		if s.counted && s.received {
			n++
		}
	}
	return n
}

func (m *pssMachine) deliveryDone() bool { return m.sending() && m.received()+m.absorbed >= m.n }

// a manual receive cycle: select{C, quit}; on value: hold until ack, then Wait
func (m *pssMachine) startManualRecv(s *pssSub) {
	s.quit, s.ack = make(chan struct{}), make(chan struct{})
	x, quit, ack := m.x, s.quit, s.ack
	got := make(chan int, 1)
	s.bodyEvent = got
	s.state = "receiving"
	s.op = vkit.Launch("manual-cycle", func() any {
		select {
		case v := <-x.C():
			got <- v
			<-ack
			x.Wait()
			return "waited"
		case <-quit:
			return fmt.Sprintf("left:%d", x.Add(-1))
		}
	})
}

func (m *pssMachine) startIter(s *pssSub, ctx context.Context) {
	x := m.x
	ev := make(chan int, 16)
	s.bodyEvent = ev
	s.cont = make(chan int)
	cont := s.cont
	seq := x.SubscribeContext(ctx)
	if s.kind == "iter-never-run" {
		s.state = "dormant"
		s.seq = seq
		return
	}
	if s.kind == "iter-precancelled" {
		s.kind, s.state, s.seq = "iter-never-run", "left", seq
		return
	}
	s.state = "receiving"
	s.op = vkit.Launch("iterator", func() any {
		done := make(chan struct{})
		go func() {
			defer close(done)
			defer func() { _ = recover() }()
			for v := range seq {
				ev <- v
				switch <-cont {
				case 0:
					return
				case 2:
					panic("pss: leaving the iterator by panic")
				case 3:
					runtime.Goexit()
				}
			}
		}()
		<-done
		return "iterator-done"
	})
}

func (m *pssMachine) settle() {
	synctest.Wait()
	m.reconcile()
}

func (m *pssMachine) reconcile() {
	// 1. who received
	for _, s := range m.subs {
		var v int
		gotOne := false
		if s.bodyEvent != nil {
			select {
			case v = <-s.bodyEvent:
				gotOne = true
			default:
			}
		}
		if s.kind == "manual" && s.state == "receiving" {
			if gotOne {
				if !m.sending() || !s.counted || s.received {
					m.fail("C06/unexpected-delivery", "manual subscriber %d received %d although no Send that counted it has a copy for it (sending=%v counted=%v alreadyReceived=%v)", s.id, v, m.sending(), s.counted, s.received)
				}
				if v != m.sendVal {
					m.fail("C06/wrong-value", "subscriber %d received %d, the Send in flight carries %d", s.id, v, m.sendVal)
				}
				s.received, s.state = true, "holding"
				s.got = append(s.got, v)
				m.tr("s%d<-%d", s.id, v)
			} else if m.sending() && s.counted && !s.received && !m.deliveryDone() {
				m.fail("C06+C07/starved", "manual subscriber %d is receiving and was counted by the Send in flight but has not received its copy at quiescence", s.id)
			}
		} else if s.kind == "iter" && (s.state == "receiving" || s.state == "libwait") {
			// the iterator receives and calls Wait itself; the body only runs once the delivery phase is over
			if gotOne {
				if !m.sending() && !(s.counted && s.received) {
					// body ran: only legitimate for a message it was counted for
				}
				if !s.counted || (s.received && s.acked) {
					m.fail("C06/unexpected-delivery", "iterator %d yielded %d although no Send counted it / it already got this message", s.id, v)
				}
				if v != m.sendVal {
					m.fail("C06/wrong-value", "iterator %d yielded %d, the Send carries %d", s.id, v, m.sendVal)
				}
				s.received, s.acked, s.state = true, true, "body"
				s.got = append(s.got, v)
				m.tr("it%d<-%d", s.id, v)
			}
		} else if gotOne {
			m.fail("C06/unexpected-delivery", "subscriber %d (%s, state %s) received %d", s.id, s.kind, s.state, v)
		}
	}
	// iterators that are counted and not yet in the body have received inside the library (cannot be observed
	// directly); once the delivery phase is over every counted iterator must reach its body
	// 2. manual Waits
	for _, s := range m.subs {
		if s.kind == "manual" && s.state == "waiting" {
			if s.op.Finished() {
				if s.op.Panic != nil {
					m.fail("C07/panic", "subscriber %d panicked: %v", s.id, s.op.Panic)
				}
				s.acked, s.state = true, "idle"
				m.tr("s%d:waited", s.id)
			}
		}
		if s.op != nil && s.op.Finished() && s.op.Panic != nil {
			m.fail("C07/panic", "subscriber %d panicked: %v", s.id, s.op.Panic)
		}
	}
}

// checkPhases asserts the enabledness of everything against the model (called after reconcile at quiescence).
func (m *pssMachine) checkPhases() {
	if !m.sending() {
		return
	}
	// implicit receipts by iterators: an iterator that is receiving and counted takes its copy at once
	iterPending := 0
	for _, s := range m.subs {
		if s.kind == "iter" && s.counted && !s.acked && (s.state == "receiving" || s.state == "libwait") {
			iterPending++
		}
	}
	rec := m.received() + iterPending
	done := rec+m.absorbed >= m.n
	if rec+m.absorbed > m.n {
		m.fail("C06/over-delivery", "%d receipts + %d absorbed for a Send that counted %d subscribers", rec, m.absorbed, m.n)
	}
	if done && iterPending > 0 {
		m.fail("C06+C07/iterator-stuck", "the delivery phase is over but %d counted iterator(s) have not reached their loop body (Wait must return once every copy is delivered)", iterPending)
	}
	for _, s := range m.subs {
		if s.kind == "manual" && s.state == "waiting" && done {
			m.fail("C06+C07/wait-stuck", "subscriber %d is still blocked in Wait although every copy of the message has been delivered or absorbed", s.id)
		}
		if s.kind == "manual" && s.state == "idle" && s.counted && s.received && s.acked && !done {
			m.fail("C06/wait-early", "subscriber %d's Wait returned before every copy of the message was delivered", s.id)
		}
	}
	acks := 0
	for _, s := range m.subs {
		if s.counted && s.received && s.acked {
			acks++
		}
	}
	want := done && acks >= m.received()
	if want != m.sendOp.Finished() {
		if want {
			m.fail("C07+C06/send-hang", "Send still blocked although all %d copies were delivered/absorbed and all %d receivers called Wait", m.n, m.received())
		}
		m.fail("C06/send-early", "Send returned %v before every counted subscriber received the message and acknowledged it with Wait (counted %d, received %d, absorbed %d, acknowledged %d)", m.sendOp.Res, m.n, m.received(), m.absorbed, acks)
	}
	if want {
		if m.sendOp.Panic != nil {
			m.fail("C07/panic", "Send panicked: %v", m.sendOp.Panic)
		}
		if got := m.sendOp.Res.(int); got != m.received() {
			m.fail("C06/send-count", "Send returned %d but %d subscriptions received the message (counted %d, absorbed %d)", got, m.received(), m.n, m.absorbed)
		}
		m.tr("send(%d)=%d", m.sendVal, m.received())
		m.sendOp = nil
		for _, s := range m.subs {
			s.counted, s.received, s.acked = false, false, false
		}
	}
}

func (m *pssMachine) step() {
	m.settle()
	m.checkPhases()
	if n := m.x.Add(0); n != m.subscribed() {
		m.fail("C07+C06/count", "Add(0)=%d, model has %d subscriptions", n, m.subscribed())
	}
}

func (m *pssMachine) pick(label string, pred func(*pssSub) bool) *pssSub {
	var c []*pssSub
	for _, s := range m.subs {
		if pred(s) {
			c = append(c, s)
		}
	}
	if len(c) == 0 {
		return nil
	}
	return c[rapid.IntRange(0, len(c)-1).Draw(m.t, label)]
}

func (m *pssMachine) inDelivery() bool { return m.sending() && !m.deliveryDoneModel() }

func (m *pssMachine) deliveryDoneModel() bool {
	rec := m.received()
	for _, s := range m.subs {
		if s.kind == "iter" && s.counted && !s.acked && (s.state == "receiving" || s.state == "libwait") {
			rec++
		}
	}
	return rec+m.absorbed >= m.n
}

func (m *pssMachine) ruleSubscribe(t *rapid.T) {
	if m.subscribed() >= 5 {
		t.Skip("enough")
	}
	kind := rapid.SampledFrom([]string{"manual", "manual", "iter", "iter", "iter-never-run", "iter-precancelled"}).Draw(t, "kind")
	s := &pssSub{id: len(m.subs), kind: kind}
	do := func() {
		switch kind {
		case "manual":
			m.x.Add(1)
			s.state = "idle"
		default:
			ctx, cancel := context.WithCancel(context.Background())
			s.cancel = cancel
			if kind == "iter-precancelled" {
				cancel() // the subscription is made and withdrawn again (asynchronously) by SubscribeContext itself
			}
			m.startIter(s, ctx)
		}
	}
	if !m.inDelivery() {
		if m.sending() {
			m.joinDuring = true
		}
		do()
		m.subs = append(m.subs, s)
		m.tr("sub%d(%s)", s.id, kind)
		m.step()
		return
	}
	// during the delivery phase a subscription must wait for the delivery to finish and must not be counted by
	// this Send: compound rule
	for _, o := range m.subs {
		if o.counted && !o.received && !(o.kind == "manual" && (o.state == "idle" || o.state == "receiving")) && !(o.kind == "iter" && o.state == "receiving") {
			t.Skip("the delivery phase cannot be finished by manual subscribers alone")
		}
	}
	m.deferredSub = true
	op := vkit.Launch("subscribe", func() any { do(); return nil })
	for i := 0; i < 200; i++ {
		runtime.Gosched()
	}
	if op.Finished() {
		m.fail("C06/subscribe-during-delivery", "a subscription completed while a Send is delivering (%d of %d copies outstanding): it could take a copy meant for somebody else", m.n-m.received()-m.absorbed, m.n)
	}
	m.tr("sub%d(%s) during delivery...", s.id, kind)
	for _, o := range m.subs {
		if o.kind == "manual" && o.state == "idle" && o.counted && !o.received {
			m.startManualRecv(o)
		}
	}
	synctest.Wait()
	if !op.Finished() {
		m.fail("C07/subscribe-hang", "the subscription is still blocked although the delivery phase is over")
	}
	if op.Panic != nil {
		m.fail("C07/panic", "subscribe panicked: %v", op.Panic)
	}
	m.subs = append(m.subs, s)
	m.reconcile()
	m.checkPhases()
	m.step()
}

func (m *pssMachine) ruleRecv(t *rapid.T) {
	s := m.pick("recv", func(s *pssSub) bool { return s.kind == "manual" && s.state == "idle" })
	if s == nil {
		t.Skip("no idle manual subscriber")
	}
	m.startManualRecv(s)
	m.tr("s%d:recv", s.id)
	m.step()
}

func (m *pssMachine) ruleAck(t *rapid.T) {
	s := m.pick("ack", func(s *pssSub) bool { return s.kind == "manual" && s.state == "holding" })
	if s == nil {
		t.Skip("nobody holds a value")
	}
	close(s.ack)
	s.state = "waiting"
	m.tr("s%d:ack", s.id)
	m.step()
}

func (m *pssMachine) ruleBody(t *rapid.T) {
	s := m.pick("body", func(s *pssSub) bool { return s.kind == "iter" && s.state == "body" })
	if s == nil {
		t.Skip("no iterator in its body")
	}
	how := rapid.SampledFrom([]int{1, 1, 1, 1, 0, 0, 2, 3}).Draw(t, "continue")
	again := how == 1
	s.cont <- how
	if again {
		s.state = "receiving"
		m.tr("it%d:continue", s.id)
	} else {
		if m.sending() && s.counted && !s.received {
			m.absorbed++ // leaving early: its pending copy is absorbed by the unsubscribe
			m.midSendLeave = true
		}
		s.state = "left"
		m.tr("it%d:leave(%s)", s.id, map[int]string{0: "break", 2: "panic", 3: "goexit"}[how])
	}
	m.step()
	if !again {
		if !s.op.Finished() {
			m.fail("C07/iterator-hang", "iterator %d did not finish after its body returned false", s.id)
		}
	}
}

func (m *pssMachine) ruleLeave(t *rapid.T) {
	s := m.pick("leave", func(s *pssSub) bool {
		switch s.kind {
		case "manual":
			// contract: a subscriber that has received must call Wait before anything else
			return s.state == "idle" || (s.state == "receiving" && !(m.sending() && s.counted && !s.received))
		case "iter":
			return s.state == "receiving" && !(m.sending() && s.counted && !s.acked) || s.state == "body"
		default:
			return s.state == "dormant"
		}
	})
	if s == nil {
		t.Skip("nobody can leave now")
	}
	countedPending := m.sending() && s.counted && !s.received
	switch s.kind {
	case "manual":
		if s.state == "receiving" {
			close(s.quit)
		} else {
			x := m.x
			s.leave = vkit.Launch("Add(-1)", func() any { return x.Add(-1) })
		}
	case "iter":
		s.cancel()
		if s.state == "body" {
			s.cont <- 1 // the loop notices the cancellation before receiving again
		}
	default:
		s.cancel() // the AfterFunc unsubscribes
	}
	if countedPending {
		m.absorbed++
		m.midSendLeave = true
	}
	s.state = "left"
	m.tr("leave(%d,%s,counted-pending=%v)", s.id, s.kind, countedPending)
	m.step()
	if s.leave != nil && !s.leave.Finished() {
		m.fail("C07/unsubscribe-hang", "Add(-1) of subscriber %d still blocked at quiescence", s.id)
	}
	if s.op != nil && s.kind != "iter-never-run" && !s.op.Finished() {
		m.fail("C07/unsubscribe-hang", "subscriber %d did not finish leaving", s.id)
	}
}

// ruleGatedLeave: a counted subscriber that has not received leaves in the middle of the delivery phase and is stopped
// inside the library right after the counters were adjusted (its pending copy is still on its way); while it stands
// there a new subscriber subscribes and goes on to receive. Nothing may go wrong: the leaver's unsubscribe completes
// once it is let go, the Send accounts for it as absorbed, and the newcomer is not part of this Send.
func (m *pssMachine) ruleGatedLeave(t *rapid.T) {
	if !m.inDelivery() || m.subscribed() >= 5 {
		t.Skip("no delivery phase in progress")
	}
	for _, o := range m.subs {
		if o.counted && !o.received && !(o.kind == "manual" && (o.state == "idle" || o.state == "receiving")) && !(o.kind == "iter" && o.state == "receiving") {
			t.Skip("the delivery phase cannot be finished by manual subscribers alone")
		}
	}
	l := m.pick("gatedLeaver", func(s *pssSub) bool {
		return s.kind == "manual" && s.state == "idle" && s.counted && !s.received
	})
	if l == nil {
		t.Skip("no idle counted subscriber")
	}
	g := &pssGate{entered: make(chan struct{}), release: make(chan struct{})}
	m.openGate = g
	m.gate.Store(g)
	x := m.x
	l.leave = vkit.Launch("Add(-1)", func() any { return x.Add(-1) })
	synctest.Wait()
	entered := false
	select {
	case <-g.entered:
		entered = true
	default:
		m.gate.Store(nil)
	}
	l.state = "left"
	m.absorbed++
	m.midSendLeave = true
	m.tr("gatedLeave(%d, stopped-inside=%v)", l.id, entered)
	var n *pssSub
	if entered {
		// the newcomer: subscribe, then a normal receive cycle
		n = &pssSub{id: len(m.subs), kind: "manual", state: "receiving"}
		n.quit, n.ack = make(chan struct{}), make(chan struct{})
		quit, ack := n.quit, n.ack
		got := make(chan int, 1)
		n.bodyEvent = got
		n.op = vkit.Launch("subscribe+manual-cycle", func() any {
			x.Add(1)
			select {
			case v := <-x.C():
				got <- v
				<-ack
				x.Wait()
				return "waited"
			case <-quit:
				return fmt.Sprintf("left:%d", x.Add(-1))
			}
		})
		for i := 0; i < 300; i++ {
			runtime.Gosched()
		}
		m.gatedLeave = true
		close(g.release)
	}
	m.openGate = nil
	// the other counted subscribers take their copies so that the delivery phase can end
	for _, o := range m.subs {
		if o.kind == "manual" && o.state == "idle" && o.counted && !o.received {
			m.startManualRecv(o)
		}
	}
	synctest.Wait()
	if !l.leave.Finished() {
		m.fail("C07/unsubscribe-hang", "Add(-1) of subscriber %d, which left during the delivery phase without having received, is still blocked at quiescence (a subscriber that joined meanwhile: %v)", l.id, n != nil)
	}
	if l.leave.Panic != nil {
		m.fail("C07/panic", "Add(-1) of subscriber %d panicked: %v", l.id, l.leave.Panic)
	}
	if n != nil {
		m.subs = append(m.subs, n)
		m.tr("sub%d(manual) while %d stood inside its unsubscribe", n.id, l.id)
	}
	m.reconcile()
	m.checkPhases()
	m.step()
}

// ruleNilYield: the iterator of a subscription is invoked with a nil yield function. That panics (documented), and
// the subscription is withdrawn exactly once overall: by this call if nothing withdrew it before, not again if its
// context had already been cancelled.
func (m *pssMachine) ruleNilYield(t *rapid.T) {
	if m.inDelivery() {
		t.Skip("delivery in progress") // the unsubscribe of a counted subscription would have to absorb a copy
	}
	s := m.pick("nilYield", func(s *pssSub) bool { return s.seq != nil && !s.nilCalled })
	if s == nil {
		t.Skip("no never-run iterator")
	}
	s.nilCalled = true
	seq := s.seq
	_, pv := vkit.Call(func() any { seq(nil); return nil })
	if pv == nil {
		m.fail("C07/nil-yield-accepted", "the iterator accepted a nil yield function")
	}
	was := s.state
	if s.state == "dormant" {
		s.state = "left"
		s.cancel()
	}
	m.tr("iter%d(nil yield, was %s)", s.id, was)
	m.step()
}

func (m *pssMachine) ruleSend(t *rapid.T) {
	if m.sending() {
		t.Skip("send in flight")
	}
	m.nextVal++
	v := m.nextVal
	m.sendVal, m.n, m.absorbed = v, m.subscribed(), 0
	for _, s := range m.subs {
		s.counted, s.received, s.acked = s.state != "left", false, false
	}
	x := m.x
	m.sendOp = vkit.Launch("Send", func() any { return x.Send(v) })
	m.tr("send(%d)[N=%d]...", v, m.n)
	if m.n == 0 {
		synctest.Wait()
		if !m.sendOp.Finished() || m.sendOp.Panic != nil || m.sendOp.Res.(int) != 0 {
			m.fail("C06/send-nobody", "Send with nobody subscribed: finished=%v result=%v panic=%v, expected an immediate 0", m.sendOp.Finished(), m.sendOp.Res, m.sendOp.Panic)
		}
		m.sendOp = nil
		m.tr("=0")
		return
	}
	m.step()
}

func TestPubSubStep(t *testing.T) {
	prof := os.Getenv("VKIT_PROFILE")
	st := vkit.For("pubsubstep_" + prof)
	defer bigbuff.VerifSetHook(nil)
	rapid.Check(t, func(t *rapid.T) {
		rapid.SyncTest(t, func(t *rapid.T) {
			m := &pssMachine{prof: prof, t: t, st: st, x: bigbuff.NewChanPubSub(make(chan int))}
			vkit.CaseStart(func() string { return strings.Join(m.trace, " ; ") })
			bigbuff.VerifSetHook(m.hook)
			defer func() {
				if r := recover(); r != nil {
					if _, ok := r.(pssAbort); ok {
						return
					}
					if os.Getenv("VKIT_DEBUG") != "" {
						fmt.Printf("TRACE panic: %v\n", r)
					}
					m.cleanup()
					panic(r)
				}
			}()
			acts := map[string]func(*rapid.T){}
			add := func(n string, w int, f func(*rapid.T)) {
				for i := 0; i < w; i++ {
					acts[fmt.Sprintf("%s~%d", n, i)] = f
				}
			}
			add("subscribe", 3, m.ruleSubscribe)
			add("recv", 4, m.ruleRecv)
			add("ack", 4, m.ruleAck)
			add("body", 3, m.ruleBody)
			add("leave", 2, m.ruleLeave)
			add("send", 3, m.ruleSend)
			add("gatedLeave", 2, m.ruleGatedLeave)
			add("nilYield", 1, m.ruleNilYield)
			add("advance", 1, func(t *rapid.T) { // time passes while nothing else happens: ChanPubSub has no notion of time
				d := rapid.SampledFrom([]time.Duration{time.Millisecond, 3 * time.Second, 24 * time.Hour}).Draw(t, "advance")
				time.Sleep(d)
				m.tr("advance(%v)", d)
				m.step()
			})
			add("observe", 1, func(*rapid.T) { m.step() }) // always enabled (rapid gives up when every drawn action skips)
			t.Repeat(vkit.NoStarve(acts, nil))
			// ---- teardown: finish the Send in flight, everybody leaves
			m.tr("teardown")
			for round := 0; round < 40 && m.sending(); round++ {
				for _, s := range m.subs {
					switch {
					case s.kind == "manual" && s.state == "idle" && s.counted && !s.received:
						m.startManualRecv(s)
					case s.kind == "manual" && s.state == "holding":
						close(s.ack)
						s.state = "waiting"
					case s.kind == "iter-never-run" && s.state == "dormant":
						s.cancel()
						if s.counted && !s.received {
							m.absorbed++
						}
						s.state = "left"
					case s.kind == "iter" && s.state == "body" && s.counted && !s.received:
						s.cont <- 1 // back to receiving: it takes its copy
						s.state = "receiving"
					}
				}
				m.step()
			}
			if m.sending() {
				m.fail("C07+C06/send-hang", "the Send in flight did not finish although every counted subscriber received/acknowledged or left")
			}
			for _, s := range m.subs {
				switch {
				case s.kind == "manual" && s.state == "idle":
					m.x.Add(-1)
					s.state = "left"
				case s.kind == "manual" && s.state == "receiving":
					close(s.quit)
					s.state = "left"
				case s.kind == "iter" && (s.state == "receiving" || s.state == "body"):
					s.cancel()
					if s.state == "body" {
						s.cont <- 1
					}
					s.state = "left"
				case s.kind == "iter-never-run" && s.state == "dormant":
					s.cancel()
					s.state = "left"
				}
			}
			m.step()
			if n := m.x.Add(0); n != 0 {
				m.fail("C07/final-count", "Add(0)=%d after everybody left", n)
			}
			// the instance still works
			m.x.Add(1)
			fin := vkit.Launch("final", func() any { v := <-m.x.C(); m.x.Wait(); m.x.Add(-1); return v })
			if n := m.x.Send(777); n != 1 {
				m.fail("C07/broken-after-use", "a fresh round returned %d", n)
			}
			synctest.Wait()
			if !fin.Finished() || fin.Res != any(777) {
				m.fail("C07/broken-after-use", "the fresh subscriber did not complete its round")
			}
			time.Sleep(time.Second)
			synctest.Wait()
			if left := vkit.BubbleOthers(); len(left) != 0 {
				m.fail("C07/goroutine-left", "goroutines still blocked after everybody left:\n%s", vkit.DescribeGoroutines(left))
			}
			nt := m.midSendLeave || m.joinDuring || m.deferredSub || m.gatedLeave
			var cls []string
			if m.midSendLeave {
				cls = append(cls, "leave-during-delivery")
			}
			if m.joinDuring {
				cls = append(cls, "join-during-pong")
			}
			if m.deferredSub {
				cls = append(cls, "subscribe-deferred-by-delivery")
			}
			if m.gatedLeave {
				cls = append(cls, "join-while-leaver-stands-inside-unsubscribe")
			}
			st.Case(m.trace, nt, cls...)
		})
	})
}
