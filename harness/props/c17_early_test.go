//go:build go1.25

package props

// c17early — Worker with instance functions that may return on their own, before they are told to stop (C17). The
// main stepper (c17_worker_test.go) uses functions that run until stopped; here every started instance is either of
// that kind or returns at once, keeping its stop channel for the harness to watch. A small sequential stepper in a
// bubble: do(early?) and done(holder), everything settled between steps. Invariants at every quiescent point:
//   - never two instances running (started and not yet returned) at once;
//   - every holder belongs to the instance that was current when its Do returned (the latest started instance whose
//     stop channel was open): that instance's stop channel is not closed while one of its holders is outstanding,
//   - and it is closed once none is ("every started instance is stopped once nobody holds it") — also when the
//     instance function has long returned;
//   - a Do returns (at quiescence) unless an instance is still winding down, and then there is an instance with an
//     open stop channel.

import (
	"fmt"
	"strings"
	"sync"
	"sync/atomic"
	"testing"
	"testing/synctest"
	"time"

	bigbuff "github.com/joeycumines/go-bigbuff"
	"pgregory.net/rapid"

	"verif/harness/vkit"
)

type c17eInst struct {
	id       int
	early    bool
	stop     <-chan struct{}
	returned atomic.Bool
}

type c17eHold struct {
	id   int
	w    *c17eWorker
	inst *c17eInst
	done func()
}

// c17eWorker — one of the 1-3 Workers of a case with its own instances (Workers are independent of each other:
// whatever happens to one must not show on another, also not through state the package keeps between uses).
type c17eWorker struct {
	id      int
	w       bigbuff.Worker
	mu      sync.Mutex
	insts   []*c17eInst
	running atomic.Int32
	overlap atomic.Bool
}

func (in *c17eInst) stopped() bool {
	select {
	case <-in.stop:
		return true
	default:
		return false
	}
}

func TestC17Early(t *testing.T) {
	st := vkit.For("c17_early")
	rapid.Check(t, func(t *rapid.T) {
		var trace []string
		vkit.CaseStart(func() string { return strings.Join(trace, " ; ") })
		sawEarlyHeld := false
		nWorkers := rapid.SampledFrom([]int{1, 1, 2, 3}).Draw(t, "workers")
		rapid.SyncTest(t, func(t *rapid.T) {
			var (
				holds []*c17eHold
				nHold int
			)
			ws := make([]*c17eWorker, nWorkers)
			for i := range ws {
				ws[i] = &c17eWorker{id: i}
			}
			fail := func(sig, f string, a ...any) {
				msg := fmt.Sprintf(f, a...)
				vkit.Announce(sig, "%s\ntrace: %s", msg, strings.Join(trace, " ; "))
				for _, h := range holds {
					h.done()
				}
				t.Fatalf("[%s] %s\ntrace: %s", sig, msg, strings.Join(trace, " ; "))
			}
			check := func(when string) {
				synctest.Wait()
				for _, x := range ws {
					if x.overlap.Load() {
						fail("C17/two-instances-running", "%s: two instances of the function of worker %d were running at once", when, x.id)
					}
					x.mu.Lock()
					all := append([]*c17eInst(nil), x.insts...)
					x.mu.Unlock()
					for _, in := range all {
						held := 0
						for _, h := range holds {
							if h.inst == in {
								held++
							}
						}
						if held > 0 && in.stopped() {
							fail("C17/stopped-while-held", "%s: the stop channel of instance w%d.i%d (returns on its own: %v) is closed while %d of its holders have not called done", when, x.id, in.id, in.early, held)
						}
						if held == 0 && !in.stopped() {
							fail("C17/not-stopped-when-unheld", "%s: nobody holds instance w%d.i%d (returns on its own: %v) any more but its stop channel is still open at quiescence", when, x.id, in.id, in.early)
						}
						if in.early && held > 0 {
							sawEarlyHeld = true
						}
					}
				}
			}
			t.Repeat(vkit.NoStarve(map[string]func(*rapid.T){
				"do": func(t *rapid.T) {
					if len(holds) >= 5+nWorkers {
						t.Skip("enough holders")
					}
					early := rapid.IntRange(0, 2).Draw(t, "returnsOnItsOwn") == 0
					x := ws[rapid.IntRange(0, len(ws)-1).Draw(t, "worker")]
					started := len(x.insts)
					fn := func(stop <-chan struct{}) {
						if x.running.Add(1) > 1 {
							x.overlap.Store(true)
						}
						in := &c17eInst{early: early, stop: stop}
						x.mu.Lock()
						in.id = len(x.insts)
						x.insts = append(x.insts, in)
						x.mu.Unlock()
						if !early {
							<-stop
						}
						in.returned.Store(true)
						x.running.Add(-1)
					}
					op := vkit.Launch("Worker.Do", func() any { return x.w.Do(fn) })
					synctest.Wait()
					if !op.Finished() {
						fail("C17/do-blocked", "Do is still blocked at quiescence (every instance function returns as soon as it is told to stop, or earlier)")
					}
					if op.Panic != nil {
						fail("C17/call-panic", "Do panicked: %v", op.Panic)
					}
					// the instance this holder belongs to: the latest one whose stop channel is open
					x.mu.Lock()
					var cur *c17eInst
					for i := len(x.insts) - 1; i >= 0; i-- {
						if !x.insts[i].stopped() {
							cur = x.insts[i]
							break
						}
					}
					nowStarted := len(x.insts)
					x.mu.Unlock()
					if cur == nil {
						fail("C17/held-without-instance", "Do on worker %d returned but no instance of it with an open stop channel exists (instances of it started before/after this Do: %d/%d)", x.id, started, nowStarted)
					}
					h := &c17eHold{id: nHold, w: x, inst: cur, done: op.Res.(func())}
					nHold++
					holds = append(holds, h)
					trace = append(trace, fmt.Sprintf("w%d.do(early=%v)=h%d@i%d", x.id, early, h.id, cur.id))
					check("after Do")
				},
				"done": func(t *rapid.T) {
					if len(holds) == 0 {
						t.Skip("nobody holds")
					}
					i := rapid.IntRange(0, len(holds)-1).Draw(t, "which")
					h := holds[i]
					holds = append(holds[:i], holds[i+1:]...)
					_, pv := vkit.Call(func() any { h.done(); return nil })
					if pv != nil {
						fail("C17/call-panic", "done of h%d panicked: %v", h.id, pv)
					}
					trace = append(trace, fmt.Sprintf("done(h%d)", h.id))
					check("after done")
				},
				"advance": func(t *rapid.T) {
					time.Sleep(time.Duration(rapid.IntRange(1, 5000).Draw(t, "ms")) * time.Millisecond)
					trace = append(trace, "advance")
					check("after time passed")
				},
			}, nil))
			for len(holds) > 0 {
				h := holds[0]
				holds = holds[1:]
				h.done()
				check("teardown")
			}
			time.Sleep(time.Second)
			synctest.Wait()
			if left := vkit.BubbleOthers(); len(left) != 0 {
				fail("C17+C12/goroutine-leak", "goroutines remain after every holder let go:\n%s", vkit.DescribeGoroutines(left))
			}
		})
		st.Case(trace, sawEarlyHeld, "early-held:"+fmt.Sprint(sawEarlyHeld), fmt.Sprintf("workers:%d", nWorkers))
	})
}
