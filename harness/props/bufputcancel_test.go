package props

// bufputcancel — a race lane for Buffer.Put against the cancellation of its own context (C01): a Put either takes
// effect and returns nil, or returns an error and contributes nothing — whatever the instant at which its context
// is cancelled, in particular while the call is queued for the buffer's lock. Many rounds per case: 1-3 producers
// each Put one batch with a context of their own, a canceller cancels those contexts at sweeping spin offsets,
// observers keep the buffer's lock busy with Size/Slice. No consumer exists, so nothing is ever evicted and
// Slice() is the whole put order: after every round it must have grown by exactly the batches whose Put returned
// nil (each contiguous and in argument order), and by nothing of a Put that reported an error.

import (
	"context"
	"fmt"
	"runtime"
	"strings"
	"sync"
	"sync/atomic"
	"testing"

	bigbuff "github.com/joeycumines/go-bigbuff"
	"pgregory.net/rapid"

	"verif/harness/vkit"
)

func TestBufPutCancel(t *testing.T) {
	st := vkit.For("bufputcancel")
	rapid.Check(t, func(t *rapid.T) {
		rounds := rapid.SampledFrom([]int{40, 120, 300}).Draw(t, "rounds")
		nProd := rapid.IntRange(1, 3).Draw(t, "producers")
		nObs := rapid.IntRange(0, 2).Draw(t, "observers")
		batch := rapid.IntRange(1, 3).Draw(t, "batch")
		offP := rapid.IntRange(0, 63).Draw(t, "offProducers")
		offC := rapid.IntRange(0, 63).Draw(t, "offCanceller")
		trace := []string{fmt.Sprintf("rounds=%d producers=%d observers=%d batch=%d offsets=%d/%d", rounds, nProd, nObs, batch, offP, offC)}
		vkit.CaseStart(func() string { return strings.Join(trace, " ; ") })
		b := new(bigbuff.Buffer)
		_ = b.Size()
		var stop atomic.Bool
		var ow sync.WaitGroup
		for o := 0; o < nObs; o++ {
			ow.Add(1)
			go func() {
				defer ow.Done()
				for !stop.Load() {
					_ = b.Size()
					_ = b.Slice()
					runtime.Gosched()
				}
			}()
		}
		defer func() { stop.Store(true); ow.Wait(); _ = b.Close() }()
		var dummy atomic.Int64
		spin := func(n int) {
			for i := 0; i < n; i++ {
				_ = dummy.Load()
			}
		}
		next, failedPuts, okPuts := 1, 0, 0
		prevLen := 0
		for r := 0; r < rounds; r++ {
			type put struct {
				vals []int
				err  error
			}
			puts := make([]*put, nProd)
			ctxs := make([]context.Context, nProd)
			cancels := make([]context.CancelFunc, nProd)
			for p := range puts {
				puts[p] = &put{}
				for k := 0; k < batch; k++ {
					puts[p].vals = append(puts[p].vals, next)
					next++
				}
				ctxs[p], cancels[p] = context.WithCancel(context.Background())
			}
			var goNow atomic.Bool
			var ready, wg sync.WaitGroup
			start := func(off int, f func()) {
				ready.Add(1)
				wg.Add(1)
				go func() {
					defer wg.Done()
					ready.Done()
					for n := 1; !goNow.Load(); n++ {
						if n&0x3fff == 0 {
							runtime.Gosched()
						}
					}
					spin(off)
					f()
				}()
			}
			for p := range puts {
				start((offP+r*7+p*5)%64, func() {
					args := make([]any, len(puts[p].vals))
					for i, v := range puts[p].vals {
						args[i] = v
					}
					puts[p].err = b.Put(ctxs[p], args...)
				})
			}
			start((offC+r*13)%64, func() {
				for _, c := range cancels {
					c()
					spin(r % 9)
				}
			})
			ready.Wait()
			goNow.Store(true)
			wg.Wait()
			sl := b.Slice()
			grown := sl[prevLen:]
			// the batches that took effect, in the order they appear
			want := map[int]*put{}
			for _, p := range puts {
				if p.err == nil {
					want[p.vals[0]] = p
					okPuts++
				} else {
					failedPuts++
				}
			}
			i := 0
			for i < len(grown) {
				v, _ := grown[i].(int)
				p := want[v]
				if p == nil {
					owner := "no Put of this round"
					for _, q := range puts {
						for _, x := range q.vals {
							if x == v && q.err != nil {
								owner = fmt.Sprintf("the Put of %v, which returned the error %q", q.vals, q.err)
							}
						}
					}
					vkit.Fail(t, "C01/value-of-failed-put", "round %d: the buffer gained %v; %v belongs to %s\ncase: %v", r, grown, grown[i], owner, trace)
				}
				for k, x := range p.vals {
					if i+k >= len(grown) || grown[i+k] != any(x) {
						vkit.Fail(t, "C01/batch-not-contiguous", "round %d: the buffer gained %v, the successful Put of %v is not in it as one contiguous run\ncase: %v", r, grown, p.vals, trace)
					}
				}
				delete(want, v)
				i += len(p.vals)
			}
			for _, p := range want {
				vkit.Fail(t, "C01/lost", "round %d: Put of %v returned nil but the buffer gained only %v\ncase: %v", r, p.vals, grown, trace)
			}
			prevLen = len(sl)
		}
		st.Metric("puts-that-failed", failedPuts)
		st.Metric("puts-that-succeeded", okPuts)
		st.Case(trace, failedPuts > 0 && okPuts > 0, fmt.Sprintf("producers:%d", nProd), fmt.Sprintf("observers:%d", nObs))
	})
}
