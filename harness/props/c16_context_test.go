//go:build verif && go1.25

package props

// c16_context — generated search for property C16 (context combinators of context.go):
//
//	CombineContext   result is cancelled exactly when the primary or any non-nil other is cancelled
//	                 (already on return if one already is), and carries the primary's values.
//	ConflatedContext result is live while >= 1 input is live and its cancel func has not been called,
//	                 cancelled once all inputs are cancelled (already on return, with context.Canceled,
//	                 if all already are); carries only the first input's values; panics on no input.
//	ChainAfterFunc   f runs exactly once if either context is ever cancelled, never twice, never if neither.
//
// Shape of one case (everything inside a synctest bubble, virtual time, all choices drawn from rapid):
//
//	inputs   1-5 contexts: std cancel ctx | deadline ctx (virtual time, slots of 1ms) | custom Context type
//	         (no AfterFunc/cancelCtx support: goroutine fallback of the context package) | child of an earlier
//	         input | never-cancellable; each carries a distinct value under a distinct key plus a value under
//	         a key common to all inputs.
//	pre      a drawn subset is cancelled (or, for deadline contexts, already expired) before construction.
//	build    up to 2 CombineContext results (nil others, optionally nil primary, duplicates), up to 2
//	         ConflatedContext results, up to 4 ChainAfterFunc registrations over drawn pairs (also ctx==other);
//	         optionally the constructors RACE with the first step (released by the same barrier).
//	steps    each step cancels a drawn SET of contexts (and/or calls a Conflated cancel func) simultaneously:
//	         one goroutine per action, all parked, released by one barrier (close of a channel) or, for "tick"
//	         steps, by the same virtual instant at which deadline contexts of that slot expire.
//	oracle   evaluated on return of each constructor and after every step once the bubble is quiescent
//	         (synctest.Wait): the model is a set of cancelled inputs; no timeouts, no wall clock.
//	gated    T-probe: a "gated" step closes a gate on the library's instrumentation point ChainPrimaryFired (the
//	         primary hook of ChainAfterFunc has started but has not yet called stop()), cancels a first set
//	         (those hooks park at the gate), cancels a second set while they are parked (the other hook wins),
//	         then opens the gate: the ordering "primary fired, other ran f, primary resumes" is forced
//	         deterministically instead of being left to the scheduler.
//	teardown optionally a partial teardown (cancel only the results' owners, expect no goroutine left although
//	         other inputs are still live), then everything is cancelled and the bubble must be empty.

import (
	"bytes"
	"context"
	"fmt"
	"os"
	"runtime"
	"strings"
	"sync/atomic"
	"testing"
	"testing/synctest"
	"time"

	bigbuff "github.com/joeycumines/go-bigbuff"
	"pgregory.net/rapid"

	"verif/harness/vkit"
)

type c16Key int

const (
	c16CommonKey c16Key = -1
	c16Tick             = time.Millisecond
)

func c16OwnVal(idx int) any    { return 100 + idx }
func c16CommonVal(idx int) any { return 200 + idx }

// c16CustomCtx is a context.Context implementation the context package knows nothing about (no cancelCtx
// behind Value, no AfterFunc method), so AfterFunc / WithCancel fall back to a watcher goroutine.
type c16CustomCtx struct {
	idx  int
	done chan struct{}
	err  atomic.Value
	// armed: the context cancels itself right after the first Err() call that answered nil — the adversary of
	// every check-then-act on Err() (a context may be cancelled at any instant, in particular just after it was asked)
	armed atomic.Bool
}

func (c *c16CustomCtx) Deadline() (time.Time, bool) { return time.Time{}, false }
func (c *c16CustomCtx) Done() <-chan struct{}       { return c.done }
func (c *c16CustomCtx) Err() error {
	if e := c.err.Load(); e != nil {
		return e.(error)
	}
	if c.armed.CompareAndSwap(true, false) {
		if c.idx%2 == 0 {
			c.cancel() // the cancellation lands just before the answer is computed …
			return c.err.Load().(error)
		}
		defer c.cancel() // … or just after a nil answer
	}
	return nil
}
func (c *c16CustomCtx) Value(k any) any {
	if kk, ok := k.(c16Key); ok {
		switch kk {
		case c16Key(c.idx):
			return c16OwnVal(c.idx)
		case c16CommonKey:
			return c16CommonVal(c.idx)
		}
	}
	return nil
}
func (c *c16CustomCtx) cancel() {
	if c.err.CompareAndSwap(nil, context.Canceled) {
		close(c.done)
	}
}

type c16Detached struct{ inner context.Context }

func (c16Detached) Deadline() (time.Time, bool) { return time.Time{}, false }
func (c16Detached) Done() <-chan struct{}       { return nil }
func (c16Detached) Err() error                  { return nil }
func (c c16Detached) Value(k any) any           { return c.inner.Value(k) }

type c16Input struct {
	idx    int
	kind   string // std | dl | custom | child | never
	parent int    // index of the parent input (child), else -1
	slot   int    // dl: deadline = base + slot*tick (0: expired before construction)
	ctx    context.Context
	cancel func() // nil: cannot be cancelled
	own    bool   // model: cancel has been called
}

type c16Combine struct {
	primary  int   // -1: nil
	others   []int // -1: nil
	res      context.Context
	errOnRet error
}

type c16Conflated struct {
	args      []int
	res       context.Context
	cancel    context.CancelFunc
	errOnRet  error
	cancelled bool // model: cancel func has been called
}

type c16Chain struct {
	a, b  int
	calls atomic.Int32
}

type c16Act struct {
	conf bool // true: call the cancel func of Conflated result idx; false: cancel input idx
	idx  int
}

type c16Machine struct {
	t    *rapid.T
	st   *vkit.Stats
	mode string
	base time.Time
	slot int
	in   []*c16Input

	combs  []*c16Combine
	confs  []*c16Conflated
	chains []*c16Chain
	built  bool

	trace []string
	cls   map[string]bool

	pre        int  // inputs already cancelled at construction
	multiStep  bool // a drawn step cancelled >= 2 contexts at once
	chainBoth  bool // both (distinct) contexts of a chain became cancelled in the same drawn step
	chainSplit bool // the two contexts of a chain were cancelled in different steps
	chainGated bool // the primary hook of a chain was parked at the gate while its other context was cancelled

	gate atomic.Pointer[chan struct{}] // non-nil: ChainPrimaryFired arrivals park on it
	held atomic.Int32                  // hooks that parked at the gate during the current gated step
}

func (m *c16Machine) on(fam string) bool { return m.mode == "all" || strings.Contains(m.mode, fam) }

// hook is installed as the library's instrumentation hook for the duration of the case.
func (m *c16Machine) hook(p int) {
	if p != bigbuff.VerifChainPrimaryFired {
		return
	}
	if g := m.gate.Load(); g != nil {
		m.held.Add(1)
		<-*g
	}
}

func (m *c16Machine) closeGate() {
	g := make(chan struct{})
	m.held.Store(0)
	m.gate.Store(&g)
}

func (m *c16Machine) openGate() {
	if g := m.gate.Swap(nil); g != nil {
		close(*g)
	}
}

func (m *c16Machine) tr(format string, args ...any) {
	m.trace = append(m.trace, fmt.Sprintf(format, args...))
	if os.Getenv("VKIT_DEBUG") != "" {
		fmt.Println("TRACE", m.trace[len(m.trace)-1])
	}
}

func (m *c16Machine) class(c string) { m.cls[c] = true }

func (m *c16Machine) fail(sig string, format string, args ...any) {
	m.t.Helper()
	msg := fmt.Sprintf("%s\ncase: %s", fmt.Sprintf(format, args...), strings.Join(m.trace, " ; "))
	vkit.Announce(sig, "%s", msg)
	m.cleanup()
	m.t.Fatalf("[%s] %s", sig, msg)
}

// cleanup releases everything the case holds so that the bubble can end (best effort).
func (m *c16Machine) cleanup() {
	m.openGate()
	for _, x := range m.in {
		if x.cancel != nil {
			x.cancel()
		}
	}
	for _, c := range m.confs {
		if c.cancel != nil {
			c.cancel()
		}
	}
}

// ---- model

func (m *c16Machine) cancelled(i int) bool {
	for i >= 0 {
		x := m.in[i]
		if x.own || (x.kind == "dl" && x.slot <= m.slot) {
			return true
		}
		if c, ok := x.ctx.(*c16CustomCtx); ok && c.err.Load() != nil {
			return true // a self-cancelling custom context has fired (harness-owned fact)
		}
		i = x.parent
	}
	return false
}

func (m *c16Machine) snapshot() []bool {
	s := make([]bool, len(m.in))
	for i := range m.in {
		s[i] = m.cancelled(i)
	}
	return s
}

func (m *c16Machine) valueOf(i int, k c16Key) any {
	for i >= 0 {
		x := m.in[i]
		if k == c16Key(x.idx) {
			return c16OwnVal(x.idx)
		}
		if k == c16CommonKey {
			return c16CommonVal(x.idx)
		}
		i = x.parent
	}
	return nil
}

func (m *c16Machine) ctxOf(i int) context.Context {
	if i < 0 {
		return nil
	}
	return m.in[i].ctx
}

func (m *c16Machine) combWant(c *c16Combine) bool {
	if c.primary >= 0 && m.cancelled(c.primary) {
		return true
	}
	for _, o := range c.others {
		if o >= 0 && m.cancelled(o) {
			return true
		}
	}
	return false
}

// confInputsDone: every input of the Conflated result is cancelled.
func (m *c16Machine) confInputsDone(c *c16Conflated) bool {
	for _, a := range c.args {
		if !m.cancelled(a) {
			return false
		}
	}
	return true
}

func (m *c16Machine) chainWant(c *c16Chain) bool { return m.cancelled(c.a) || m.cancelled(c.b) }

// ---- inputs

func (m *c16Machine) withVals(ctx context.Context, idx int) context.Context {
	return context.WithValue(context.WithValue(ctx, c16Key(idx), c16OwnVal(idx)), c16CommonKey, c16CommonVal(idx))
}

func (m *c16Machine) newInput(t *rapid.T, idx int) *c16Input {
	kinds := []string{"std", "std", "std", "std", "dl", "dl", "custom", "custom", "custom", "customarm", "customarm", "never"}
	if idx > 0 {
		kinds = append(kinds, "child", "child", "child")
	}
	x := &c16Input{idx: idx, parent: -1, kind: rapid.SampledFrom(kinds).Draw(t, "kind")}
	pre := rapid.SampledFrom([]bool{false, false, true, false, false, true, false}).Draw(t, "pre")
	switch x.kind {
	case "std":
		ctx, cancel := context.WithCancel(context.Background())
		x.ctx, x.cancel = m.withVals(ctx, idx), cancel
	case "dl":
		x.slot = rapid.IntRange(1, 3).Draw(t, "slot")
		if pre && rapid.Bool().Draw(t, "expired") {
			x.slot, pre = 0, false
		}
		d := m.base.Add(time.Duration(x.slot) * c16Tick)
		if x.slot == 0 {
			d = m.base.Add(-c16Tick)
		}
		ctx, cancel := context.WithDeadline(context.Background(), d)
		x.ctx, x.cancel = m.withVals(ctx, idx), cancel
	case "custom", "customarm":
		c := &c16CustomCtx{idx: idx, done: make(chan struct{})}
		if x.kind == "customarm" {
			c.armed.Store(!pre)
			x.kind = "custom"
			m.class("kind:custom-self-cancelling")
		}
		x.ctx, x.cancel = c, c.cancel
	case "child":
		x.parent = rapid.IntRange(0, idx-1).Draw(t, "parent")
		ctx, cancel := context.WithCancel(m.in[x.parent].ctx)
		x.ctx, x.cancel = m.withVals(ctx, idx), cancel
	case "never":
		x.ctx = m.withVals(context.Background(), idx)
		if rapid.Bool().Draw(t, "detached") {
			// a hand-written "detached" wrapper: it keeps the values of a context that is already cancelled but is
			// itself never cancelled (no Done channel, nil Err) — only Done/Err say whether a context is cancelled
			inner, cancel := context.WithCancel(context.Background())
			cancel()
			x.ctx = c16Detached{m.withVals(inner, idx)}
			m.class("kind:detached-from-cancelled-parent")
		}
	}
	desc := x.kind
	switch x.kind {
	case "dl":
		desc = fmt.Sprintf("dl@%d", x.slot)
	case "child":
		desc = fmt.Sprintf("child(%d)", x.parent)
	}
	if pre && x.cancel != nil {
		x.cancel()
		x.own = true
		desc += "!"
	}
	m.tr("in%d=%s", idx, desc)
	m.class("kind:" + x.kind)
	return x
}

// ---- construction

func c16List(xs []int) string {
	var sb strings.Builder
	for i, x := range xs {
		if i > 0 {
			sb.WriteByte(',')
		}
		if x < 0 {
			sb.WriteString("nil")
		} else {
			fmt.Fprintf(&sb, "%d", x)
		}
	}
	return sb.String()
}

func (m *c16Machine) drawTargets(t *rapid.T) {
	n := len(m.in)
	on := m.on
	if on("combine") {
		// canonical: primary = input 0, others = the remaining inputs in order with nil entries sprinkled in
		c := &c16Combine{primary: 0}
		for i := 1; i < n; i++ {
			for rapid.IntRange(0, 4).Draw(t, "nilOther") == 0 {
				c.others = append(c.others, -1)
			}
			c.others = append(c.others, i)
		}
		for rapid.IntRange(0, 4).Draw(t, "nilOther") == 0 {
			c.others = append(c.others, -1)
		}
		m.combs = append(m.combs, c)
		if rapid.Bool().Draw(t, "combine2") {
			c := &c16Combine{primary: rapid.IntRange(0, n-1).Draw(t, "primary")}
			if rapid.IntRange(0, 7).Draw(t, "nilPrimary") == 0 {
				c.primary = -1
			}
			c.others = rapid.SliceOfN(rapid.IntRange(-1, n-1), 0, 5).Draw(t, "others")
			m.combs = append(m.combs, c)
		}
		for _, c := range m.combs {
			if c.primary < 0 {
				m.class("combine:nil-primary")
			}
			nn := 0
			for _, o := range c.others {
				if o < 0 {
					m.class("combine:nil-others")
				} else {
					nn++
				}
			}
			if nn == 0 {
				m.class("combine:no-others")
			}
			m.tr("combine(%s|%s)", c16List([]int{c.primary}), c16List(c.others))
		}
	}
	if on("conflated") {
		c := &c16Conflated{}
		for i := 0; i < n; i++ {
			c.args = append(c.args, i)
		}
		m.confs = append(m.confs, c)
		if rapid.Bool().Draw(t, "conflated2") {
			m.confs = append(m.confs, &c16Conflated{args: rapid.SliceOfN(rapid.IntRange(0, n-1), 1, 4).Draw(t, "confArgs")})
		}
		for _, c := range m.confs {
			m.tr("conflated(%s)", c16List(c.args))
		}
	}
	if on("chain") {
		k := rapid.IntRange(1, 4).Draw(t, "chains")
		for i := 0; i < k; i++ {
			c := &c16Chain{a: rapid.IntRange(0, n-1).Draw(t, "chainCtx")}
			c.b = c.a
			if n >= 2 && rapid.IntRange(0, 7).Draw(t, "chainSame") != 7 {
				c.b = (c.a + 1 + rapid.IntRange(0, n-2).Draw(t, "chainOther")) % n
			}
			m.chains = append(m.chains, c)
			if c.a == c.b {
				m.class("chain:same-ctx")
			}
			m.tr("chain(%d,%d)", c.a, c.b)
		}
	}
}

// build calls every constructor. With hold == nil the calls are made synchronously; otherwise each call runs
// in its own goroutine that first executes hold() (barrier / sleep until the step's instant). The returned
// function validates the on-return obligations and must be called once the calls have finished; the
// expectations are computed from the model as it is NOW (i.e. before a racing step is applied).
// armedAmong reports whether one of the inputs is a custom context that may cancel itself during the call.
func (m *c16Machine) armedAmong(idx ...int) bool {
	for _, i := range idx {
		for i >= 0 {
			if c, ok := m.in[i].ctx.(*c16CustomCtx); ok && c.armed.Load() {
				return true
			}
			i = m.in[i].parent
		}
	}
	return false
}

func (m *c16Machine) build(hold func()) (ops []*vkit.Op, validate func()) {
	m.built = true
	racing := hold != nil
	run := func(name string, f func()) (panicked func() any) {
		if !racing {
			_, p := vkit.Call(func() any { f(); return nil })
			return func() any { return p }
		}
		op := vkit.Launch(name, func() any { hold(); f(); return nil })
		ops = append(ops, op)
		return func() any { return op.Panic }
	}
	// expectations for the moment of return are taken from the model BEFORE anything is constructed (a quiescent
	// point): a self-cancelling input may fire in the middle of the construction sequence, and its children only
	// follow asynchronously
	type pre struct{ want, selfCancel bool }
	var preComb, preConf, preChain []pre
	for _, c := range m.combs {
		preComb = append(preComb, pre{m.combWant(c), m.armedAmong(append([]int{c.primary}, c.others...)...)})
	}
	for _, c := range m.confs {
		preConf = append(preConf, pre{m.confInputsDone(c), m.armedAmong(c.args...)})
	}
	for _, c := range m.chains {
		preChain = append(preChain, pre{m.chainWant(c), m.armedAmong(c.a, c.b)})
	}
	var checks []func()
	for i, c := range m.combs {
		want, selfCancel := preComb[i].want, preComb[i].selfCancel
		others := make([]context.Context, len(c.others))
		for j, o := range c.others {
			others[j] = m.ctxOf(o)
		}
		primary := m.ctxOf(c.primary)
		pv := run("CombineContext", func() {
			c.res = bigbuff.CombineContext(primary, others...)
			c16sScribble(others) // the argument slice is the caller's again
			if c.res != nil {
				c.errOnRet = c.res.Err()
			}
		})
		checks = append(checks, func() {
			if p := pv(); p != nil {
				m.fail("C16/combine-panic", "CombineContext #%d panicked: %v", i, p)
			}
			if c.res == nil {
				m.fail("C16/combine-nil-result", "CombineContext #%d returned a nil context", i)
			}
			if want && c.errOnRet == nil {
				m.fail("C16/combine-live-on-return", "CombineContext #%d: an input was already cancelled at the call but the result had Err()==nil on return", i)
			}
			if !racing && !want && !selfCancel && c.errOnRet != nil {
				m.fail("C16/combine-cancelled-early", "CombineContext #%d: no input is cancelled but the result had Err()=%v on return", i, c.errOnRet)
			}
		})
	}
	for i, c := range m.confs {
		want, selfCancel := preConf[i].want, preConf[i].selfCancel
		args := make([]context.Context, len(c.args))
		for j, a := range c.args {
			args[j] = m.ctxOf(a)
		}
		pv := run("ConflatedContext", func() {
			c.res, c.cancel = bigbuff.ConflatedContext(args...)
			c16sScribble(args)
			if c.res != nil {
				c.errOnRet = c.res.Err()
			}
		})
		checks = append(checks, func() {
			if p := pv(); p != nil {
				m.fail("C16/conflated-panic", "ConflatedContext #%d panicked: %v", i, p)
			}
			if c.res == nil || c.cancel == nil {
				m.fail("C16/conflated-nil-result", "ConflatedContext #%d returned nil (ctx nil: %v, cancel nil: %v)", i, c.res == nil, c.cancel == nil)
			}
			if want && c.errOnRet == nil {
				m.fail("C16/conflated-live-on-return", "ConflatedContext #%d: every input was already cancelled at the call but the result had Err()==nil on return", i)
			}
			if want && c.errOnRet != context.Canceled {
				m.fail("C16/conflated-err-kind", "ConflatedContext #%d: every input was already cancelled; Err() on return is %v, documented context.Canceled", i, c.errOnRet)
			}
			if !racing && !want && !selfCancel && c.errOnRet != nil {
				m.fail("C16/conflated-cancelled-early", "ConflatedContext #%d: an input is still live but the result had Err()=%v on return", i, c.errOnRet)
			}
		})
	}
	for i, c := range m.chains {
		want, selfCancel := preChain[i].want, preChain[i].selfCancel
		a, b := m.ctxOf(c.a), m.ctxOf(c.b)
		pv := run("ChainAfterFunc", func() {
			bigbuff.ChainAfterFunc(a, b, func() { c.calls.Add(1) })
		})
		var onRet int32
		if !racing {
			onRet = c.calls.Load() // may be 0 or 1 when want (f runs in its own goroutine)
		}
		checks = append(checks, func() {
			if p := pv(); p != nil {
				m.fail("C16/chain-panic", "ChainAfterFunc #%d panicked: %v", i, p)
			}
			if !racing && !want && !selfCancel && onRet != 0 {
				m.fail("C16/chain-called-early", "ChainAfterFunc #%d: f had run %d time(s) on return although neither context is cancelled", i, onRet)
			}
		})
	}
	return ops, func() {
		for _, f := range checks {
			f()
		}
	}
}

// ---- oracle at quiescence

func c16Closed(ch <-chan struct{}) bool {
	select {
	case <-ch:
		return true
	default:
		return false
	}
}

func (m *c16Machine) keys() []c16Key {
	ks := []c16Key{c16CommonKey}
	for i := range m.in {
		ks = append(ks, c16Key(i))
	}
	return ks
}

func (m *c16Machine) check(where string) {
	m.t.Helper()
	if !m.built {
		return
	}
	for i, c := range m.combs {
		want := m.combWant(c)
		err, closed := c.res.Err(), c16Closed(c.res.Done())
		if (err != nil) != closed {
			m.fail("C16/combine-done-err-mismatch", "%s: CombineContext #%d: Err()=%v but Done() closed=%v", where, i, err, closed)
		}
		if want && err == nil {
			m.fail("C16/combine-not-cancelled", "%s: CombineContext #%d is still live at quiescence although an input (primary or other) is cancelled", where, i)
		}
		if !want && err != nil {
			m.fail("C16/combine-cancelled-early", "%s: CombineContext #%d is cancelled (%v) although neither the primary nor any other is cancelled", where, i, err)
		}
		for _, k := range m.keys() {
			if got, exp := c.res.Value(k), m.valueOf(c.primary, k); got != exp {
				m.fail("C16/combine-value", "%s: CombineContext #%d: Value(key %d)=%v, the primary's is %v", where, i, int(k), got, exp)
			}
		}
	}
	for i, c := range m.confs {
		want := c.cancelled || m.confInputsDone(c)
		err, closed := c.res.Err(), c16Closed(c.res.Done())
		if (err != nil) != closed {
			m.fail("C16/conflated-done-err-mismatch", "%s: ConflatedContext #%d: Err()=%v but Done() closed=%v", where, i, err, closed)
		}
		if want && err == nil {
			if c.cancelled {
				m.fail("C16/conflated-cancel-func-ignored", "%s: ConflatedContext #%d is still live after its cancel func was called", where, i)
			}
			m.fail("C16/conflated-not-cancelled", "%s: ConflatedContext #%d is still live at quiescence although every input is cancelled", where, i)
		}
		if !want && err != nil {
			m.fail("C16/conflated-cancelled-early", "%s: ConflatedContext #%d is cancelled (%v) although an input is still live and its cancel func was not called", where, i, err)
		}
		for _, k := range m.keys() {
			if got, exp := c.res.Value(k), m.valueOf(c.args[0], k); got != exp {
				m.fail("C16/conflated-value", "%s: ConflatedContext #%d: Value(key %d)=%v, the first input's is %v", where, i, int(k), got, exp)
			}
		}
	}
	for i, c := range m.chains {
		n := c.calls.Load()
		switch want := m.chainWant(c); {
		case n > 1:
			m.fail("C16/chain-called-twice", "%s: ChainAfterFunc #%d(ctx=in%d, other=in%d): f ran %d times", where, i, c.a, c.b, n)
		case want && n == 0 && m.gate.Load() != nil && !m.cancelled(c.b):
			// only the primary is cancelled and the gate is closed: its hook may be parked before stop()
		case want && n == 0:
			m.fail("C16/chain-not-called", "%s: ChainAfterFunc #%d(ctx=in%d, other=in%d): f has not run at quiescence although a context is cancelled (ctx:%v other:%v)", where, i, c.a, c.b, m.cancelled(c.a), m.cancelled(c.b))
		case !want && n != 0:
			m.fail("C16/chain-called-early", "%s: ChainAfterFunc #%d(ctx=in%d, other=in%d): f ran although neither context is cancelled", where, i, c.a, c.b)
		}
	}
}

// ---- steps

func (m *c16Machine) renderActs(acts []c16Act, tick bool) string {
	var parts []string
	for _, a := range acts {
		if a.conf {
			parts = append(parts, fmt.Sprintf("conflated#%d.cancel", a.idx))
		} else {
			parts = append(parts, fmt.Sprintf("in%d", a.idx))
		}
	}
	s := "cancel{" + strings.Join(parts, ",") + "}"
	if tick {
		s += fmt.Sprintf("@tick%d", m.slot+1)
	}
	return s
}

// step performs the actions simultaneously (and the constructors too, if raceBuild), settles, applies the
// step to the model and evaluates the oracle. drawn: the step counts for the classification.
func (m *c16Machine) step(acts []c16Act, tick, raceBuild, drawn bool, label string) {
	before := m.snapshot()
	label = m.perform(acts, tick, raceBuild, label)
	if drawn {
		m.classify(before, m.snapshot())
	}
	m.check(label)
}

// gatedStep: close the gate, cancel acts1 (primary hooks of the chains park before stop()), cancel acts2 while
// they are parked, open the gate; the oracle is evaluated at each of the three quiescent points.
func (m *c16Machine) gatedStep(acts1, acts2 []c16Act) {
	before := m.snapshot()
	m.closeGate()
	m.perform(acts1, false, false, "gated[1]:")
	mid := m.snapshot()
	m.check("gated[1]")
	m.perform(acts2, false, false, "gated[2]:")
	after := m.snapshot()
	m.check("gated[2]")
	held := m.held.Load()
	m.openGate()
	synctest.Wait()
	m.tr("gate-open(held=%d)", held)
	m.classify(before, after)
	if held > 0 {
		m.class("gated:hooks-parked")
	}
	for _, c := range m.chains {
		if c.a != c.b && mid[c.a] && !before[c.a] && after[c.b] && !mid[c.b] {
			m.chainGated = true
		}
	}
	m.check("gate-open")
}

func (m *c16Machine) classify(before, after []bool) {
	newly := 0
	for i := range after {
		if after[i] && !before[i] {
			newly++
		}
	}
	if newly >= 2 {
		m.multiStep = true
	}
	for _, c := range m.chains {
		if c.a == c.b {
			continue
		}
		na, nb := after[c.a] && !before[c.a], after[c.b] && !before[c.b]
		if na && nb {
			m.chainBoth = true
		} else if (na && before[c.b]) || (nb && before[c.a]) {
			m.chainSplit = true
		}
	}
}

// perform launches one goroutine per action (and per constructor, if raceBuild), releases them together,
// waits for quiescence and applies the actions to the model.
func (m *c16Machine) perform(acts []c16Act, tick, raceBuild bool, label string) string {
	barrier := make(chan struct{})
	var at time.Time
	if tick {
		at = m.base.Add(time.Duration(m.slot+1) * c16Tick)
	}
	hold := func() {
		if tick {
			time.Sleep(time.Until(at))
		} else {
			<-barrier
		}
	}
	var ops []*vkit.Op
	for _, a := range acts {
		var f func()
		if a.conf {
			f = m.confs[a.idx].cancel
		} else {
			f = m.in[a.idx].cancel
		}
		ops = append(ops, vkit.Launch("cancel", func() any { hold(); f(); return nil }))
	}
	validate := func() {}
	if raceBuild {
		var bops []*vkit.Op
		bops, validate = m.build(hold)
		ops = append(ops, bops...)
		label += "build||"
	}
	m.tr("%s%s", label, m.renderActs(acts, tick))
	if tick {
		time.Sleep(time.Until(at))
	} else {
		synctest.Wait() // everyone parked on the barrier
		close(barrier)
	}
	synctest.Wait()
	// model
	for _, a := range acts {
		if a.conf {
			m.confs[a.idx].cancelled = true
		} else {
			m.in[a.idx].own = true
		}
	}
	if tick {
		m.slot++
	}
	for _, op := range ops {
		if !op.Finished() {
			m.fail("C16/call-blocked", "%s blocked at quiescence", op.Name)
		}
		if op.Panic != nil && op.Name == "cancel" {
			m.fail("C16/cancel-panic", "a cancel call panicked: %v", op.Panic)
		}
	}
	validate()
	return label
}

func (m *c16Machine) drawStep(t *rapid.T, raceBuild bool) bool {
	var pool []c16Act
	var dead []c16Act
	tickable := false
	for i, x := range m.in {
		if x.cancel == nil {
			continue
		}
		if m.cancelled(i) {
			dead = append(dead, c16Act{idx: i})
			continue
		}
		pool = append(pool, c16Act{idx: i})
		if x.kind == "dl" && x.slot > m.slot {
			tickable = true
		}
	}
	if m.built {
		for i, c := range m.confs {
			if c.cancelled {
				dead = append(dead, c16Act{conf: true, idx: i})
			} else if rapid.IntRange(0, 2).Draw(t, "confCancelCand") == 0 {
				// the explicit cancel is a candidate only now and then, otherwise most Conflated results
				// would end by their cancel func before the inputs are exhausted
				pool = append(pool, c16Act{conf: true, idx: i})
			}
		}
	}
	tick := tickable && rapid.Bool().Draw(t, "tick")
	if len(pool) == 0 && !tick {
		return false
	}
	if m.built && !tick && len(pool) >= 2 && (m.on("chain") || m.on("conflated")) && rapid.IntRange(0, 3).Draw(t, "gated") == 0 {
		pick := func(max int) (acts []c16Act) {
			k := rapid.IntRange(1, max).Draw(t, "gatedSize")
			for j := 0; j < k; j++ {
				p := rapid.IntRange(0, len(pool)-1).Draw(t, "pick")
				acts = append(acts, pool[p])
				pool = append(pool[:p], pool[p+1:]...)
			}
			return acts
		}
		// preferably aimed at a chain whose two contexts are both still live: primary first, other second
		var acts1, acts2 []c16Act
		inPool := func(i int) int {
			for p, a := range pool {
				if !a.conf && a.idx == i {
					return p
				}
			}
			return -1
		}
		var aimed []*c16Chain
		for _, c := range m.chains {
			if c.a != c.b && inPool(c.a) >= 0 && inPool(c.b) >= 0 {
				aimed = append(aimed, c)
			}
		}
		if len(aimed) > 0 && rapid.IntRange(0, 3).Draw(t, "gatedAimed") != 3 {
			c := aimed[rapid.IntRange(0, len(aimed)-1).Draw(t, "gatedChain")]
			acts1, acts2 = []c16Act{{idx: c.a}}, []c16Act{{idx: c.b}}
			pa := inPool(c.a)
			pool = append(pool[:pa], pool[pa+1:]...)
			pb := inPool(c.b)
			pool = append(pool[:pb], pool[pb+1:]...)
			if len(pool) > 0 && rapid.Bool().Draw(t, "gatedExtra") {
				acts2 = append(acts2, pick(1)...)
			}
		} else {
			acts1 = pick(min(2, len(pool)-1))
			acts2 = pick(min(2, len(pool)))
		}
		m.class("gated-step")
		m.gatedStep(acts1, acts2)
		return true
	}
	sizes := []int{2, 1, 2, 1, 3, 2, 1, 9}
	if tick {
		sizes = []int{0, 1, 2, 0, 1, 2, 3, 9}
	}
	k := rapid.SampledFrom(sizes).Draw(t, "size")
	if k > len(pool) {
		k = len(pool)
	}
	if k == 0 && !tick {
		k = 1
	}
	var acts []c16Act
	for j := 0; j < k; j++ {
		p := rapid.IntRange(0, len(pool)-1).Draw(t, "pick")
		acts = append(acts, pool[p])
		pool = append(pool[:p], pool[p+1:]...)
	}
	if len(dead) > 0 && rapid.IntRange(0, 7).Draw(t, "recancel") == 0 {
		acts = append(acts, dead[rapid.IntRange(0, len(dead)-1).Draw(t, "recancelPick")])
		m.class("recancel")
	}
	if tick {
		m.class("tick-step")
		if len(acts) > 0 {
			m.class("tick-mixed")
		}
	}
	for _, a := range acts {
		if a.conf && !m.confs[a.idx].cancelled && !m.confInputsDone(m.confs[a.idx]) {
			m.class("conflated:explicit-cancel-while-live")
		}
	}
	m.step(acts, tick, raceBuild, true, "step:")
	return true
}

// c16Others is vkit.BubbleOthers without the per-call megabyte allocation: the goroutine dump goes into a
// buffer that is reused (cases run one at a time); only a non-empty answer is re-derived through vkit.
var c16StackBuf = make([]byte, 1<<18)

func c16Others() []vkit.Goroutine {
	n := runtime.Stack(c16StackBuf, true)
	if n >= len(c16StackBuf) {
		return vkit.BubbleOthers()
	}
	blocks := bytes.Split(c16StackBuf[:n], []byte("\n\n"))
	tag := func(blk []byte) []byte { // "synctest bubble N" of the header line, nil if none
		if !bytes.HasPrefix(blk, []byte("goroutine ")) {
			return nil
		}
		hdr := blk
		if i := bytes.IndexByte(blk, '\n'); i >= 0 {
			hdr = blk[:i]
		}
		i := bytes.Index(hdr, []byte("synctest bubble "))
		if i < 0 {
			return nil
		}
		j := i + len("synctest bubble ")
		for j < len(hdr) && hdr[j] >= '0' && hdr[j] <= '9' {
			j++
		}
		return hdr[i:j]
	}
	if len(blocks) == 0 {
		return nil
	}
	me := tag(blocks[0])
	if me == nil {
		return nil
	}
	for _, blk := range blocks[1:] {
		if bytes.Equal(tag(blk), me) && !bytes.Contains(blk, []byte("internal/synctest.Run")) && !bytes.Contains(blk, []byte("synctest.testingSynctestTest")) {
			return vkit.BubbleOthers()
		}
	}
	return nil
}

// ---- the case

func c16Run(t *rapid.T, st *vkit.Stats) {
	m := &c16Machine{t: t, st: st, cls: map[string]bool{}, base: time.Now()}
	vkit.CaseStart(func() string { return strings.Join(m.trace, " ; ") })
	// whatever ends the case (a violation, or rapid abandoning the case at a draw while shrinking): cancel
	// everything, so that no watcher goroutine stays blocked and the bubble can end
	defer m.cleanup()
	bigbuff.VerifSetHook(m.hook)
	defer bigbuff.VerifSetHook(nil)

	n := rapid.SampledFrom([]int{3, 4, 5, 3, 4, 5, 3, 4, 2, 3, 5, 2, 4, 3, 1, 4, 0}).Draw(t, "inputs")
	if n == 0 {
		// degenerate arities
		m.tr("no inputs")
		_, p := vkit.Call(func() any { _, c := bigbuff.ConflatedContext(); c(); return nil })
		if p == nil {
			m.fail("C16/conflated-no-panic-on-empty", "ConflatedContext() with no inputs did not panic")
		}
		res, p := vkit.Call(func() any { return bigbuff.CombineContext(nil) })
		if p != nil {
			m.fail("C16/combine-panic", "CombineContext(nil) panicked: %v", p)
		}
		if ctx, _ := res.(context.Context); ctx == nil || ctx.Err() != nil {
			m.fail("C16/combine-cancelled-early", "CombineContext(nil) returned %v", res)
		}
		st.Case(m.trace, false, "n:0")
		return
	}
	m.mode = rapid.SampledFrom([]string{"all", "chain", "all", "combine+chain", "all", "chain", "conflated", "combine", "all"}).Draw(t, "mode")
	m.tr("mode=%s", m.mode)
	for i := 0; i < n; i++ {
		m.in = append(m.in, m.newInput(t, i))
	}
	synctest.Wait() // pre-cancellation has propagated to children of custom parents
	for i := range m.in {
		if m.cancelled(i) {
			m.pre++
		}
	}
	m.drawTargets(t)

	raceBuild := rapid.IntRange(0, 3).Draw(t, "raceBuild") == 0
	if !raceBuild {
		_, validate := m.build(nil)
		validate()
		m.tr("built")
		synctest.Wait()
		m.check("after construction")
	}
	steps := rapid.SampledFrom([]int{3, 4, 2, 5, 3, 6, 2, 4, 1, 0}).Draw(t, "steps")
	// a partial teardown is only informative while inputs are still live: such cases stop stepping early
	partial := rapid.SampledFrom([]bool{false, false, true, false}).Draw(t, "partialTeardown")
	if partial && steps > 1 {
		steps = rapid.IntRange(0, 1).Draw(t, "stepsBeforePartial")
	}
	nsteps := 0
	for i := 0; i < steps; i++ {
		if !m.drawStep(t, raceBuild && !m.built) {
			break
		}
		nsteps++
	}
	if !m.built {
		_, validate := m.build(nil)
		validate()
		m.tr("built")
		synctest.Wait()
		m.check("after construction")
	} else if raceBuild {
		m.class("racing-construction")
	}

	// ---- teardown
	if partial {
		// cancel only what owns the registrations: afterwards nothing of the library may be left running,
		// although other inputs are still live
		need := map[int]bool{}
		var acts []c16Act
		add := func(i int) bool {
			if i < 0 || m.in[i].cancel == nil {
				return false
			}
			if !need[i] {
				need[i] = true
				acts = append(acts, c16Act{idx: i})
			}
			return true
		}
		for _, c := range m.combs {
			if m.combWant(c) || add(c.primary) {
				continue
			}
			for _, o := range c.others {
				if add(o) {
					break
				}
			}
		}
		for _, c := range m.chains {
			if !m.cancelled(c.a) && !add(c.a) {
				add(c.b)
			}
		}
		for i, x := range m.in {
			// the watcher goroutine of a std child of a custom parent belongs to the harness' inputs
			if x.kind == "child" && m.in[x.parent].kind == "custom" {
				add(i)
			}
		}
		for i := range m.confs {
			acts = append(acts, c16Act{conf: true, idx: i})
		}
		m.step(acts, false, false, false, "partial-teardown:")
		liveLeft := false
		for i, x := range m.in {
			if x.cancel != nil && !m.cancelled(i) {
				liveLeft = true
			}
		}
		if liveLeft {
			m.class("partial-teardown-with-live-inputs")
			if left := c16Others(); len(left) != 0 {
				m.fail("C16/leak-after-cancel", "%d goroutine(s) still alive although every result / every ChainAfterFunc primary is cancelled (other inputs still live):\n%s", len(left), vkit.DescribeGoroutines(left))
			}
		}
	}
	// everything but one live input first (the Conflated results over all inputs stay live), then the rest
	var acts, last []c16Act
	for i, x := range m.in {
		if x.cancel != nil {
			if !m.cancelled(i) {
				acts = append(acts, last...)
				last = []c16Act{{idx: i}}
			} else {
				acts = append(acts, c16Act{idx: i})
			}
		}
	}
	if len(acts) > 0 && len(last) > 0 {
		m.step(acts, false, false, false, "teardown[1]:")
	}
	acts = append(acts, last...)
	for i := range m.confs {
		acts = append(acts, c16Act{conf: true, idx: i})
	}
	m.step(acts, false, false, false, "teardown:")
	time.Sleep(time.Hour)
	synctest.Wait()
	m.check("after teardown")
	if left := c16Others(); len(left) != 0 {
		m.fail("C16/goroutine-leak", "%d goroutine(s) alive after every input was cancelled and every cancel func called:\n%s", len(left), vkit.DescribeGoroutines(left))
	}

	// ---- evidence
	ntA := (m.on("combine") || m.on("conflated")) && n >= 3 && m.pre >= 1 && m.multiStep
	ntB := m.on("chain") && m.chainBoth
	cls := []string{fmt.Sprintf("n:%d", n), "mode:" + m.mode, fmt.Sprintf("steps:%d", nsteps)}
	if m.pre > 0 {
		cls = append(cls, "pre-cancelled>=1")
	}
	if m.pre == n {
		cls = append(cls, "pre-cancelled:all")
	}
	if m.multiStep {
		cls = append(cls, "step-cancels>=2-at-once")
	}
	if m.chainBoth {
		cls = append(cls, "chain:both-in-same-step")
	}
	if m.chainSplit {
		cls = append(cls, "chain:second-ctx-later")
	}
	if m.chainGated {
		cls = append(cls, "chain:primary-parked-then-other-cancelled")
	}
	if ntA {
		cls = append(cls, "nontrivial:combine/conflated")
	}
	if ntB {
		cls = append(cls, "nontrivial:chain")
	}
	for c := range m.cls {
		cls = append(cls, c)
	}
	st.Case(m.trace, ntA || ntB, cls...)
}

func TestC16Context(t *testing.T) {
	st := vkit.For("c16_context")
	rapid.Check(t, func(t *rapid.T) {
		rapid.SyncTest(t, func(t *rapid.T) {
			c16Run(t, st)
		})
	})
}
