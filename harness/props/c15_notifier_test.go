//go:build go1.25

package props

// c15_notifier — model-based stateful testing of bigbuff.Notifier inside a synctest bubble (property C15):
// a publish reaches each eligible subscription exactly once, and no one else.
//
// The harness owns every target channel (made with reflect, element types int/string/any/error/*T/[]byte,
// unbuffered or cap 1) and is the only receiver: a target "becomes ready" when a rule performs a
// non-blocking receive at a quiescent point (synctest.Wait), where a parked publisher hands its value over
// synchronously. So the generator decides the order in which targets become ready and contexts are
// cancelled, and "is Publish blocked?" is answered exactly by Op.Finished() after synctest.Wait().
//
// Oracle (written from the doc comments / property statement): E(publish) = registered subscriptions of
// the key whose element type accepts the value (assignability table c15Accepts; untyped nil accepted by
// nilable element types) and whose context is live at launch. Every member gets the value exactly once
// unless its context is cancelled first (or the publish context is cancelled); nobody else gets anything
// (non-blocking extra receive / buffer length check on EVERY target at every settle); Publish is pending
// exactly while a member is neither delivered nor cancelled and the publish context is live.
//
// Goroutines parked on the Notifier's RWMutex are not durably blocked, so synctest.Wait is unusable while a
// registry operation (Subscribe, Unsubscribe, the Unsubscribe goroutine of SubscribeCancel) is parked behind
// an in-flight publish, or a later publish is parked behind such a writer (sync.RWMutex: a blocked Lock
// excludes new readers). In those states quiescence is established by c15Quiesce instead: it yields until a
// full goroutine dump shows every other goroutine of the bubble blocked (durably, or in a sync mutex wait).
// With the harness goroutine the only runnable one nothing can change until it acts, so this is exact (it is
// a condition, not a timeout). The model then knows: a parked writer completes when the publishes that hold
// the read lock have returned; a publish queued behind it starts (and computes its eligible set) after that.

import (
	"bytes"
	"context"
	"fmt"
	"os"
	"reflect"
	"runtime"
	"strings"
	"testing"
	"testing/synctest"
	"time"

	bigbuff "github.com/joeycumines/go-bigbuff"
	"pgregory.net/rapid"

	"verif/harness/vkit"
)

// ---- value / element universe

type c15Key struct {
	a int
	b string
}

type c15T struct{ n int }

type c15Err struct{ n int }

func (e c15Err) Error() string { return fmt.Sprintf("c15Err#%d", e.n) }

type c15PErr struct{ n int }

func (e *c15PErr) Error() string { return "c15PErr" }

type c15MyInt int

// c15Bytes is a named slice type: []byte values are assignable to it and its values are assignable to []byte
// (identical underlying types, one side not a named type) although the types are not identical
type c15Bytes []byte

var c15ElemNames = []string{"int", "string", "any", "error", "ptr", "bytes", "nbytes"}

var c15ElemTypes = map[string]reflect.Type{
	"int":    reflect.TypeOf(0),
	"string": reflect.TypeOf(""),
	"any":    reflect.TypeOf((*any)(nil)).Elem(),
	"error":  reflect.TypeOf((*error)(nil)).Elem(),
	"ptr":    reflect.TypeOf((*c15T)(nil)),
	"bytes":  reflect.TypeOf([]byte(nil)),
	"nbytes": reflect.TypeOf(c15Bytes(nil)),
}

// c15Accepts is the assignability table of the value kinds to the element types (Go spec, not reflect).
func c15Accepts(vk, elem string) bool {
	if elem == "any" {
		return true
	}
	switch vk {
	case "int":
		return elem == "int"
	case "myint":
		return false // a named int type is convertible, not assignable, to int
	case "string":
		return elem == "string"
	case "err", "perr", "nilperr":
		return elem == "error"
	case "ptr", "nilptr":
		return elem == "ptr"
	case "bytes", "nilbytes", "nbytes":
		return elem == "bytes" || elem == "nbytes"
	case "nil": // untyped nil: nilable element types only
		return elem == "error" || elem == "ptr" || elem == "bytes" || elem == "nbytes"
	}
	panic("harness: unknown value kind " + vk)
}

func c15NilIsh(vk string) bool {
	return vk == "nil" || vk == "nilptr" || vk == "nilbytes" || vk == "nilperr"
}

func c15MakeValue(vk string, id int) any {
	switch vk {
	case "int":
		return 1000 + id
	case "myint":
		return c15MyInt(1000 + id)
	case "string":
		return fmt.Sprintf("v%d", id)
	case "err":
		return c15Err{id}
	case "perr":
		return &c15PErr{id}
	case "nilperr":
		return (*c15PErr)(nil)
	case "ptr":
		return &c15T{id}
	case "nilptr":
		return (*c15T)(nil)
	case "bytes":
		return []byte{byte(id), byte(id >> 8), 7}
	case "nilbytes":
		return []byte(nil)
	case "nbytes":
		return c15Bytes{byte(id), 9}
	case "nil":
		return nil
	}
	panic("harness: unknown value kind " + vk)
}

// c15Expect is what a target of element type elem must receive for a publish of val.
func c15Expect(vk string, val any, elem string) any {
	if vk == "nil" {
		return reflect.Zero(c15ElemTypes[elem]).Interface()
	}
	if et := c15ElemTypes[elem]; et.Kind() != reflect.Interface && reflect.TypeOf(val) != et {
		// assignable without being identical (named vs unnamed slice type): the channel holds the element type
		return reflect.ValueOf(val).Convert(et).Interface()
	}
	return val
}

// c15Same: identity of the received value (same dynamic type; pointers and slices by identity).
func c15Same(a, b any) bool {
	if a == nil || b == nil {
		return a == nil && b == nil
	}
	ta, tb := reflect.TypeOf(a), reflect.TypeOf(b)
	if ta != tb {
		return false
	}
	if ta.Kind() == reflect.Slice {
		va, vb := reflect.ValueOf(a), reflect.ValueOf(b)
		return va.Len() == vb.Len() && va.Pointer() == vb.Pointer()
	}
	return a == b
}

func c15Render(v any) string {
	switch x := v.(type) {
	case nil:
		return "nil"
	case *c15T:
		if x == nil {
			return "(*T)(nil)"
		}
		return fmt.Sprintf("&T#%d", x.n)
	case *c15PErr:
		if x == nil {
			return "(*PErr)(nil)"
		}
		return fmt.Sprintf("&PErr#%d", x.n)
	case []byte:
		if x == nil {
			return "[]byte(nil)"
		}
		return fmt.Sprintf("bytes#%d", int(x[0])|int(x[1])<<8)
	case c15Err:
		return fmt.Sprintf("Err#%d", x.n)
	}
	return fmt.Sprintf("%T:%v", v, v)
}

// ---- model

type c15Deliv struct {
	pub *c15Pub
	val any
}

type c15Chan struct {
	id   int
	elem string
	cap  int
	rv   reflect.Value
	buf  []c15Deliv // model of the buffered content (cap 1 only)
}

func (x *c15Chan) String() string { return fmt.Sprintf("ch%d[%s,cap%d]", x.id, x.elem, x.cap) }

type c15Ctx struct {
	id        int
	ctx       context.Context
	cancel    context.CancelFunc
	cancelled bool
}

type c15Sub struct {
	id          int
	key         int
	ch          *c15Chan
	kind        string  // nil | live | sc
	ctx         *c15Ctx // live: the context; sc: the parent (may be nil)
	scCancel    context.CancelFunc
	scCancelled bool
	registered  bool
}

func (s *c15Sub) dead() bool {
	switch s.kind {
	case "live":
		return s.ctx.cancelled
	case "sc":
		return s.scCancelled || (s.ctx != nil && s.ctx.cancelled)
	}
	return false
}

const (
	c15Pending = iota
	c15Delivered
	c15Cancelled // the member's context was cancelled first
	c15Abandoned // the publish context was cancelled first
)

type c15Member struct {
	sub   *c15Sub
	state int
}

type c15Pub struct {
	id        int
	key       int // index into keys, -1 = a key nobody ever subscribes to
	vk        string
	val       any
	ctxKind   string // nil | live | dead
	ctx       context.Context
	cancel    context.CancelFunc
	cancelled bool
	op        *vkit.Op
	members   []*c15Member
	snapshot  []string // per channel id: why it is (in)eligible at launch
	midCancel bool
	finished  bool
	plain     bool
	queued    bool // parked on the read lock behind a writer: eligible set not determined yet
}

// c15Writer is a registry call launched while a publish holds the read lock.
type c15Writer struct {
	kind    string // subscribe | unsubscribe | dup-subscribe | unmatched-unsubscribe
	op      *vkit.Op
	sub     *c15Sub
	flavour string
	key     int
	ch      *c15Chan
	desc    string
}

func (p *c15Pub) member(x *c15Chan) *c15Member {
	for _, mb := range p.members {
		if mb.sub.ch == x {
			return mb
		}
	}
	return nil
}

func (p *c15Pub) pendingCount() int {
	n := 0
	for _, mb := range p.members {
		if mb.state == c15Pending {
			n++
		}
	}
	return n
}

func (p *c15Pub) String() string { return fmt.Sprintf("p%d", p.id) }

type c15Machine struct {
	t  *rapid.T
	st *vkit.Stats
	n  *bigbuff.Notifier

	keys     []any
	keyNames []string
	chans    []*c15Chan
	ctxs     []*c15Ctx
	subs     []*c15Sub
	pubs     []*c15Pub
	inflight []*c15Pub
	ops      []*vkit.Op
	nextVal  int
	focus    bool
	writers  []*c15Writer // launched registry calls that have not returned
	queued   []*c15Pub    // publishes launched behind a parked writer
	qbuf     []byte

	trace   []string
	cleaned bool
	done    bool

	cls        map[string]bool
	clsOrder   []string
	maxE       int
	ntMid      bool
	ntNil      bool
	panicSince bool
}

func (m *c15Machine) class(c string) {
	if !m.cls[c] {
		m.cls[c] = true
		m.clsOrder = append(m.clsOrder, c)
	}
}

func (m *c15Machine) tr(format string, args ...any) {
	m.trace = append(m.trace, fmt.Sprintf(format, args...))
	if os.Getenv("VKIT_DEBUG") != "" {
		fmt.Println("TRACE", m.trace[len(m.trace)-1])
	}
}

func (m *c15Machine) fail(sig string, format string, args ...any) {
	m.t.Helper()
	msg := fmt.Sprintf("%s\ntrace: %s", fmt.Sprintf(format, args...), strings.Join(m.trace, " ; "))
	vkit.Announce(sig, "%s", msg)
	m.emergency()
	m.t.Fatalf("[%s] %s", sig, msg)
}

func c15Spin() {
	for i := 0; i < 200; i++ {
		runtime.Gosched()
	}
}

func c15Drain(rv reflect.Value, quit chan struct{}) {
	cases := []reflect.SelectCase{
		{Dir: reflect.SelectRecv, Chan: rv},
		{Dir: reflect.SelectRecv, Chan: reflect.ValueOf(quit)},
	}
	for {
		if i, _, _ := reflect.Select(cases); i == 1 {
			return
		}
	}
}

// emergency releases everything a failing / aborted case still holds so that the bubble can end:
// every target gets a draining receiver, every context is cancelled, then every launched call is awaited.
func (m *c15Machine) emergency() {
	if m.cleaned {
		return
	}
	m.cleaned = true
	quit := make(chan struct{})
	for _, x := range m.chans {
		go c15Drain(x.rv, quit)
	}
	for _, p := range m.pubs {
		if p.cancel != nil {
			p.cancel()
		}
	}
	for _, c := range m.ctxs {
		c.cancel()
	}
	for _, s := range m.subs {
		if s.scCancel != nil {
			s.scCancel()
		}
	}
	for _, op := range m.ops {
		op.Wait()
	}
	synctest.Wait()
	close(quit)
	synctest.Wait()
}

func (m *c15Machine) launch(name string, f func() any) *vkit.Op {
	op := vkit.Launch(name, f)
	m.ops = append(m.ops, op)
	return op
}

func (m *c15Machine) findSub(key int, x *c15Chan) *c15Sub {
	for _, s := range m.subs {
		if s.registered && s.key == key && s.ch == x {
			return s
		}
	}
	return nil
}

func (m *c15Machine) target(t *rapid.T, x *c15Chan) any {
	if rapid.IntRange(0, 3).Draw(t, "sendOnlyView") == 0 {
		m.class("send-only-view")
		return x.rv.Convert(reflect.ChanOf(reflect.SendDir, c15ElemTypes[x.elem])).Interface()
	}
	return x.rv.Interface()
}

func (m *c15Machine) keyOf(i int) any {
	if i < 0 {
		return "nobody"
	}
	return m.keys[i]
}

func (m *c15Machine) keyName(i int) string {
	if i < 0 {
		return "k?"
	}
	return m.keyNames[i]
}

// pendingOn lists the in-flight publishes (plus extra) that have a pending member on x.
func (m *c15Machine) pendingOn(x *c15Chan, pubs []*c15Pub) []*c15Pub {
	var out []*c15Pub
	for _, p := range pubs {
		if mb := p.member(x); mb != nil && mb.state == c15Pending {
			out = append(out, p)
		}
	}
	return out
}

// ---- the oracle at quiescence

func (m *c15Machine) settle() {
	if m.mayPark() {
		m.quiesce()
	} else {
		synctest.Wait()
	}
	m.check()
}

// anon counts the Unsubscribe goroutines of cancelled SubscribeCancel subscriptions that may be parked.
func (m *c15Machine) anon() int {
	n := 0
	for _, s := range m.subs {
		if s.registered && s.kind == "sc" && s.dead() {
			n++
		}
	}
	return n
}

// mayPark: some goroutine may be parked on the Notifier's mutex (where synctest.Wait would stall): a writer
// or a queued publish behind in-flight publishes -- or, if the library were wrong, one of two concurrent
// publishes behind the other (they must not exclude each other).
func (m *c15Machine) mayPark() bool {
	return len(m.inflight) >= 2 || len(m.inflight) > 0 && (len(m.writers) > 0 || len(m.queued) > 0 || m.anon() > 0)
}

// quiesce: exact quiescence in the presence of mutex-parked goroutines (see the file comment).
func (m *c15Machine) quiesce() {
	if m.qbuf == nil {
		m.qbuf = make([]byte, 1<<16)
	}
	m.st.Metric("quiesce-calls", 1)
	for {
		for i := 0; i < 8; i++ {
			runtime.Gosched()
		}
		m.st.Metric("quiesce-snapshots", 1)
		if c15AllBlocked(&m.qbuf) {
			return
		}
	}
}

var (
	c15BubbleTag = []byte("synctest bubble ")
	c15NextG     = []byte("\n\ngoroutine ")
	c15Durable   = []byte("(durable)")
)

// c15AllBlocked reports whether every other goroutine of the caller's bubble is blocked: durably
// (channel op, select, sleep, ...) or waiting for a sync.Mutex / sync.RWMutex.
func c15AllBlocked(buf *[]byte) bool {
	var b []byte
	for {
		n := runtime.Stack(*buf, true)
		if n < len(*buf) {
			b = (*buf)[:n]
			break
		}
		*buf = make([]byte, 2*len(*buf))
	}
	eol := bytes.IndexByte(b, '\n')
	first := b[:eol]
	i := bytes.Index(first, c15BubbleTag)
	if i < 0 {
		panic("harness: c15AllBlocked outside a bubble")
	}
	tag := first[i:]
	tag = tag[:bytes.IndexAny(tag, ",]")]
	rest := b[eol:]
	for {
		j := bytes.Index(rest, c15NextG)
		if j < 0 {
			return true
		}
		rest = rest[j+2:]
		hdr := rest
		if e := bytes.IndexByte(rest, '\n'); e >= 0 {
			hdr = rest[:e]
		}
		o, c := bytes.IndexByte(hdr, '['), bytes.LastIndexByte(hdr, ']')
		if o < 0 || c < o {
			continue
		}
		inside := hdr[o+1 : c]
		state := inside
		if q := bytes.IndexByte(inside, ','); q >= 0 {
			state = inside[:q]
		}
		k := bytes.Index(inside, c15BubbleTag)
		if k < 0 {
			// No bubble tag: a goroutine outside every bubble -- or one of ours that is inside the garbage
			// collector (the runtime detaches a goroutine from its bubble during GC start / GC assist, see
			// runtime/mgc.go, mgcmark.go). Ours can only show up here runnable, running, in a syscall, in a
			// GC wait or in a runtime semaphore wait (gcStart), so an untagged goroutine in an ordinary
			// channel / sleep / cond wait is certainly not ours. Anything else: not quiescent (yet).
			if !c15OutsideWait[string(state)] {
				return false
			}
			continue
		}
		if after := inside[k:]; !bytes.Equal(after, tag) {
			continue // another bubble
		}
		switch {
		case bytes.Contains(state, c15Durable):
		case string(state) == "sync.RWMutex.Lock", string(state) == "sync.RWMutex.RLock", string(state) == "sync.Mutex.Lock":
		default:
			return false
		}
	}
}

var c15OutsideWait = map[string]bool{
	"chan receive": true, "chan send": true, "select": true, "sleep": true, "IO wait": true,
	"sync.Cond.Wait": true, "sync.WaitGroup.Wait": true, "finalizer wait": true, "cleanup wait": true,
	"chan receive (nil chan)": true, "chan send (nil chan)": true, "select (no cases)": true,
	"GC worker (idle)": true, "force gc (idle)": true, "GC sweep wait": true, "GC scavenge wait": true,
}

func (m *c15Machine) checkPubOutcome(p *c15Pub) {
	if p.op.Panic != nil {
		if p.vk == "nil" && strings.Contains(fmt.Sprint(p.op.Panic), "zero Value") {
			m.fail("C15/publish-nil-panic", "Publish(%s, nil) panicked: %v", m.keyName(p.key), p.op.Panic)
		}
		m.fail("C15/publish-panic", "%s: Publish(%s, %s) panicked: %v", p, m.keyName(p.key), c15Render(p.val), p.op.Panic)
	}
}

// retire: Publish is pending exactly while some member is neither delivered nor cancelled and its context is live.
func (m *c15Machine) retire() {
	keep := m.inflight[:0]
	for _, p := range m.inflight {
		should := p.cancelled || p.pendingCount() == 0
		switch {
		case p.op.Finished():
			m.checkPubOutcome(p)
			if !should {
				m.fail("C15/publish-returned-early", "%s returned although %d eligible subscription(s) have neither received the value nor been cancelled", p, p.pendingCount())
			}
			p.finished = true
			m.tr("%s=done", p)
		case should:
			m.fail("C15/publish-stuck", "%s still blocked at quiescence although every eligible subscription was delivered or cancelled (publish ctx cancelled=%v)", p, p.cancelled)
		default:
			keep = append(keep, p)
		}
	}
	m.inflight = keep
}

func (m *c15Machine) check() {
	m.retire()
	if len(m.inflight) == 0 {
		m.reapSC() // their Unsubscribe goroutines had the lock
	}
	// registry calls that have returned take effect
	keepW := m.writers[:0]
	for _, w := range m.writers {
		if w.op.Finished() {
			m.applyWriter(w)
		} else {
			keepW = append(keepW, w)
		}
	}
	m.writers = keepW
	if len(m.inflight) == 0 && len(m.writers) > 0 {
		m.fail("C15/registry-call-stuck", "%s still blocked at quiescence although no publish is in flight\n%s", m.writers[0].desc, vkit.DescribeGoroutines(vkit.BubbleOthers()))
	}
	// a publish queued behind the writer starts once the writer is through (or shows that it had started)
	start := len(m.queued) > 0 && len(m.writers) == 0 && (len(m.inflight) == 0 || m.anon() == 0)
	for _, q := range m.queued {
		if q.op.Finished() {
			start = true
		}
	}
	if start {
		for _, q := range m.queued {
			m.beginPub(q)
		}
		m.queued = nil
		m.retire()
	}
	if len(m.inflight) == 0 {
		m.reapSC()
	}
	// nobody else receives anything
	for _, x := range m.chans {
		if got := x.rv.Len(); got != len(x.buf) {
			if got > len(x.buf) {
				v, _ := x.rv.TryRecv()
				m.failUnexpected(x, v.Interface())
			}
			m.fail("C15/missed-delivery", "%s: buffer holds %d values, expected %d: a ready (buffered) eligible target was not sent the value", x, got, len(x.buf))
		}
		if x.cap == 0 && len(m.pendingOn(x, m.inflight)) == 0 {
			if v, ok := x.rv.TryRecv(); ok {
				m.failUnexpected(x, v.Interface())
			}
		}
	}
}

func (m *c15Machine) applyWriter(w *c15Writer) {
	switch w.kind {
	case "subscribe":
		m.subscribed(w.sub, w.op.Panic)
	case "unsubscribe":
		m.unsubscribed(w.sub, w.op.Panic)
	case "dup-subscribe":
		m.checkDup(w.sub, w.flavour, w.op.Panic)
	case "unmatched-unsubscribe":
		m.checkUnmatched(w.key, w.ch, w.op.Panic)
	}
}

// reapSC: with no publish in flight, the goroutine of a cancelled SubscribeCancel has unsubscribed.
func (m *c15Machine) reapSC() {
	for _, s := range m.subs {
		if s.registered && s.kind == "sc" && s.dead() {
			s.registered = false
		}
	}
}

// failUnexpected classifies a value that arrived on a target the model did not expect anything on.
func (m *c15Machine) failUnexpected(x *c15Chan, got any) {
	for i := len(m.pubs) - 1; i >= 0; i-- {
		p := m.pubs[i]
		if !c15Same(c15Expect(p.vk, p.val, x.elem), got) {
			continue
		}
		if c15NilIsh(p.vk) && p.finished && p.member(x) == nil {
			continue
		}
		sig, why := "C15/unexpected-delivery", "?"
		if p.queued {
			// (not a statement of C15 itself: the model's assumption, from the plan, that a publish issued
			// while a registry call waits for the lock is ordered after that call)
			m.fail("C15/publish-not-queued-behind-writer", "%s received %s of %s, which was issued while a registry call was parked behind the in-flight publishes and should not have started yet", x, c15Render(got), p)
		}
		if mb := p.member(x); mb != nil {
			switch mb.state {
			case c15Delivered:
				sig, why = "C15/duplicate-delivery", "it already received that publish"
			case c15Cancelled:
				sig, why = "C15/delivery-after-cancel", "its subscription context was cancelled first (and the target was not ready then)"
			case c15Abandoned:
				sig, why = "C15/delivery-after-publish-cancel", "the publish context was cancelled first"
			case c15Pending:
				sig, why = "C15/unexpected-delivery", "pending"
			}
		} else {
			why = p.snapshot[x.id]
			switch why {
			case "other-key":
				sig = "C15/delivery-wrong-key"
			case "unsubscribed":
				sig = "C15/delivery-after-unsubscribe"
			case "cancelled-ctx":
				sig = "C15/delivery-to-cancelled"
			case "incompatible-type":
				sig = "C15/delivery-incompatible-type"
			}
		}
		m.fail(sig, "%s received %s of %s (key %s) although %s", x, c15Render(got), p, m.keyName(p.key), why)
	}
	if len(m.pendingOn(x, m.inflight)) > 0 {
		m.fail("C15/wrong-value", "%s received %s, which no pending publish sent", x, c15Render(got))
	}
	m.fail("C15/unexpected-delivery", "%s received %s although no publish is pending for it", x, c15Render(got))
}

// ---- publishes

func (m *c15Machine) snapshotFor(key int, vk string) []string {
	out := make([]string, len(m.chans))
	for _, x := range m.chans {
		why := "never"
		if s := m.findSub(key, x); s != nil {
			switch {
			case s.dead():
				why = "cancelled-ctx"
			case !c15Accepts(vk, x.elem):
				why = "incompatible-type"
			default:
				why = "eligible"
			}
		} else {
			for _, s := range m.subs {
				if s.ch != x {
					continue
				}
				if !s.registered && s.key == key {
					why = "unsubscribed"
					break
				}
				if s.registered {
					why = "other-key"
				}
			}
		}
		out[x.id] = why
	}
	return out
}

func (m *c15Machine) eligible(key int, vk string) []*c15Sub {
	var out []*c15Sub
	for _, s := range m.subs {
		if s.registered && s.key == key && !s.dead() && c15Accepts(vk, s.ch.elem) {
			out = append(out, s)
		}
	}
	return out
}

type c15PubSpec struct {
	key     int
	vk      string
	ctxKind string
}

func (m *c15Machine) drawPubSpec(t *rapid.T, allowDead bool) c15PubSpec {
	var sp c15PubSpec
	var live []*c15Sub
	for _, s := range m.subs {
		if s.registered && !s.dead() {
			live = append(live, s)
		}
	}
	if len(live) > 0 && rapid.IntRange(0, 3).Draw(t, "targeted") != 0 {
		// aim at an existing live subscription: its key, and a value its element type accepts
		s := live[rapid.IntRange(0, len(live)-1).Draw(t, "aimAt")]
		sp.key = s.key
		var vks []string
		switch s.ch.elem {
		case "any":
			vks = []string{"int", "int", "int", "int", "nil", "nil", "myint", "ptr", "nilptr", "string", "err", "nbytes"}
		case "int":
			vks = []string{"int"}
		case "string":
			vks = []string{"string"}
		case "error":
			vks = []string{"err", "perr", "nilperr", "nil", "nil"}
		case "ptr":
			vks = []string{"ptr", "ptr", "nilptr", "nil", "nil"}
		case "bytes", "nbytes":
			vks = []string{"bytes", "nilbytes", "nbytes", "nbytes", "nil", "nil"}
		}
		sp.vk = rapid.SampledFrom(vks).Draw(t, "valueKind")
	} else {
		keyW := []int{0, 0, 0, 0, 0, 1, 1, 2, -1}
		sp.key = rapid.SampledFrom(keyW).Draw(t, "pubKey")
		if sp.key >= len(m.keys) {
			sp.key = 0
		}
		vks := []string{"int", "int", "int", "int", "nil", "nil", "nil", "string", "err", "perr", "ptr", "nilptr", "bytes", "nilbytes", "nbytes", "nilperr", "myint"}
		sp.vk = rapid.SampledFrom(vks).Draw(t, "valueKind")
	}
	kinds := []string{"nil", "nil", "nil", "live", "live", "dead"}
	if !allowDead {
		kinds = kinds[:5]
	}
	sp.ctxKind = rapid.SampledFrom(kinds).Draw(t, "pubCtx")
	if sp.vk == "nil" && vkit.Known(m.st, "C15/publish-nil-panic") {
		m.st.Exclude("nil-valued publish (known finding C15/publish-nil-panic)")
		sp.vk = "int"
	}
	return sp
}

// admissible refuses publish shapes whose outcome the model could not attribute.
func (m *c15Machine) admissible(sp c15PubSpec, others []*c15Pub) bool {
	if c15NilIsh(sp.vk) {
		for _, q := range others {
			if c15NilIsh(q.vk) {
				m.st.Exclude("two nil-like publishes in flight (values indistinguishable)")
				return false
			}
		}
	}
	for _, s := range m.eligible(sp.key, sp.vk) {
		if s.ch.cap == 1 && len(s.ch.buf) == 1 && len(m.pendingOn(s.ch, others)) > 0 {
			m.st.Exclude("second publisher parked on a full buffered target (hidden order)")
			return false
		}
	}
	return true
}

// launchPub launches the call; queue = it parks on the read lock behind a writer.
func (m *c15Machine) launchPub(t *rapid.T, sp c15PubSpec, queue bool) *c15Pub {
	m.nextVal++
	p := &c15Pub{id: m.nextVal, key: sp.key, vk: sp.vk, ctxKind: sp.ctxKind, queued: queue}
	p.val = c15MakeValue(sp.vk, p.id)
	switch sp.ctxKind {
	case "live":
		p.ctx, p.cancel = context.WithCancel(context.Background())
	case "dead":
		p.ctx, p.cancel = context.WithCancel(context.Background())
		p.cancel()
		p.cancelled = true
	}
	p.plain = sp.ctxKind == "nil" && rapid.Bool().Draw(t, "plainPublish")
	plain, n, key, val, ctx := p.plain, m.n, m.keyOf(sp.key), p.val, p.ctx
	if len(m.inflight) > 0 {
		m.class("concurrent-publishes")
	}
	p.op = m.launch("publish", func() any {
		if plain {
			n.Publish(key, val)
		} else {
			n.PublishContext(ctx, key, val)
		}
		return nil
	})
	m.pubs = append(m.pubs, p)
	if queue {
		m.queued = append(m.queued, p)
		m.class("publish-queued-behind-writer")
		m.tr("%s=publish(%s,%s,ctx=%s) queued behind the parked writer", p, m.keyName(sp.key), c15Render(p.val), sp.ctxKind)
	} else {
		m.beginPub(p)
	}
	return p
}

// beginPub: the publish has the read lock: its eligible set is fixed now, and what needs no help from the
// harness (sends into free buffers) happens.
func (m *c15Machine) beginPub(p *c15Pub) {
	p.snapshot = m.snapshotFor(p.key, p.vk)
	for _, s := range m.eligible(p.key, p.vk) {
		mb := &c15Member{sub: s}
		switch {
		case p.cancelled:
			mb.state = c15Abandoned
		case s.ch.cap == 1 && len(s.ch.buf) == 0:
			s.ch.buf = append(s.ch.buf, c15Deliv{p, c15Expect(p.vk, p.val, s.ch.elem)})
			mb.state = c15Delivered
		}
		p.members = append(p.members, mb)
	}
	if len(p.members) > m.maxE {
		m.maxE = len(p.members)
	}
	if p.vk == "nil" {
		m.class("nil-publish")
		if len(p.members) > 0 {
			m.ntNil = true
			m.class("nil-publish-E>=1")
		}
	} else if c15NilIsh(p.vk) && len(p.members) > 0 {
		m.class("typed-nil-publish-E>=1")
	}
	if m.panicSince {
		m.class("publish-after-registry-panic")
		m.panicSince = false
	}
	m.inflight = append(m.inflight, p)
	var names []string
	for _, mb := range p.members {
		names = append(names, fmt.Sprintf("ch%d", mb.sub.ch.id))
	}
	if p.queued {
		p.queued = false
		m.tr("%s starts E={%s}", p, strings.Join(names, ","))
	} else {
		m.tr("%s=publish(%s,%s,ctx=%s) E={%s}", p, m.keyName(p.key), c15Render(p.val), p.ctxKind, strings.Join(names, ","))
	}
}

// unfinishedWriters: registry calls (and SubscribeCancel goroutines) parked behind the in-flight publishes.
func (m *c15Machine) parkedWriters() int {
	if len(m.inflight) == 0 {
		return 0
	}
	return len(m.writers) + m.anon()
}

func (m *c15Machine) rulePublish(t *rapid.T) {
	if len(m.inflight) >= 2 && m.parkedWriters() == 0 {
		t.Skip("two publishes in flight")
	}
	pw := m.parkedWriters()
	sp := m.drawPubSpec(t, pw == 0)
	if pw > 0 {
		// sync.RWMutex: it parks behind the writer, and starts when the writer is through. With several
		// writers parked the order among them is not determined, so only one is allowed here.
		if pw != 1 || len(m.queued) > 0 {
			m.st.Exclude("publish behind more than one parked writer / second queued publish")
			t.Skip("inadmissible")
		}
		if c15NilIsh(sp.vk) {
			for _, q := range m.inflight {
				if c15NilIsh(q.vk) {
					m.st.Exclude("two nil-like publishes in flight (values indistinguishable)")
					t.Skip("inadmissible")
				}
			}
		}
		m.launchPub(t, sp, true)
		m.settle()
		return
	}
	if !m.admissible(sp, m.inflight) {
		t.Skip("inadmissible")
	}
	concurrent := len(m.inflight) > 0
	p := m.launchPub(t, sp, false)
	if concurrent {
		// publishes must not exclude each other: if this one parked on the mutex, synctest.Wait would stall
		m.quiesce()
	} else {
		synctest.Wait()
	}
	if p.cancelled {
		// an already cancelled publish context: Publish returns; ready (buffered) eligible targets may or
		// may not have been sent the value first (the statement does not say): adopt what happened
		for _, mb := range p.members {
			if x := mb.sub.ch; x.cap == 1 && len(x.buf) == 0 && x.rv.Len() == 1 {
				x.buf = append(x.buf, c15Deliv{p, c15Expect(p.vk, p.val, x.elem)})
				mb.state = c15Delivered
			}
		}
	}
	m.check()
}

// noteCancel marks the members killed by a context cancellation (and the non-trivial shape).
func (m *c15Machine) noteCancel(pubs []*c15Pub) {
	for _, p := range pubs {
		n := 0
		for _, mb := range p.members {
			if mb.state == c15Pending && mb.sub.dead() {
				mb.state = c15Cancelled
				n++
			}
		}
		if n > 0 && len(p.members) >= 3 && p.pendingCount() >= 2 {
			p.midCancel = true
		}
		if n >= 2 {
			m.class("shared-ctx-cancel-removes>=2")
		}
	}
}

// receiveOn performs the non-blocking receive on a target the model expects a value on.
func (m *c15Machine) receiveOn(x *c15Chan) {
	v, ok := x.rv.TryRecv()
	if !ok {
		m.fail("C15/missed-delivery", "%s: nothing to receive although the model expects a value (buffered=%d, publishers pending=%d)", x, len(x.buf), len(m.pendingOn(x, m.inflight)))
	}
	m.accept(x, v.Interface(), m.inflight)
}

// accept books a received value.
func (m *c15Machine) accept(x *c15Chan, got any, pubs []*c15Pub) *c15Pub {
	if len(x.buf) > 0 {
		d := x.buf[0]
		if !c15Same(d.val, got) {
			m.fail("C15/wrong-value", "%s received %s, expected %s (buffered by %s)", x, c15Render(got), c15Render(d.val), d.pub)
		}
		x.buf = x.buf[1:]
		m.tr("recv(ch%d)=%s", x.id, c15Render(got))
		if pend := m.pendingOn(x, pubs); len(pend) > 0 {
			// the publisher parked on the full buffer moves in
			p := pend[0]
			x.buf = append(x.buf, c15Deliv{p, c15Expect(p.vk, p.val, x.elem)})
			p.member(x).state = c15Delivered
			m.class("buffered-target-blocked-publisher")
			m.noteProgress(p)
			return p
		}
		return d.pub
	}
	for _, p := range m.pendingOn(x, pubs) {
		if c15Same(c15Expect(p.vk, p.val, x.elem), got) {
			p.member(x).state = c15Delivered
			m.tr("recv(ch%d)=%s", x.id, c15Render(got))
			m.noteProgress(p)
			return p
		}
	}
	m.failUnexpected(x, got)
	return nil
}

func (m *c15Machine) noteProgress(p *c15Pub) {
	if p.midCancel {
		// a middle context-guarded member was cancelled while others were pending, and they still get served
		m.ntMid = true
		m.class("mid-cancel-then-delivery")
	}
}

func (m *c15Machine) ruleReceive(t *rapid.T) {
	var cands []*c15Chan
	for _, x := range m.chans {
		if len(x.buf) > 0 || len(m.pendingOn(x, m.inflight)) > 0 {
			cands = append(cands, x)
		}
	}
	if len(cands) == 0 {
		t.Skip("nothing to receive")
	}
	x := cands[rapid.IntRange(0, len(cands)-1).Draw(t, "recvChan")]
	m.receiveOn(x)
	m.settle()
}

func (m *c15Machine) scChildrenRegistered(c *c15Ctx) bool {
	for _, s := range m.subs {
		if s.registered && s.kind == "sc" && s.ctx == c {
			return true
		}
	}
	return false
}

// scChildBusy: a registry call is parked for the pair of a SubscribeCancel subscription derived from c.
func (m *c15Machine) scChildBusy(c *c15Ctx) bool {
	for _, s := range m.subs {
		if s.registered && s.kind == "sc" && s.ctx == c && m.pairBusy(s.key, s.ch) {
			return true
		}
	}
	return false
}

// cancellable lists the live contexts that may be cancelled now, and those among them that guard a pending member.
func (m *c15Machine) cancellable() (cands, hot []*c15Ctx) {
	for _, c := range m.ctxs {
		// cancelling the parent of SubscribeCancel subscriptions parks their goroutines behind the publishes
		if !c.cancelled && !(len(m.inflight) > 0 && m.scChildrenRegistered(c) && (len(m.queued) > 0 || m.scChildBusy(c))) {
			cands = append(cands, c)
		}
	}
	for _, c := range cands {
		for _, p := range m.inflight {
			for _, mb := range p.members {
				if mb.state == c15Pending && mb.sub.kind == "live" && mb.sub.ctx == c {
					hot = append(hot, c)
				}
			}
		}
	}
	return
}

func (m *c15Machine) cancelCtx(c *c15Ctx) {
	if len(m.inflight) > 0 && m.scChildrenRegistered(c) {
		m.class("parked:sc-unsubscribe")
	}
	c.cancelled = true
	c.cancel()
	m.tr("cancel(c%d)", c.id)
	m.noteCancel(m.inflight)
	m.settle()
}

func (m *c15Machine) ruleCancelCtx(t *rapid.T) {
	cands, hot := m.cancellable()
	if len(cands) == 0 {
		t.Skip("no live context")
	}
	if len(m.inflight) == 0 && rapid.IntRange(0, 3).Draw(t, "coldCancel") != 0 {
		t.Skip("nothing in flight")
	}
	// prefer contexts that guard a pending member
	if len(hot) > 0 && rapid.IntRange(0, 3).Draw(t, "hotCtx") != 0 {
		cands = hot
	}
	m.cancelCtx(cands[rapid.IntRange(0, len(cands)-1).Draw(t, "ctx")])
}

func (m *c15Machine) ruleCancelPublish(t *rapid.T) {
	var cands []*c15Pub
	for _, p := range m.inflight {
		if p.ctxKind == "live" && !p.cancelled {
			cands = append(cands, p)
		}
	}
	if len(cands) == 0 {
		t.Skip("no cancellable publish")
	}
	p := cands[rapid.IntRange(0, len(cands)-1).Draw(t, "pub")]
	m.cancelPub(p)
	m.settle()
}

func (m *c15Machine) cancelPub(p *c15Pub) {
	p.cancelled = true
	p.cancel()
	for _, mb := range p.members {
		if mb.state == c15Pending {
			mb.state = c15Abandoned
			m.class("publish-ctx-cancelled-with-pending")
		}
	}
	m.tr("cancelPublish(%s)", p)
}

// ---- registry operations

func (m *c15Machine) newCtx(cancelled bool) *c15Ctx {
	c := &c15Ctx{id: len(m.ctxs)}
	c.ctx, c.cancel = context.WithCancel(context.Background())
	if cancelled {
		c.cancel()
		c.cancelled = true
	}
	m.ctxs = append(m.ctxs, c)
	return c
}

func (m *c15Machine) drawCtx(t *rapid.T, wantCancelled bool) *c15Ctx {
	var pool []*c15Ctx
	for _, c := range m.ctxs {
		if c.cancelled == wantCancelled {
			pool = append(pool, c)
		}
	}
	if len(pool) > 0 && (len(m.ctxs) >= 6 || rapid.IntRange(0, 2).Draw(t, "shareCtx") == 0) {
		return pool[rapid.IntRange(0, len(pool)-1).Draw(t, "ctxOf")]
	}
	return m.newCtx(wantCancelled)
}

func (m *c15Machine) drawKeyIdx(t *rapid.T) int {
	k := rapid.SampledFrom([]int{0, 0, 0, 0, 0, 0, 1, 1, 2}).Draw(t, "key")
	if m.focus && k == 2 {
		k = 0
	}
	if k >= len(m.keys) {
		k = 0
	}
	return k
}

// drawNewSub draws a subscription for a (key, channel) pair that is not registered; nil if there is none.
func (m *c15Machine) drawNewSub(t *rapid.T) *c15Sub {
	key := m.drawKeyIdx(t)
	var free []*c15Chan
	for _, x := range m.chans {
		if m.findSub(key, x) == nil {
			free = append(free, x)
		}
	}
	if len(free) == 0 {
		return nil
	}
	s := &c15Sub{id: len(m.subs), key: key}
	s.ch = free[rapid.IntRange(0, len(free)-1).Draw(t, "subChan")]
	switch rapid.SampledFrom([]string{"nil", "nil", "live", "live", "live", "live", "live", "dead", "sc", "sc"}).Draw(t, "subCtx") {
	case "nil":
		s.kind = "nil"
	case "live":
		s.kind, s.ctx = "live", m.drawCtx(t, false)
	case "dead":
		s.kind, s.ctx = "live", m.drawCtx(t, true)
	case "sc":
		s.kind = "sc"
		switch rapid.IntRange(0, 3).Draw(t, "scParent") {
		case 0:
			s.ctx = m.drawCtx(t, false)
		case 1:
			s.ctx = m.drawCtx(t, true)
		}
	}
	return s
}

func (s *c15Sub) render(m *c15Machine) string {
	ctx := s.kind
	if s.ctx != nil {
		ctx = fmt.Sprintf("%s:c%d", s.kind, s.ctx.id)
		if s.ctx.cancelled {
			ctx += "(cancelled)"
		}
	}
	return fmt.Sprintf("%s,%s,ctx=%s", m.keyName(s.key), s.ch, ctx)
}

// subscribeCall returns the library call that registers s.
func (m *c15Machine) subscribeCall(t *rapid.T, s *c15Sub) func() any {
	n, key, tgt := m.n, m.keyOf(s.key), m.target(t, s.ch)
	switch s.kind {
	case "nil":
		switch rapid.IntRange(0, 3).Draw(t, "plainSubscribe") {
		case 0:
			return func() any { n.Subscribe(key, tgt); return nil }
		case 1:
			// a context that is not nil but can never be cancelled (no Done channel) is as good as none
			return func() any { n.SubscribeContext(context.Background(), key, tgt); return nil }
		case 2:
			return func() any {
				n.SubscribeContext(context.WithValue(context.Background(), c15MyInt(1), 1), key, tgt)
				return nil
			}
		}
		return func() any { n.SubscribeContext(nil, key, tgt); return nil }
	case "live":
		ctx := s.ctx.ctx
		return func() any { n.SubscribeContext(ctx, key, tgt); return nil }
	default:
		var parent context.Context
		if s.ctx != nil {
			parent = s.ctx.ctx
		}
		return func() any {
			s.scCancel = n.SubscribeCancel(parent, key, tgt)
			return nil
		}
	}
}

func (m *c15Machine) subscribed(s *c15Sub, pv any) {
	if pv != nil {
		m.fail("C15/subscribe-panic", "subscribe(%s) panicked although no subscription exists for that key and target: %v", s.render(m), pv)
	}
	s.registered = true
	m.tr("subscribe(%s)", s.render(m))
	if s.kind == "sc" {
		m.class("subscribe-cancel")
	}
}

// pairBusy: a registry call for that (key, target) pair is parked (or a SubscribeCancel goroutine may be):
// a second call for the same pair would make the outcome depend on the order among the parked writers.
func (m *c15Machine) pairBusy(key int, x *c15Chan) bool {
	for _, w := range m.writers {
		if w.key == key && w.ch == x {
			return true
		}
	}
	for _, s := range m.subs {
		if s.registered && s.kind == "sc" && s.dead() && s.key == key && s.ch == x {
			return true
		}
	}
	return false
}

// runWriter launches a registry call. With a publish in flight it parks on the mutex until every publish
// that holds the read lock has returned; check() applies its effect when it has returned.
func (m *c15Machine) runWriter(w *c15Writer, call func() any) {
	if len(m.inflight) > 0 {
		m.class("parked:" + w.kind)
		m.tr("%s...", w.desc)
	}
	w.op = m.launch(w.kind, call)
	m.writers = append(m.writers, w)
	m.settle()
}

func (m *c15Machine) writerAllowed(t *rapid.T) {
	if len(m.queued) > 0 {
		t.Skip("a publish is queued behind the parked writer")
	}
	if len(m.inflight) > 0 && rapid.IntRange(0, 2).Draw(t, "parkWriter") != 0 {
		t.Skip("not now")
	}
}

func (m *c15Machine) ruleSubscribe(t *rapid.T) {
	m.writerAllowed(t)
	s := m.drawNewSub(t)
	if s == nil || m.pairBusy(s.key, s.ch) {
		t.Skip("no free pair")
	}
	call := m.subscribeCall(t, s)
	m.subs = append(m.subs, s)
	m.runWriter(&c15Writer{kind: "subscribe", sub: s, key: s.key, ch: s.ch, desc: "subscribe(" + s.render(m) + ")"}, call)
}

func (m *c15Machine) pickSub(t *rapid.T, label string, ok func(*c15Sub) bool) *c15Sub {
	var cands []*c15Sub
	for _, s := range m.subs {
		if s.registered && ok(s) && !m.pairBusy(s.key, s.ch) {
			cands = append(cands, s)
		}
	}
	if len(cands) == 0 {
		return nil
	}
	return cands[rapid.IntRange(0, len(cands)-1).Draw(t, label)]
}

// dupCall: a second subscription for an existing (key, target) pair, in any flavour.
func (m *c15Machine) dupCall(t *rapid.T, s *c15Sub) (func() any, string) {
	d := &c15Sub{key: s.key, ch: s.ch}
	switch rapid.IntRange(0, 2).Draw(t, "dupFlavour") {
	case 0:
		d.kind = "nil"
	case 1:
		d.kind, d.ctx = "live", m.drawCtx(t, false)
	default:
		d.kind = "sc"
	}
	call := m.subscribeCall(t, d)
	return func() any {
		defer func() {
			if d.scCancel != nil {
				d.scCancel() // it did not panic: do not leave its goroutine behind
			}
		}()
		return call()
	}, d.kind
}

func (m *c15Machine) checkDup(s *c15Sub, flavour string, pv any) {
	m.tr("dupSubscribe(%s as %s)=panic:%v", s.render(m), flavour, pv != nil)
	if pv == nil {
		m.fail("C15/duplicate-subscribe-no-panic", "a second subscribe for the existing pair (%s) did not panic", s.render(m))
	}
	m.panicSince = true
	m.class("duplicate-subscribe")
}

func (m *c15Machine) ruleDupSubscribe(t *rapid.T) {
	m.writerAllowed(t)
	s := m.pickSub(t, "dupOf", func(*c15Sub) bool { return true })
	if s == nil {
		t.Skip("no subscription")
	}
	call, flavour := m.dupCall(t, s)
	m.runWriter(&c15Writer{kind: "dup-subscribe", sub: s, flavour: flavour, key: s.key, ch: s.ch, desc: "dupSubscribe(" + s.render(m) + ")"}, call)
}

func (m *c15Machine) unsubscribeCall(t *rapid.T, key int, x *c15Chan) func() any {
	n, k, tgt := m.n, m.keyOf(key), m.target(t, x)
	return func() any { n.Unsubscribe(k, tgt); return nil }
}

func (m *c15Machine) unsubscribed(s *c15Sub, pv any) {
	if pv != nil {
		m.fail("C15/unsubscribe-panic", "Unsubscribe(%s) of a registered subscription panicked: %v", s.render(m), pv)
	}
	s.registered = false
	m.tr("unsubscribe(%s)", s.render(m))
	m.class("unsubscribe")
}

func (m *c15Machine) ruleUnsubscribe(t *rapid.T) {
	m.writerAllowed(t)
	// a SubscribeCancel subscription is unsubscribed by its own goroutine (a second Unsubscribe would
	// panic in that goroutine): never by the harness
	s := m.pickSub(t, "unsubOf", func(s *c15Sub) bool { return s.kind != "sc" })
	if s == nil {
		t.Skip("no subscription")
	}
	call := m.unsubscribeCall(t, s.key, s.ch)
	m.runWriter(&c15Writer{kind: "unsubscribe", sub: s, key: s.key, ch: s.ch, desc: "unsubscribe(" + s.render(m) + ")"}, call)
}

// drawUnmatched draws a (key, channel) pair without a registered subscription.
func (m *c15Machine) drawUnmatched(t *rapid.T) (int, *c15Chan, bool) {
	key := rapid.SampledFrom([]int{0, 0, 0, 1, 2, -1}).Draw(t, "umKey")
	if key >= len(m.keys) {
		key = 0
	}
	x := m.chans[rapid.IntRange(0, len(m.chans)-1).Draw(t, "umChan")]
	return key, x, m.findSub(key, x) == nil
}

func (m *c15Machine) checkUnmatched(key int, x *c15Chan, pv any) {
	m.tr("unmatchedUnsubscribe(%s,%s)=panic:%v", m.keyName(key), x, pv != nil)
	if pv == nil {
		m.fail("C15/unmatched-unsubscribe-no-panic", "Unsubscribe(%s,%s) without a matching subscription did not panic", m.keyName(key), x)
	}
	m.panicSince = true
	m.class("unmatched-unsubscribe")
}

func (m *c15Machine) ruleUnmatchedUnsubscribe(t *rapid.T) {
	m.writerAllowed(t)
	key, x, ok := m.drawUnmatched(t)
	if !ok || m.pairBusy(key, x) {
		t.Skip("pair is registered")
	}
	call := m.unsubscribeCall(t, key, x)
	m.runWriter(&c15Writer{kind: "unmatched-unsubscribe", key: key, ch: x, desc: fmt.Sprintf("unmatchedUnsubscribe(%s,%s)", m.keyName(key), x)}, call)
}

func (m *c15Machine) ruleScCancel(t *rapid.T) {
	m.writerAllowed(t)
	s := m.pickSub(t, "scOf", func(s *c15Sub) bool { return s.kind == "sc" && !s.dead() })
	if s == nil {
		t.Skip("no SubscribeCancel subscription")
	}
	if len(m.inflight) > 0 {
		m.class("parked:sc-unsubscribe")
	}
	s.scCancelled = true
	s.scCancel()
	m.tr("scCancel(%s)", s.render(m))
	m.noteCancel(m.inflight)
	m.settle()
}

// ---- driver

var c15KeyPool = []struct {
	name string
	key  any
}{
	{`"a"`, "a"},
	{"7", 7},
	{"int64(7)", int64(7)},
	{"struct{1,x}", c15Key{1, "x"}},
	{"nilkey", nil},
	{`"7"`, "7"},
}

func c15Run(t *rapid.T, st *vkit.Stats) {
	m := &c15Machine{t: t, st: st, n: new(bigbuff.Notifier), cls: map[string]bool{}}
	vkit.CaseStart(func() string { return strings.Join(m.trace, " ; ") })
	defer func() {
		if !m.done {
			// failed, or aborted by rapid: let the bubble end
			if r := recover(); r != nil {
				m.emergency()
				panic(r)
			}
			m.emergency()
		}
	}()

	m.focus = rapid.IntRange(0, 3).Draw(t, "focus") != 0
	nKeys := rapid.SampledFrom([]int{1, 1, 2, 2, 3}).Draw(t, "nKeys")
	if m.focus && nKeys == 3 {
		nKeys = 1
	}
	first := rapid.IntRange(0, len(c15KeyPool)-1).Draw(t, "firstKey")
	for i := 0; i < nKeys; i++ {
		k := c15KeyPool[(first+i)%len(c15KeyPool)]
		m.keys, m.keyNames = append(m.keys, k.key), append(m.keyNames, k.name)
	}
	nChans := rapid.IntRange(2, 6).Draw(t, "nChans")
	elems := []string{"any", "any", "any", "int", "int", "int", "string", "error", "error", "ptr", "ptr", "bytes"}
	if m.focus {
		elems = []string{"any", "any", "any", "int", "int", "int", "ptr"}
		if nChans < 3 {
			nChans = 3
		}
	}
	for i := 0; i < nChans; i++ {
		x := &c15Chan{id: i}
		x.elem = rapid.SampledFrom(elems).Draw(t, "elem")
		x.cap = rapid.SampledFrom([]int{0, 0, 0, 1}).Draw(t, "cap")
		x.rv = reflect.MakeChan(reflect.ChanOf(reflect.BothDir, c15ElemTypes[x.elem]), x.cap)
		m.chans = append(m.chans, x)
	}
	var cs []string
	for _, x := range m.chans {
		cs = append(cs, x.String())
	}
	m.tr("keys=%s chans=%s", strings.Join(m.keyNames, ","), strings.Join(cs, ","))

	n0 := rapid.IntRange(0, 6).Draw(t, "initialSubs")
	if m.focus && n0 < 4 {
		n0 += 3
	}
	for i := 0; i < n0; i++ {
		s := m.drawNewSub(t)
		if s == nil {
			break
		}
		call := m.subscribeCall(t, s)
		m.subs = append(m.subs, s)
		m.runWriter(&c15Writer{kind: "subscribe", sub: s, key: s.key, ch: s.ch, desc: "subscribe(" + s.render(m) + ")"}, call)
	}

	// opening moves (so that short cases are not empty): a publish, and a cancellation under it
	if len(m.subs) > 0 && rapid.IntRange(0, 3).Draw(t, "openingPublish") != 0 {
		m.rulePublish(t)
		if _, hot := m.cancellable(); len(hot) > 0 && rapid.Bool().Draw(t, "openingCancel") {
			m.cancelCtx(hot[rapid.IntRange(0, len(hot)-1).Draw(t, "ctx")])
		}
	}

	w := []struct {
		name string
		n    int
		f    func(*rapid.T)
	}{
		{"publish", 7, m.rulePublish},
		{"receive", 7, m.ruleReceive},
		{"cancelCtx", 6, m.ruleCancelCtx},
		{"cancelPublish", 1, m.ruleCancelPublish},
		{"subscribe", 2, m.ruleSubscribe},
		{"dupSubscribe", 1, m.ruleDupSubscribe},
		{"unsubscribe", 1, m.ruleUnsubscribe},
		{"unmatchedUnsubscribe", 1, m.ruleUnmatchedUnsubscribe},
		{"scCancel", 1, m.ruleScCancel},
	}
	actions := map[string]func(*rapid.T){}
	for _, a := range w {
		for i := 0; i < a.n; i++ {
			actions[fmt.Sprintf("%s~%d", a.name, i)] = a.f
		}
	}
	t.Repeat(vkit.NoStarve(actions, nil))

	// ---- teardown: serve every pending member, then take the registry apart
	m.tr("teardown")
	for len(m.inflight) > 0 { // (parked writers and queued publishes proceed as the holders return)
		var x *c15Chan
		for _, mb := range m.inflight[0].members {
			if mb.state == c15Pending {
				x = mb.sub.ch
				break
			}
		}
		if x == nil {
			panic("harness: in-flight publish without a pending member after a settle")
		}
		m.receiveOn(x)
		m.settle()
	}
	for _, s := range m.subs {
		if s.kind == "sc" && s.scCancel != nil {
			s.scCancelled = true
			s.scCancel()
		}
	}
	m.settle()
	for _, s := range m.subs {
		if s.registered {
			if s.kind == "sc" {
				m.fail("C15/harness", "SubscribeCancel subscription still registered in the model")
			}
			_, pv := vkit.Call(func() any { m.n.Unsubscribe(m.keyOf(s.key), s.ch.rv.Interface()); return nil })
			if pv != nil {
				m.unsubscribed(s, pv)
			}
			s.registered = false
		}
	}
	for _, x := range m.chans {
		for len(x.buf) > 0 {
			m.receiveOn(x)
		}
	}
	// after Unsubscribe returned nobody receives anything from later publishes
	for i := range m.keys {
		for _, vk := range []string{"int", "ptr"} {
			p := m.launchPub(t, c15PubSpec{key: i, vk: vk, ctxKind: "nil"}, false)
			synctest.Wait()
			if !p.op.Finished() {
				m.fail("C15/publish-stuck", "%s blocked although every subscription was unsubscribed", p)
			}
			m.check()
		}
	}
	for _, c := range m.ctxs {
		c.cancel()
	}
	for _, p := range m.pubs {
		if p.cancel != nil {
			p.cancel()
		}
	}
	time.Sleep(time.Hour)
	synctest.Wait()
	if left := vkit.BubbleOthers(); len(left) != 0 {
		m.fail("C15/goroutine-leak", "%d goroutine(s) alive after everything was unsubscribed and cancelled:\n%s", len(left), vkit.DescribeGoroutines(left))
	}
	m.done = true

	e := "E:3+"
	if m.maxE < 3 {
		e = fmt.Sprintf("E:%d", m.maxE)
	}
	cls := append([]string{e}, m.clsOrder...)
	for _, p := range m.pubs {
		if p.midCancel {
			cls = append(cls, "mid-cancel")
			break
		}
	}
	if m.ntMid {
		cls = append(cls, "NT:mid-cancel")
	}
	if m.ntNil {
		cls = append(cls, "NT:nil-publish")
	}
	st.Case(m.trace, m.ntMid || m.ntNil, cls...)
}

func TestC15Notifier(t *testing.T) {
	st := vkit.For("c15_notifier")
	rapid.Check(t, func(t *rapid.T) {
		rapid.SyncTest(t, func(t *rapid.T) {
			c15Run(t, st)
		})
	})
}
