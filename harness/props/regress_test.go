package props

// Replay tier: every violation that a generated search of this framework found on the pinned tree (and that was then
// repaired by a "fix:" commit in /repo) is kept here as a plain, deterministic regression check that bypasses rapid.
// The cases are the shrunk reproductions; they run in well under a second as one job of the owning property's check
// (selected by VKIT_PROFILE), so the defect is reported again at once if it ever returns, whatever the generators do.
//
// (The C04 lost re-broadcast is schedule dependent and stays with the directed window probe TestC04Probe; the C08
// known findings have their own deterministic probes in the misuse engine.)

import (
	"context"
	"errors"
	"fmt"
	"os"
	"sync"
	"testing"
	"time"

	bigbuff "github.com/joeycumines/go-bigbuff"

	"verif/harness/vkit"
)

type regressCase struct {
	prop, sig, name string
	run             func() string // "" = holds, else what went wrong
}

func regressGuard(f func() string) (msg string) {
	defer func() {
		if r := recover(); r != nil {
			msg = fmt.Sprintf("panicked: %v", r)
		}
	}()
	return f()
}

var regressCases = []regressCase{
	{"C19", "C19/panic/untyped-nil-arg", "Call(CallArgs(nil)) on func(error): called once with a nil error", func() string {
		calls := 0
		var got error = errors.New("sentinel")
		err := bigbuff.Call(bigbuff.NewCallable(func(e error) { calls++; got = e }), bigbuff.CallArgs(nil))
		if err != nil || calls != 1 || got != nil {
			return fmt.Sprintf("err=%v calls=%d arg=%v", err, calls, got)
		}
		return ""
	}},
	{"C19", "C19/panic/untyped-nil-arg", "Call(CallArgs(nil)) on func(*int, ...[]byte) variadic positions", func() string {
		calls := 0
		err := bigbuff.Call(bigbuff.NewCallable(func(p *int, rest ...[]byte) {
			calls++
			if p != nil || len(rest) != 2 || rest[0] != nil || rest[1] == nil {
				calls += 100
			}
		}), bigbuff.CallArgs(nil, nil, []byte{1}))
		if err != nil || calls != 1 {
			return fmt.Sprintf("err=%v calls=%d", err, calls)
		}
		return ""
	}},
	{"C19", "C19/panic/untyped-nil-arg", "Call(CallArgs(nil)) on func(int): descriptive error, not called", func() string {
		calls := 0
		err := bigbuff.Call(bigbuff.NewCallable(func(int) { calls++ }), bigbuff.CallArgs(nil))
		if err == nil || calls != 0 {
			return fmt.Sprintf("err=%v calls=%d", err, calls)
		}
		return ""
	}},
	{"C19", "C19/panic/untyped-nil-target", "Call(CallResults(nil)) on func() int: descriptive error, not called", func() string {
		calls := 0
		err := bigbuff.Call(bigbuff.NewCallable(func() int { calls++; return 1 }), bigbuff.CallResults(nil))
		if err == nil || calls != 0 {
			return fmt.Sprintf("err=%v calls=%d", err, calls)
		}
		return ""
	}},
	{"C19", "C19/panic/untyped-nil-target", "Call(CallResults(&a, nil)): error, first target untouched", func() string {
		calls := 0
		a := 7
		err := bigbuff.Call(bigbuff.NewCallable(func() (int, error) { calls++; return 1, nil }), bigbuff.CallResults(&a, nil))
		if err == nil || calls != 0 || a != 7 {
			return fmt.Sprintf("err=%v calls=%d a=%d", err, calls, a)
		}
		return ""
	}},
	{"C19", "C19/panic/many-args", "Call(CallArgs(129 ints)) on func(...int): no panic; a call with exactly those arguments, or an error without a call", func() string {
		args := make([]any, 129)
		for i := range args {
			args[i] = i
		}
		calls, got := 0, -1
		err := bigbuff.Call(bigbuff.NewCallable(func(xs ...int) { calls++; got = len(xs) }), bigbuff.CallArgs(args...))
		if (err == nil && (calls != 1 || got != 129)) || (err != nil && calls != 0) {
			return fmt.Sprintf("err=%v calls=%d received=%d", err, calls, got)
		}
		return ""
	}},
	{"C15", "C15/publish-nil-panic", "Publish(key, nil) reaches a chan error subscriber as a nil error and skips a chan int one", func() string {
		var n bigbuff.Notifier
		ce := make(chan error, 1)
		ci := make(chan int, 1)
		n.Subscribe("k", ce)
		n.Subscribe("k", ci)
		defer n.Unsubscribe("k", ce)
		defer n.Unsubscribe("k", ci)
		ctx, cancel := context.WithTimeout(context.Background(), 10*time.Second)
		defer cancel()
		n.PublishContext(ctx, "k", nil)
		select {
		case v := <-ce:
			if v != nil {
				return fmt.Sprintf("received %v", v)
			}
		default:
			return "the chan error subscription received nothing"
		}
		select {
		case v := <-ci:
			return fmt.Sprintf("the chan int subscription received %v", v)
		default:
		}
		return ""
	}},
	{"C11", "C11/race/Buffer.SetCleanerConfig~Buffer.ensure", "SetCleanerConfig concurrent with calls that run the lazy initialiser (after the first call completed)", func() string {
		// under -race a report with a library frame is the verdict (parsed by the driver); without -race this is a smoke test
		b := new(bigbuff.Buffer)
		_ = b.Size() // the first call completes before the Buffer is shared
		var wg sync.WaitGroup
		for g := 0; g < 2; g++ {
			wg.Add(2)
			go func() {
				defer wg.Done()
				for i := 0; i < 300; i++ {
					b.SetCleanerConfig(bigbuff.CleanerConfig{Cleaner: bigbuff.DefaultCleaner, Cooldown: time.Duration(i+1) * time.Microsecond})
				}
			}()
			go func() {
				defer wg.Done()
				for i := 0; i < 300; i++ {
					_ = b.Size()
					_ = b.CleanerConfig()
					_ = b.Put(nil, i)
				}
			}()
		}
		wg.Wait()
		if err := b.Close(); err != nil {
			return fmt.Sprintf("Close: %v", err)
		}
		return ""
	}},
}

func TestRegress(t *testing.T) {
	prof := os.Getenv("VKIT_PROFILE")
	st := vkit.For("regress_" + prof)
	for _, c := range regressCases {
		if prof != "" && c.prop != prof {
			continue
		}
		vkit.CaseStart(func() string { return c.name })
		if msg := regressGuard(c.run); msg != "" {
			vkit.Announce(c.sig, "regression of a repaired defect — %s: %s", c.name, msg)
			t.Errorf("[%s] %s: %s", c.sig, c.name, msg)
			continue
		}
		st.Case([]string{c.name}, true, "regress:"+c.sig)
	}
}
