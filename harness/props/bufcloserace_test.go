package props

// bufcloserace — a race lane for Buffer.Close against operations in flight (C12): many rounds, each with a fresh
// Buffer, in which a reader loops Get+Commit (values partly available, partly not), a writer loops Put, an observer
// polls Size/Slice/Diff, and Close is called at a sweeping spin offset. Whatever the instant: Close returns (the
// reader resolves every read at once, so nothing is left uncommitted for long), Done is closed, the consumer is
// closed too, every later Put/NewConsumer/Get/Commit returns an error without blocking, a second Close returns an
// error, the contents stay readable, and the goroutines of the round end. A hang is the stall watchdog's business.

import (
	"context"
	"fmt"
	"runtime"
	"strings"
	"sync"
	"sync/atomic"
	"testing"

	bigbuff "github.com/joeycumines/go-bigbuff"
	"pgregory.net/rapid"

	"verif/harness/vkit"
)

func TestBufCloseRace(t *testing.T) {
	st := vkit.For("bufcloserace")
	rapid.Check(t, func(t *rapid.T) {
		rounds := rapid.SampledFrom([]int{60, 200, 500}).Draw(t, "rounds")
		prefill := rapid.IntRange(0, 6).Draw(t, "prefill")
		writer := rapid.Bool().Draw(t, "writer")
		observer := rapid.Bool().Draw(t, "observer")
		off := rapid.IntRange(0, 255).Draw(t, "offset")
		trace := []string{fmt.Sprintf("rounds=%d prefill=%d writer=%v observer=%v offset=%d", rounds, prefill, writer, observer, off)}
		vkit.CaseStart(func() string { return strings.Join(trace, " ; ") })
		// Close as the very first call on a zero-value Buffer (a deferred Close of a buffer that ended up unused), with the
		// follow-up calls in a drawn order
		{
			b := new(bigbuff.Buffer)
			order := rapid.Permutation([]string{"done", "put", "newconsumer", "close2", "size"}).Draw(t, "afterFirstClose")
			if err := b.Close(); err != nil {
				vkit.Fail(t, "C12/close-error", "Close as the first call on a zero-value Buffer returned %v\ncase: %v", err, trace)
			}
			for _, what := range order {
				switch what {
				case "done":
					<-b.Done() // must be closed (a Done that stays open is a stall, reported by the watchdog)
				case "put":
					if b.Put(context.Background(), 1) == nil {
						vkit.Fail(t, "C12+C01/put-accepted", "Put after Close (first call on the Buffer) returned nil; order %v\ncase: %v", order, trace)
					}
				case "newconsumer":
					if _, err := b.NewConsumer(); err == nil {
						vkit.Fail(t, "C12/newconsumer-after-close", "NewConsumer after Close (first call on the Buffer) returned nil; order %v\ncase: %v", order, trace)
					}
				case "close2":
					if b.Close() == nil {
						vkit.Fail(t, "C12/second-close-nil", "the second Close returned nil; order %v\ncase: %v", order, trace)
					}
				case "size":
					if n := b.Size(); n != 0 {
						vkit.Fail(t, "C12/contents-after-close", "Size()=%d on a Buffer that was closed before anything was put\ncase: %v", n, trace)
					}
				}
			}
		}
		var dummy atomic.Int64
		for r := 0; r < rounds; r++ {
			b := new(bigbuff.Buffer)
			c, err := b.NewConsumer()
			if err != nil {
				t.Fatalf("harness: %v", err)
			}
			for i := 0; i < prefill; i++ {
				_ = b.Put(nil, i)
			}
			var wg sync.WaitGroup
			var stop atomic.Bool
			wg.Add(1)
			go func() { // the reader
				defer wg.Done()
				for {
					if _, err := c.Get(context.Background()); err != nil {
						_ = c.Rollback()
						return
					}
					if err := c.Commit(); err != nil {
						_ = c.Rollback()
						return
					}
				}
			}()
			if writer {
				wg.Add(1)
				go func() {
					defer wg.Done()
					for i := 0; !stop.Load(); i++ {
						if b.Put(context.Background(), 100+i) != nil {
							return
						}
						runtime.Gosched()
					}
				}()
			}
			if observer {
				wg.Add(1)
				go func() {
					defer wg.Done()
					for !stop.Load() {
						_ = b.Size()
						_ = b.Slice()
						_, _ = b.Diff(c)
						runtime.Gosched()
					}
				}()
			}
			for i := (off + r*11) % 400; i > 0; i-- {
				_ = dummy.Load()
			}
			cerr := b.Close() // must return (watchdog otherwise)
			stop.Store(true)
			wg.Wait()
			if cerr != nil {
				vkit.Fail(t, "C12/close-error", "round %d: the first Buffer.Close returned %v\ncase: %v", r, cerr, trace)
			}
			select {
			case <-b.Done():
			default:
				vkit.Fail(t, "C12/done-not-closed", "round %d: Buffer.Done is open after Close returned\ncase: %v", r, trace)
			}
			select {
			case <-c.Done():
			default:
				vkit.Fail(t, "C12/consumer-done-not-closed", "round %d: the consumer's Done is open after Buffer.Close returned\ncase: %v", r, trace)
			}
			if b.Put(context.Background(), -1) == nil {
				vkit.Fail(t, "C12+C01/put-accepted", "round %d: Put after Close returned nil\ncase: %v", r, trace)
			}
			if _, err := b.NewConsumer(); err == nil {
				vkit.Fail(t, "C12/newconsumer-after-close", "round %d: NewConsumer after Close returned nil\ncase: %v", r, trace)
			}
			if _, err := c.Get(context.Background()); err == nil {
				vkit.Fail(t, "C12/get-after-close", "round %d: Get after Close returned a value\ncase: %v", r, trace)
			}
			if b.Close() == nil {
				vkit.Fail(t, "C12/second-close-nil", "round %d: the second Close returned nil\ncase: %v", r, trace)
			}
			_ = b.Slice() // contents stay readable (must not block)
		}
		st.Case(trace, writer || observer, fmt.Sprintf("rounds:%d", rounds))
	})
}
