package props

// c16static — the construction-time and value semantics of the context combinators (C16) without a bubble, so that
// the same engine can be built with the repository's default toolchain as well as with the one the bubble engines
// need: standard-library details the combinators lean on (context.Cause, AfterFunc, propagation through custom
// Context types) differ between Go releases.
//
// Inputs: 0-5 contexts, each a standard cancel context (with values), the background with values, a custom Context
// type with its own Done channel, or a hand-written "detached" wrapper that keeps the values of an already cancelled
// context but is itself never cancelled; a drawn subset is cancelled beforehand; nil entries among CombineContext's
// others, a nil primary. Asserted, all of it independent of any clock:
//   - on return, CombineContext's result is cancelled iff the primary or one of the others already is, and
//     ConflatedContext's iff every input is; they carry the primary's / the first input's values and nobody else's;
//   - cancelling a live input of CombineContext cancels the result (the check blocks on Done: a result that never
//     follows is a stall, reported by the watchdog); cancelling all inputs of ConflatedContext, or calling its cancel
//     function, cancels it, and while one input is still live an Err() sampled right after each cancellation that
//     leaves one live is nil only if … (not asserted: the hand-over is asynchronous);
//   - ChainAfterFunc with an input cancelled beforehand runs its function (waited for), with none cancelled it has
//     not run on return, and cancelling one input afterwards runs it.

import (
	"context"
	"fmt"
	"reflect"
	"runtime"
	"strings"
	"sync"
	"sync/atomic"
	"testing"
	"time"

	bigbuff "github.com/joeycumines/go-bigbuff"
	"pgregory.net/rapid"

	"verif/harness/vkit"
)

type c16sKey int

type c16sCustom struct {
	idx  int
	done chan struct{}
	err  atomic.Value
}

func (c *c16sCustom) Deadline() (time.Time, bool) { return time.Time{}, false }
func (c *c16sCustom) Done() <-chan struct{}       { return c.done }
func (c *c16sCustom) Err() error {
	if e := c.err.Load(); e != nil {
		return e.(error)
	}
	return nil
}
func (c *c16sCustom) Value(k any) any {
	if kk, ok := k.(c16sKey); ok && int(kk) == c.idx {
		return c.idx * 10
	}
	return nil
}
func (c *c16sCustom) cancel() {
	if c.err.CompareAndSwap(nil, context.Canceled) {
		close(c.done)
	}
}

type c16sDetached struct{ inner context.Context }

func (c16sDetached) Deadline() (time.Time, bool) { return time.Time{}, false }
func (c16sDetached) Done() <-chan struct{}       { return nil }
func (c16sDetached) Err() error                  { return nil }
func (c c16sDetached) Value(k any) any           { return c.inner.Value(k) }

// c16sScribble overwrites a variadic argument slice after the call it was passed to has returned: with contexts that
// are already cancelled and with nil, alternately.
func c16sScribble(cs []context.Context) {
	dead, cancel := context.WithCancel(context.Background())
	cancel()
	for i := range cs {
		if i%2 == 0 {
			cs[i] = dead
		} else {
			cs[i] = nil
		}
	}
}

//go:noinline
func c16sDoneOnly(primary, other context.Context) <-chan struct{} {
	return bigbuff.CombineContext(primary, nil, other).Done()
}

// c16sZero — contexts whose dynamic type is a zero-size struct (the value is always the zero value of its type): the
// state lives in a package-level table keyed by the type, as for a process-wide "shutdown" context. Goroutines of the
// context package may look at such a context long after its case has ended, so a type's state is never replaced:
// each of the 48 instantiations is used by at most one case per process.
type c16sZero[T any] struct{}

var c16sZeroStates sync.Map // reflect.Type of T -> *c16sCustom

func (c16sZero[T]) state() *c16sCustom {
	st, _ := c16sZeroStates.Load(reflect.TypeOf((*T)(nil)))
	return st.(*c16sCustom)
}
func (c16sZero[T]) Deadline() (time.Time, bool) { return time.Time{}, false }
func (c c16sZero[T]) Done() <-chan struct{}     { return c.state().Done() }
func (c c16sZero[T]) Err() error                { return c.state().Err() }
func (c c16sZero[T]) Value(k any) any           { return c.state().Value(k) }

func c16sZeroNew[T any](st *c16sCustom) context.Context {
	c16sZeroStates.Store(reflect.TypeOf((*T)(nil)), st)
	return c16sZero[T]{}
}

var c16sZeroMakers = []func(*c16sCustom) context.Context{
	c16sZeroNew[[0]byte],
	c16sZeroNew[[1]byte],
	c16sZeroNew[[2]byte],
	c16sZeroNew[[3]byte],
	c16sZeroNew[[4]byte],
	c16sZeroNew[[5]byte],
	c16sZeroNew[[6]byte],
	c16sZeroNew[[7]byte],
	c16sZeroNew[[8]byte],
	c16sZeroNew[[9]byte],
	c16sZeroNew[[10]byte],
	c16sZeroNew[[11]byte],
	c16sZeroNew[[12]byte],
	c16sZeroNew[[13]byte],
	c16sZeroNew[[14]byte],
	c16sZeroNew[[15]byte],
	c16sZeroNew[[16]byte],
	c16sZeroNew[[17]byte],
	c16sZeroNew[[18]byte],
	c16sZeroNew[[19]byte],
	c16sZeroNew[[20]byte],
	c16sZeroNew[[21]byte],
	c16sZeroNew[[22]byte],
	c16sZeroNew[[23]byte],
	c16sZeroNew[[24]byte],
	c16sZeroNew[[25]byte],
	c16sZeroNew[[26]byte],
	c16sZeroNew[[27]byte],
	c16sZeroNew[[28]byte],
	c16sZeroNew[[29]byte],
	c16sZeroNew[[30]byte],
	c16sZeroNew[[31]byte],
	c16sZeroNew[[32]byte],
	c16sZeroNew[[33]byte],
	c16sZeroNew[[34]byte],
	c16sZeroNew[[35]byte],
	c16sZeroNew[[36]byte],
	c16sZeroNew[[37]byte],
	c16sZeroNew[[38]byte],
	c16sZeroNew[[39]byte],
	c16sZeroNew[[40]byte],
	c16sZeroNew[[41]byte],
	c16sZeroNew[[42]byte],
	c16sZeroNew[[43]byte],
	c16sZeroNew[[44]byte],
	c16sZeroNew[[45]byte],
	c16sZeroNew[[46]byte],
	c16sZeroNew[[47]byte],
}

var c16sZeroNext atomic.Int32

type c16sUncmp struct {
	context.Context
	tags []string
}

type c16sInput struct {
	kind      string
	ctx       context.Context
	cancel    func() // nil: can never be cancelled
	cancelled bool
}

func TestC16Static(t *testing.T) {
	st := vkit.For("c16_static")
	rapid.Check(t, func(t *rapid.T) {
		n := rapid.IntRange(0, 5).Draw(t, "inputs")
		var in []*c16sInput
		var trace []string
		defer func() {
			// a combinator that panics on contexts it is documented to accept is a verdict, not a crash of the harness
			if r := recover(); r != nil {
				if !strings.Contains(fmt.Sprintf("%T", r), "rapid.") {
					vkit.Announce("C16/panic", "a context combinator panicked: %v\ncase: %v", r, trace)
				}
				panic(r)
			}
		}()
		for i := 0; i < n; i++ {
			x := &c16sInput{kind: rapid.SampledFrom([]string{"std", "std", "std", "custom", "never", "detached", "zero", "uncomparable", "uncomparable"}).Draw(t, "kind")}
			zi := -1
			if x.kind == "zero" {
				if zi = int(c16sZeroNext.Add(1)) - 1; zi >= len(c16sZeroMakers) {
					x.kind = "std"
				}
			}
			switch x.kind {
			case "zero":
				c := &c16sCustom{idx: i, done: make(chan struct{})}
				x.ctx, x.cancel = c16sZeroMakers[zi](c), c.cancel
			case "std":
				c, cancel := context.WithCancel(context.Background())
				x.ctx, x.cancel = context.WithValue(c, c16sKey(i), i*10), cancel
			case "custom":
				c := &c16sCustom{idx: i, done: make(chan struct{})}
				x.ctx, x.cancel = c, c.cancel
			case "never":
				x.ctx = context.WithValue(context.Background(), c16sKey(i), i*10)
			case "detached":
				inner, cancel := context.WithCancel(context.Background())
				cancel()
				x.ctx = c16sDetached{context.WithValue(inner, c16sKey(i), i*10)}
			case "uncomparable":
				// a value-typed context with a slice field: two of them must never be compared with ==
				c, cancel := context.WithCancel(context.Background())
				x.ctx, x.cancel = c16sUncmp{context.WithValue(c, c16sKey(i), i*10), []string{"tag"}}, cancel
			}
			if x.cancel != nil && rapid.IntRange(0, 3).Draw(t, "pre") == 0 {
				x.cancel()
				x.cancelled = true
			}
			in = append(in, x)
			trace = append(trace, fmt.Sprintf("in%d=%s(cancelled=%v)", i, x.kind, x.cancelled))
		}
		vkit.CaseStart(func() string { return strings.Join(trace, " ; ") })
		valuesOf := func(res context.Context, owner int, what string, exclusive bool) {
			for i := 0; i < n+1; i++ {
				var want any
				if i == owner && i < n {
					want = i * 10
				} else if !exclusive {
					continue
				}
				if got := res.Value(c16sKey(i)); got != want {
					vkit.Fail(t, "C16/"+what+"-value", "%s: Value(key %d)=%v, expected %v (only input %d's values are carried)\ncase: %v", what, i, got, want, owner, trace)
				}
			}
		}
		nontrivial := false

		// ---- CombineContext
		{
			primary := -1
			if n > 0 && rapid.IntRange(0, 5).Draw(t, "nilPrimary") != 0 {
				primary = rapid.IntRange(0, n-1).Draw(t, "primary")
			}
			var others []context.Context
			var otherIdx []int
			for i := 0; i < n; i++ {
				if rapid.IntRange(0, 3).Draw(t, "nilOther") == 0 {
					others = append(others, nil)
					otherIdx = append(otherIdx, -1)
				}
				if i != primary || rapid.Bool().Draw(t, "primaryAgain") {
					others = append(others, in[i].ctx)
					otherIdx = append(otherIdx, i)
				}
			}
			var pctx context.Context
			want := false
			if primary >= 0 {
				pctx = in[primary].ctx
				want = in[primary].cancelled
			}
			for _, o := range otherIdx {
				if o >= 0 && in[o].cancelled {
					want = true
				}
			}
			trace = append(trace, fmt.Sprintf("combine(primary=%d others=%v)", primary, otherIdx))
			res := bigbuff.CombineContext(pctx, others...)
			c16sScribble(others) // the argument slice is the caller's again once the call has returned
			if res == nil {
				vkit.Fail(t, "C16/combine-nil-result", "CombineContext returned nil\ncase: %v", trace)
			}
			if got := res.Err() != nil; got != want {
				sig := "C16/combine-cancelled-early"
				if want {
					sig = "C16/combine-live-on-return"
				}
				vkit.Fail(t, sig, "CombineContext: on return Err()=%v, but an input already cancelled: %v\ncase: %v", res.Err(), want, trace)
			}
			valuesOf(res, primary, "combine", false)
			if !want {
				// cancel one live, cancellable input among primary+others: the result must follow
				var cand []int
				for _, o := range append([]int{primary}, otherIdx...) {
					if o >= 0 && in[o].cancel != nil && !in[o].cancelled {
						cand = append(cand, o)
					}
				}
				if len(cand) > 0 {
					v := cand[rapid.IntRange(0, len(cand)-1).Draw(t, "combineVictim")]
					trace = append(trace, fmt.Sprintf("cancel(in%d)", v))
					in[v].cancel()
					in[v].cancelled = true
					<-res.Done() // never following is a stall (watchdog)
					if res.Err() == nil {
						vkit.Fail(t, "C16/combine-not-cancelled", "CombineContext: Done closed but Err() is nil\ncase: %v", trace)
					}
					nontrivial = len(otherIdx) >= 2
				}
			}
		}

		// ---- combinators applied to their own results: the values of an earlier result survive WithoutCancel (and
		// ConflatedContext, which builds on it) while its cancellation does not — a later CombineContext with the same
		// other must wire that other up again
		{
			var live []int
			for i, x := range in {
				if x.cancel != nil && !x.cancelled {
					live = append(live, i)
				}
			}
			if len(live) >= 1 && rapid.IntRange(0, 2).Draw(t, "nested") == 0 {
				xi := live[rapid.IntRange(0, len(live)-1).Draw(t, "nestedOther")]
				x := in[xi]
				p, pcancel := context.WithCancel(context.Background())
				r1 := bigbuff.CombineContext(p, x.ctx)
				var p2 context.Context
				how := rapid.SampledFrom([]string{"WithoutCancel", "Conflated", "WithValue"}).Draw(t, "nestedVia")
				var c2cancel context.CancelFunc = func() {}
				switch how {
				case "WithoutCancel":
					p2 = context.WithoutCancel(r1)
				case "Conflated":
					p2, c2cancel = bigbuff.ConflatedContext(r1, context.Background())
				default:
					p2 = context.WithValue(r1, c16sKey(99), 1)
				}
				r2 := bigbuff.CombineContext(p2, nil, x.ctx)
				trace = append(trace, fmt.Sprintf("nested: r2=Combine(%s(Combine(p,in%d)), in%d); cancel(in%d)", how, xi, xi, xi))
				if r2.Err() != nil {
					vkit.Fail(t, "C16/combine-cancelled-early", "a CombineContext built on top of an earlier result is cancelled on return although nothing is cancelled\ncase: %v", trace)
				}
				x.cancel()
				x.cancelled = true
				<-r2.Done() // never following is a stall (watchdog)
				pcancel()
				c2cancel()
			}
		}

		// ---- only the Done channel of a result is kept: it closes when an input is cancelled, not because the
		// garbage collector ran
		if rapid.IntRange(0, 9).Draw(t, "doneOnly") == 0 {
			o, ocancel := context.WithCancel(context.Background())
			done := c16sDoneOnly(context.Background(), o)
			for i := 0; i < 3; i++ {
				runtime.GC()
				runtime.Gosched()
			}
			select {
			case <-done:
				vkit.Fail(t, "C16/combine-cancelled-early", "the Done channel of a CombineContext result closed although no input was cancelled (only the channel was kept, and the garbage collector ran)\ncase: %v", trace)
			default:
			}
			ocancel()
			<-done
			trace = append(trace, "done-only result survived GC")
		}

		// ---- ConflatedContext
		if n > 0 {
			args := make([]context.Context, n)
			all := true
			for i, x := range in {
				args[i] = x.ctx
				if !x.cancelled {
					all = false
				}
			}
			trace = append(trace, "conflated(all inputs)")
			res, cancel := bigbuff.ConflatedContext(args...)
			c16sScribble(args)
			if res == nil || cancel == nil {
				vkit.Fail(t, "C16/conflated-nil-result", "ConflatedContext returned nil\ncase: %v", trace)
			}
			if got := res.Err() != nil; got != all {
				sig := "C16/conflated-cancelled-early"
				if all {
					sig = "C16/conflated-live-on-return"
				}
				vkit.Fail(t, sig, "ConflatedContext: on return Err()=%v, every input already cancelled: %v\ncase: %v", res.Err(), all, trace)
			}
			valuesOf(res, 0, "conflated", true)
			if !all {
				// cancel every cancellable input; if one can never be cancelled use the cancel function instead
				canAll := true
				for _, x := range in {
					if x.cancel == nil {
						canAll = false
					}
				}
				if canAll && rapid.Bool().Draw(t, "byInputs") {
					for i, x := range in {
						if !x.cancelled {
							x.cancel()
							x.cancelled = true
							trace = append(trace, fmt.Sprintf("cancel(in%d)", i))
						}
					}
				} else {
					trace = append(trace, "cancel func")
					cancel()
				}
				<-res.Done()
			}
			cancel()
		}

		// ---- ChainAfterFunc
		if n >= 2 {
			a := rapid.IntRange(0, n-1).Draw(t, "chainA")
			b := rapid.IntRange(0, n-1).Draw(t, "chainB")
			ran := make(chan struct{}, 4)
			want := in[a].cancelled || in[b].cancelled
			trace = append(trace, fmt.Sprintf("chain(in%d,in%d)", a, b))
			bigbuff.ChainAfterFunc(in[a].ctx, in[b].ctx, func() { ran <- struct{}{} })
			if want {
				<-ran
			} else {
				select {
				case <-ran:
					vkit.Fail(t, "C16/chain-ran-without-cancel", "ChainAfterFunc ran its function although neither context is cancelled\ncase: %v", trace)
				default:
				}
				for _, v := range []int{a, b} {
					if in[v].cancel != nil {
						in[v].cancel()
						in[v].cancelled = true
						trace = append(trace, fmt.Sprintf("cancel(in%d)", v))
						<-ran
						break
					}
				}
			}
		}
		for _, x := range in {
			if x.cancel != nil {
				x.cancel()
			}
		}
		st.Case(trace, nontrivial, fmt.Sprintf("inputs:%d", n))
	})
}
