package props

// C19 — Callable: Call equals a direct call or errors without calling; never panics.
//
// Signatures are constructed with reflect.FuncOf from a type grammar; the function is a
// reflect.MakeFunc recorder. The expected verdict (call / error) is computed from Go
// assignability only, independently of the library's own checks.

import (
	"errors"
	"fmt"
	"reflect"
	"strings"
	"testing"

	bigbuff "github.com/joeycumines/go-bigbuff"
	"pgregory.net/rapid"

	"verif/harness/vkit"
)

type (
	c19Named    int
	c19Stringer interface{ String() string }
	c19StrImpl  string
	c19Err      struct{ s string }
	c19Struct   struct {
		A int
		B string
	}
	c19PStruct struct{ X int }
)

func (s c19StrImpl) String() string { return string(s) }
func (e *c19Err) Error() string     { return e.s }

type c19Type struct {
	name string
	t    reflect.Type
	gen  func(t *rapid.T, label string) any // returns nil for an untyped nil (only for interface types)
}

var c19Sentinel = errors.New("c19 sentinel panic")

func c19TypeOf[T any]() reflect.Type { return reflect.TypeOf((*T)(nil)).Elem() }

// same-named local types: reflect renders both as "props.T", yet they are different types
var c19LocalT1Type, c19LocalT1 = func() (reflect.Type, func(int) any) {
	type T struct{ A int }
	return reflect.TypeOf(T{}), func(i int) any { return T{A: i} }
}()

var c19LocalT2Type, c19LocalT2 = func() (reflect.Type, func(int) any) {
	type T struct{ B string }
	return reflect.TypeOf(T{}), func(i int) any { return T{B: fmt.Sprint(i)} }
}()

var c19Types = func() []c19Type {
	small := func(t *rapid.T, l string) int { return rapid.IntRange(-3, 3).Draw(t, l) }
	return []c19Type{
		{"bool", c19TypeOf[bool](), func(t *rapid.T, l string) any { return rapid.Bool().Draw(t, l) }},
		{"int", c19TypeOf[int](), func(t *rapid.T, l string) any { return small(t, l) }},
		{"int8", c19TypeOf[int8](), func(t *rapid.T, l string) any { return int8(small(t, l)) }},
		{"uint", c19TypeOf[uint](), func(t *rapid.T, l string) any { return uint(small(t, l) + 3) }},
		{"float64", c19TypeOf[float64](), func(t *rapid.T, l string) any { return float64(small(t, l)) / 2 }},
		{"string", c19TypeOf[string](), func(t *rapid.T, l string) any { return rapid.SampledFrom([]string{"", "a", "bc"}).Draw(t, l) }},
		{"error", c19TypeOf[error](), func(t *rapid.T, l string) any {
			switch rapid.IntRange(0, 2).Draw(t, l) {
			case 0:
				return nil
			case 1:
				return &c19Err{"e"}
			default:
				return (*c19Err)(nil)
			}
		}},
		{"any", c19TypeOf[any](), func(t *rapid.T, l string) any {
			switch rapid.IntRange(0, 4).Draw(t, l) {
			case 0:
				return nil
			case 1:
				return 7
			case 2:
				return "s"
			case 3:
				return (*int)(nil)
			default:
				return []int{1}
			}
		}},
		{"*int", c19TypeOf[*int](), func(t *rapid.T, l string) any {
			if rapid.Bool().Draw(t, l) {
				return (*int)(nil)
			}
			v := 5
			return &v
		}},
		{"*struct", c19TypeOf[*c19PStruct](), func(t *rapid.T, l string) any {
			if rapid.Bool().Draw(t, l) {
				return (*c19PStruct)(nil)
			}
			return &c19PStruct{X: 1}
		}},
		{"[]int", c19TypeOf[[]int](), func(t *rapid.T, l string) any {
			switch rapid.IntRange(0, 2).Draw(t, l) {
			case 0:
				return []int(nil)
			case 1:
				return []int{}
			default:
				return []int{1, 2}
			}
		}},
		{"[]any", c19TypeOf[[]any](), func(t *rapid.T, l string) any {
			if rapid.Bool().Draw(t, l) {
				return []any(nil)
			}
			return []any{1, nil, "x"}
		}},
		{"map", c19TypeOf[map[string]int](), func(t *rapid.T, l string) any {
			if rapid.Bool().Draw(t, l) {
				return map[string]int(nil)
			}
			return map[string]int{"k": 1}
		}},
		{"chan int", c19TypeOf[chan int](), func(t *rapid.T, l string) any {
			if rapid.Bool().Draw(t, l) {
				return (chan int)(nil)
			}
			return make(chan int)
		}},
		{"func()", c19TypeOf[func()](), func(t *rapid.T, l string) any {
			if rapid.Bool().Draw(t, l) {
				return (func())(nil)
			}
			return func() {}
		}},
		{"[2]int", c19TypeOf[[2]int](), func(t *rapid.T, l string) any { return [2]int{small(t, l), 1} }},
		{"struct", c19TypeOf[c19Struct](), func(t *rapid.T, l string) any { return c19Struct{A: small(t, l), B: "b"} }},
		{"named int", c19TypeOf[c19Named](), func(t *rapid.T, l string) any { return c19Named(small(t, l)) }},
		{"named iface", c19TypeOf[c19Stringer](), func(t *rapid.T, l string) any {
			if rapid.Bool().Draw(t, l) {
				return nil
			}
			return c19StrImpl("z")
		}},
		// two distinct types whose names (reflect.Type.String) are identical: declared in different function scopes
		{"local T (1)", c19LocalT1Type, func(t *rapid.T, l string) any { return c19LocalT1(small(t, l)) }},
		{"local T (2)", c19LocalT2Type, func(t *rapid.T, l string) any { return c19LocalT2(small(t, l)) }},
		// extra value-only types used as perturbations (never parameters)
		{"strimpl", c19TypeOf[c19StrImpl](), func(t *rapid.T, l string) any { return c19StrImpl("q") }},
		{"*err", c19TypeOf[*c19Err](), func(t *rapid.T, l string) any {
			if rapid.Bool().Draw(t, l) {
				return (*c19Err)(nil)
			}
			return &c19Err{"x"}
		}},
	}
}()

const c19ParamTypes = 21 // the first 21 entries may be used as parameter / result types

func c19Abbrev(d []string) string {
	if len(d) <= 12 {
		return strings.Join(d, ",")
	}
	return strings.Join(d[:6], ",") + fmt.Sprintf(",…(%d in all)…,", len(d)) + strings.Join(d[len(d)-3:], ",")
}

func c19Nilable(k reflect.Kind) bool {
	switch k {
	case reflect.Chan, reflect.Func, reflect.Interface, reflect.Map, reflect.Ptr, reflect.Slice, reflect.UnsafePointer:
		return true
	}
	return false
}

// c19Same compares two boxed values: identical dynamic type and identical value
// (identity for reference kinds, deep equality otherwise).
func c19Same(a, b any) bool {
	if a == nil || b == nil {
		return a == nil && b == nil
	}
	va, vb := reflect.ValueOf(a), reflect.ValueOf(b)
	if va.Type() != vb.Type() {
		return false
	}
	switch va.Kind() {
	case reflect.Ptr, reflect.Chan, reflect.Func, reflect.Map, reflect.UnsafePointer:
		return va.Pointer() == vb.Pointer()
	case reflect.Slice:
		return va.Pointer() == vb.Pointer() && va.Len() == vb.Len() && va.Cap() == vb.Cap() && va.IsNil() == vb.IsNil()
	}
	return reflect.DeepEqual(a, b)
}

// c19Box returns the value held by rv as the `any` a caller would see.
func c19Box(rv reflect.Value) any {
	if !rv.IsValid() {
		return nil
	}
	if rv.Kind() == reflect.Interface && rv.IsNil() {
		return nil
	}
	return rv.Interface()
}

func c19Describe(v any) string {
	if v == nil {
		return "nil"
	}
	rv := reflect.ValueOf(v)
	if c19Nilable(rv.Kind()) && rv.IsNil() {
		return fmt.Sprintf("(%T)(nil)", v)
	}
	return fmt.Sprintf("%T", v)
}

// c19ArgsOK: would a direct call f(args...) type-check? (Go assignability only)
func c19ArgsOK(args []any, ins []reflect.Type, variadic bool) bool {
	mand := len(ins)
	if variadic {
		mand--
	}
	if variadic {
		if len(args) < mand {
			return false
		}
	} else if len(args) != mand {
		return false
	}
	for i, a := range args {
		var pt reflect.Type
		if i < mand {
			pt = ins[i]
		} else {
			pt = ins[len(ins)-1].Elem()
		}
		if a == nil {
			if !c19Nilable(pt.Kind()) {
				return false
			}
		} else if !reflect.TypeOf(a).AssignableTo(pt) {
			return false
		}
	}
	return true
}

func TestC19Callable(t *testing.T) {
	st := vkit.For("c19_callable")
	rapid.Check(t, func(t *rapid.T) {
		// ---- signature
		nIn := rapid.IntRange(0, 4).Draw(t, "nIn")
		variadic := nIn > 0 && rapid.IntRange(0, 2).Draw(t, "variadic") == 0
		ins := make([]reflect.Type, nIn)
		inIdx := make([]int, nIn)
		for i := range ins {
			inIdx[i] = rapid.IntRange(0, c19ParamTypes-1).Draw(t, "in")
			ins[i] = c19Types[inIdx[i]].t
		}
		if variadic {
			ins[nIn-1] = reflect.SliceOf(ins[nIn-1])
		}
		nOut := rapid.IntRange(0, 3).Draw(t, "nOut")
		// one case in six uses one of the signatures people actually write (an implementation may well treat them
		// specially): func(), func() error, func() (any, error), func(any) error, func(string) (string, error), …
		var commonOuts []int
		if rapid.IntRange(0, 5).Draw(t, "commonSignature") == 0 {
			name := func(n string) int {
				for i, ty := range c19Types {
					if ty.name == n {
						return i
					}
				}
				panic("harness: no type " + n)
			}
			shapes := [][2][]int{
				{{}, {}},
				{{}, {name("error")}},
				{{}, {name("any"), name("error")}},
				{{name("any")}, {name("error")}},
				{{name("string")}, {name("string"), name("error")}},
				{{name("int")}, {name("any"), name("error")}},
				{{name("any")}, {name("any")}},
			}
			sh := shapes[rapid.IntRange(0, len(shapes)-1).Draw(t, "shape")]
			nIn, variadic = len(sh[0]), false
			ins, inIdx = make([]reflect.Type, nIn), make([]int, nIn)
			for i, ix := range sh[0] {
				inIdx[i], ins[i] = ix, c19Types[ix].t
			}
			nOut, commonOuts = len(sh[1]), sh[1]
		}
		outs := make([]reflect.Type, nOut)
		outVals := make([]reflect.Value, nOut)
		outBoxed := make([]any, nOut)
		for i := range outs {
			ix := rapid.IntRange(0, c19ParamTypes-1).Draw(t, "out")
			if commonOuts != nil {
				ix = commonOuts[i]
			}
			outs[i] = c19Types[ix].t
			v := c19Types[ix].gen(t, "outv")
			rv := reflect.New(outs[i]).Elem()
			if v != nil {
				rv.Set(reflect.ValueOf(v))
			}
			outVals[i] = rv
			outBoxed[i] = c19Box(rv)
		}
		fnType := reflect.FuncOf(ins, outs, variadic)
		doPanic := rapid.IntRange(0, 9).Draw(t, "fnPanics") == 0
		// whatever the called function panics with is the caller's business: it must arrive unchanged, also when it
		// looks like something the reflect package or the runtime might have raised
		var panicVal any = c19Sentinel
		if doPanic {
			switch rapid.IntRange(0, 5).Draw(t, "panicValue") {
			case 1:
				panicVal = &reflect.ValueError{Method: "reflect.Value.Len", Kind: reflect.Int}
			case 2:
				panicVal = "reflect: call of reflect.Value.Call on zero Value"
			case 3:
				panicVal = "reflect.Value.Interface: cannot return value obtained from unexported field or method"
			case 4:
				panicVal = fmt.Errorf("bigbuff.callable args error: %w", c19Sentinel)
			case 5:
				_, pv := vkit.Call(func() any { var a []int; return a[len(a)+1] }) // a genuine runtime.Error
				panicVal = pv
			}
		}

		var (
			calls int
			got   []reflect.Value
		)
		// one case in five: the called function itself goes through Call (with arguments and result targets of its own)
		// before it returns — calls are independent of each other, also when they nest
		nested := rapid.IntRange(0, 4).Draw(t, "nestedCall") == 0
		var nestedBad string
		fn := reflect.MakeFunc(fnType, func(args []reflect.Value) []reflect.Value {
			calls++
			got = args
			if nested {
				var ri int
				var rs string
				var re error = c19Sentinel
				innerCalls := 0
				err := bigbuff.Call(bigbuff.NewCallable(func(a int, s string) (int, string, error) { innerCalls++; return a + 1, s + "!", nil }),
					bigbuff.CallArgs(41, "in"), bigbuff.CallResults(&ri, &rs, &re))
				if err != nil || innerCalls != 1 || ri != 42 || rs != "in!" || re != nil {
					nestedBad = fmt.Sprintf("err=%v invocations=%d results=(%v,%q,%v), a direct call returns (42,\"in!\",<nil>)", err, innerCalls, ri, rs, re)
				}
			}
			if doPanic {
				panic(panicVal)
			}
			return outVals
		})
		callable := bigbuff.NewCallable(fn.Interface())

		// ---- arguments: start from a correct list, then maybe perturb
		perturbed := false
		anyNil := false
		var args []any
		mand := nIn
		if variadic {
			mand = nIn - 1
		}
		for i := 0; i < mand; i++ {
			args = append(args, c19Types[inIdx[i]].gen(t, "arg"))
		}
		manyArgs := false // some CallArgs list of this case has more entries than the implementation can pass on (128)
		hugeTail := false
		if variadic {
			k := rapid.IntRange(0, 3).Draw(t, "tail")
			if rapid.IntRange(0, 24).Draw(t, "hugeTail") == 0 {
				// a very long argument list (a direct call takes any number of variadic arguments)
				k, hugeTail = rapid.SampledFrom([]int{100, 126, 127, 128, 129, 130, 200, 1000}).Draw(t, "hugeTailLen"), true
			}
			for ; k > 0; k-- {
				args = append(args, c19Types[inIdx[nIn-1]].gen(t, "targ"))
			}
		}
		switch rapid.IntRange(0, 9).Draw(t, "argPerturb") {
		case 0: // drop
			if len(args) > 0 {
				k := rapid.IntRange(1, min(2, len(args))).Draw(t, "drop")
				args = args[:len(args)-k]
				perturbed = true
			}
		case 1: // extra
			for k := rapid.IntRange(1, 2).Draw(t, "extra"); k > 0; k-- {
				ix := rapid.IntRange(0, len(c19Types)-1).Draw(t, "extraT")
				args = append(args, c19Types[ix].gen(t, "extraV"))
			}
			perturbed = true
		case 2, 3: // replace one by a value of another type
			if len(args) > 0 {
				i := rapid.IntRange(0, len(args)-1).Draw(t, "repl")
				ix := rapid.IntRange(0, len(c19Types)-1).Draw(t, "replT")
				args[i] = c19Types[ix].gen(t, "replV")
				perturbed = true
			}
		case 4, 5: // untyped nil
			if len(args) > 0 {
				i := rapid.IntRange(0, len(args)-1).Draw(t, "nilAt")
				args[i] = nil
				perturbed = true
			}
		}
		_ = hugeTail
		manyArgs = len(args) > 128
		for _, a := range args {
			if a == nil {
				anyNil = true
			} else if rv := reflect.ValueOf(a); c19Nilable(rv.Kind()) && rv.IsNil() {
				anyNil = true
			}
		}

		// ---- expected verdict for arguments (Go assignability only)
		argsOK := true
		var expanded []reflect.Type
		if variadic {
			if len(args) < mand {
				argsOK = false
			} else {
				expanded = append(expanded, ins[:mand]...)
				for i := mand; i < len(args); i++ {
					expanded = append(expanded, ins[nIn-1].Elem())
				}
			}
		} else {
			if len(args) != nIn {
				argsOK = false
			} else {
				expanded = ins
			}
		}
		if argsOK {
			for i, a := range args {
				if a == nil {
					if !c19Nilable(expanded[i].Kind()) {
						argsOK = false
					}
				} else if !reflect.TypeOf(a).AssignableTo(expanded[i]) {
					argsOK = false
				}
			}
		}

		// ---- result option
		type snapshot struct {
			ptr    reflect.Value // valid non-nil pointer target
			before any
		}
		var (
			resMode   = rapid.SampledFrom([]string{"none", "results", "results", "slice"}).Draw(t, "resMode")
			resOK     = true
			targets   []any
			snaps     []snapshot
			sliceTgt  any
			slicePre  []any
			sliceElem reflect.Type
			resDesc   []string
		)
		snap := func(target any) {
			if target == nil {
				return
			}
			rv := reflect.ValueOf(target)
			if rv.Kind() == reflect.Ptr && !rv.IsNil() {
				snaps = append(snaps, snapshot{ptr: rv, before: c19Box(rv.Elem())})
			}
		}
		switch resMode {
		case "results":
			for i := 0; i < nOut; i++ {
				// default: a correct target, either *T, *any, or an interface the type implements
				tt := outs[i]
				switch rapid.IntRange(0, 3).Draw(t, "tgtKind") {
				case 0:
					tt = c19TypeOf[any]()
				case 1:
					if outs[i].Implements(c19TypeOf[error]()) {
						tt = c19TypeOf[error]()
					}
				}
				var target any = reflect.New(tt).Interface()
				switch rapid.IntRange(0, 11).Draw(t, "tgtPerturb") {
				case 0: // non pointer
					target = reflect.New(tt).Elem().Interface() // may be nil for interface types
					perturbed = true
				case 1: // nil pointer
					target = reflect.Zero(reflect.PointerTo(tt)).Interface()
					perturbed = true
				case 2: // untyped nil
					target = nil
					perturbed = true
				case 3: // other element type
					ix := rapid.IntRange(0, c19ParamTypes-1).Draw(t, "tgtOther")
					target = reflect.New(c19Types[ix].t).Interface()
					perturbed = true
				}
				// the same *any target may stand for two results (like `x, x = f()`: the later result wins)
				if i > 0 && tt == c19TypeOf[any]() && rapid.IntRange(0, 3).Draw(t, "aliasTarget") == 0 {
					for j := i - 1; j >= 0; j-- {
						if p, ok := targets[j].(*any); ok && p != nil {
							target = p
							break
						}
					}
				}
				targets = append(targets, target)
			}
			switch rapid.IntRange(0, 9).Draw(t, "tgtCount") {
			case 0:
				if len(targets) > 0 {
					targets = targets[:len(targets)-1]
					perturbed = true
				}
			case 1:
				targets = append(targets, new(int))
				perturbed = true
			}
			if len(targets) != nOut {
				resOK = false
			}
			for i, target := range targets {
				resDesc = append(resDesc, c19Describe(target))
				snap(target)
				if i >= nOut {
					continue
				}
				if target == nil {
					resOK = false
					continue
				}
				rv := reflect.ValueOf(target)
				if rv.Kind() != reflect.Ptr || rv.IsNil() || !outs[i].AssignableTo(rv.Type().Elem()) {
					resOK = false
				}
			}
		case "slice":
			elemIx := -1
			switch rapid.IntRange(0, 2).Draw(t, "sliceElem") {
			case 0:
				sliceElem = c19TypeOf[any]()
			case 1:
				if nOut > 0 {
					sliceElem = outs[0]
				} else {
					sliceElem = c19TypeOf[int]()
				}
			default:
				elemIx = rapid.IntRange(0, c19ParamTypes-1).Draw(t, "sliceElemT")
				sliceElem = c19Types[elemIx].t
			}
			sl := reflect.New(reflect.SliceOf(sliceElem))
			// pre-existing contents
			for k := rapid.IntRange(0, 2).Draw(t, "slicePre"); k > 0; k-- {
				sl.Elem().Set(reflect.Append(sl.Elem(), reflect.Zero(sliceElem)))
			}
			for i := 0; i < sl.Elem().Len(); i++ {
				slicePre = append(slicePre, c19Box(sl.Elem().Index(i)))
			}
			sliceTgt = sl.Interface()
			switch rapid.IntRange(0, 11).Draw(t, "slicePerturb") {
			case 0: // not a pointer
				sliceTgt = sl.Elem().Interface()
				perturbed = true
			case 1: // nil pointer
				sliceTgt = reflect.Zero(sl.Type()).Interface()
				perturbed = true
			case 2: // untyped nil
				sliceTgt = nil
				perturbed = true
			case 3: // pointer to non-slice
				sliceTgt = new(int)
				perturbed = true
			}
			resDesc = append(resDesc, c19Describe(sliceTgt))
			snap(sliceTgt)
			if sliceTgt == nil {
				resOK = false
			} else {
				rv := reflect.ValueOf(sliceTgt)
				if rv.Kind() != reflect.Ptr || rv.IsNil() || rv.Elem().Kind() != reflect.Slice {
					resOK = false
				} else {
					for _, o := range outs {
						if !o.AssignableTo(rv.Elem().Type().Elem()) {
							resOK = false
						}
					}
				}
			}
		}

		expectCall := argsOK && resOK

		// ---- options in a drawn order
		argsOpt := bigbuff.CallArgs(args...)
		opts := []bigbuff.CallOption{argsOpt}
		var resOpt bigbuff.CallOption
		switch resMode {
		case "results":
			resOpt = bigbuff.CallResults(targets...)
		case "slice":
			resOpt = bigbuff.CallResultsSlice(sliceTgt)
		}
		resFirst := false
		if resOpt != nil {
			if resFirst = rapid.Bool().Draw(t, "resFirst"); resFirst {
				opts = []bigbuff.CallOption{resOpt, opts[0]}
			} else {
				opts = append(opts, resOpt)
			}
		}

		// ---- optionally more than one args / results option in the same Call: options are applied in order, each is
		// validated against the callable (the first failure is Call's error), and the last args option and the last
		// results option are the ones in effect; the targets of an overridden results option are never touched
		var (
			extraDesc []string
			untouched []snapshot
		)
		extra := rapid.SampledFrom([]string{"none", "none", "none", "preArgs", "preArgs", "preRes", "both"}).Draw(t, "extraOptions")
		mainArgsPos, mainResPos := 0, -1
		if resOpt != nil {
			if resFirst {
				mainArgsPos, mainResPos = 1, 0
			} else {
				mainArgsPos, mainResPos = 0, 1
			}
		}
		if extra == "preArgs" || extra == "both" {
			var pre []any
			switch rapid.IntRange(0, 3).Draw(t, "preArgsKind") {
			case 0: // the same list again
				pre = append(pre, args...)
			case 1: // a fresh correct list of other values
				for i := 0; i < mand; i++ {
					pre = append(pre, c19Types[inIdx[i]].gen(t, "parg"))
				}
				if variadic {
					for k := rapid.IntRange(0, 3).Draw(t, "ptail"); k > 0; k-- {
						pre = append(pre, c19Types[inIdx[nIn-1]].gen(t, "ptarg"))
					}
				}
			case 2: // the mandatory part only (valid for variadic signatures, else usually too short)
				for i := 0; i < mand && i < len(args); i++ {
					pre = append(pre, args[i])
				}
			default: // one value too many, of a drawn type
				pre = append(pre, args...)
				pre = append(pre, c19Types[rapid.IntRange(0, len(c19Types)-1).Draw(t, "pextraT")].gen(t, "pextraV"))
			}
			preOK := c19ArgsOK(pre, ins, variadic)
			if len(pre) > 128 {
				manyArgs = true
			}
			var d []string
			for _, a := range pre {
				d = append(d, c19Describe(a))
			}
			at := rapid.IntRange(0, mainArgsPos).Draw(t, "preArgsAt")
			opts = append(opts[:at], append([]bigbuff.CallOption{bigbuff.CallArgs(pre...)}, opts[at:]...)...)
			if mainResPos >= at {
				mainResPos++
			}
			mainArgsPos++
			extraDesc = append(extraDesc, fmt.Sprintf("preArgs@%d(%s) ok=%v", at, strings.Join(d, ","), preOK))
			if !preOK {
				argsOK = false
				perturbed = true
			}
		}
		if (extra == "preRes" || extra == "both") && mainResPos >= 0 {
			var o bigbuff.CallOption
			preOK := true
			if rapid.Bool().Draw(t, "preResSlice") {
				sl := new([]any)
				*sl = append(*sl, "kept")
				untouched = append(untouched, snapshot{ptr: reflect.ValueOf(sl), before: c19Box(reflect.ValueOf(sl).Elem())})
				o = bigbuff.CallResultsSlice(sl)
				extraDesc = append(extraDesc, "preRes=slice(*[]any)")
			} else {
				var tg []any
				n := nOut
				if rapid.IntRange(0, 5).Draw(t, "preResShort") == 0 && nOut > 0 {
					n, preOK = nOut-1, false
				}
				for i := 0; i < n; i++ {
					ptr := reflect.New(outs[i])
					tg = append(tg, ptr.Interface())
					untouched = append(untouched, snapshot{ptr: ptr, before: c19Box(ptr.Elem())})
				}
				o = bigbuff.CallResults(tg...)
				extraDesc = append(extraDesc, fmt.Sprintf("preRes=results(%d targets) ok=%v", n, preOK))
			}
			at := rapid.IntRange(0, mainResPos).Draw(t, "preResAt")
			opts = append(opts[:at], append([]bigbuff.CallOption{o}, opts[at:]...)...)
			if !preOK {
				resOK = false
				perturbed = true
			}
		}
		if len(extraDesc) > 0 {
			expectCall = argsOK && resOK
		}

		// ---- trace
		var argDesc []string
		for _, a := range args {
			argDesc = append(argDesc, c19Describe(a))
		}
		trace := []string{
			"sig=" + fnType.String(),
			"args=(" + c19Abbrev(argDesc) + ")",
			"res=" + resMode + "(" + strings.Join(resDesc, ",") + ")",
			fmt.Sprintf("expectCall=%v fnPanics=%v nestedCall=%v", expectCall, doPanic, nested),
		}
		if len(extraDesc) > 0 {
			trace = append(trace, "extra: "+strings.Join(extraDesc, " ; "))
		}
		shape := "args"
		if !argsOK {
			shape = "badargs"
		}
		if !resOK {
			shape += "+badres"
		}

		// ---- optionally the very same CallArgs option value is also applied to a second callable of another
		// signature (before or after the main call): an option must not carry anything over between calls
		reuse := rapid.SampledFrom([]string{"no", "no", "before", "after"}).Draw(t, "reuseArgsOption")
		var checkReuse func()
		if reuse != "no" {
			n2 := rapid.IntRange(0, 3).Draw(t, "nIn2")
			var2 := n2 > 0 && rapid.IntRange(0, 2).Draw(t, "variadic2") == 0
			ins2 := make([]reflect.Type, n2)
			same := rapid.IntRange(0, 2).Draw(t, "sameSig") == 0
			if same {
				ins2, var2 = ins, variadic
			} else {
				for i := range ins2 {
					ins2[i] = c19Types[rapid.IntRange(0, c19ParamTypes-1).Draw(t, "in2")].t
				}
				if var2 {
					ins2[n2-1] = reflect.SliceOf(ins2[n2-1])
				}
			}
			calls2 := 0
			fn2 := reflect.MakeFunc(reflect.FuncOf(ins2, nil, var2), func([]reflect.Value) []reflect.Value { calls2++; return nil })
			callable2 := bigbuff.NewCallable(fn2.Interface())
			ok2 := c19ArgsOK(args, ins2, var2)
			trace = append(trace, fmt.Sprintf("reuse=%s sig2=%v expectCall2=%v", reuse, fn2.Type(), ok2))
			checkReuse = func() {
				res2, pv2 := vkit.Call(func() any { return bigbuff.Call(callable2, argsOpt) })
				if pv2 != nil {
					vkit.Fail(t, "C19/panic/option-reuse", "Call panicked when a CallArgs option value was applied to a second callable: %v\ncase: %v", pv2, trace)
				}
				if ok2 && len(args) > 128 && res2 != nil && calls2 == 0 {
					return // more arguments than can be passed on: an error without a call is allowed
				}
				if ok2 && (res2 != nil || calls2 != 1) {
					vkit.Fail(t, "C19/option-reuse", "the same CallArgs option applied to a second, compatible callable: error %v, invoked %d times (expected a call)\ncase: %v", res2, calls2, trace)
				}
				if !ok2 && (res2 == nil || calls2 != 0) {
					vkit.Fail(t, "C19/option-reuse", "the same CallArgs option applied to a second, incompatible callable: error %v, invoked %d times (expected an error and no call)\ncase: %v", res2, calls2, trace)
				}
			}
			if reuse == "before" {
				checkReuse()
			}
		}

		// ---- run
		res, pv := vkit.Call(func() any { return bigbuff.Call(callable, opts...) })
		var err error
		if res != nil {
			err = res.(error)
		}

		if pv != nil {
			if expectCall && doPanic && pv == panicVal && calls == 1 {
				// the callee's own panic propagates unchanged — allowed
			} else {
				sig := "C19/panic/other"
				if len(args) > 128 {
					sig = "C19/panic/many-args"
				}
				for _, a := range args {
					if a == nil {
						sig = "C19/panic/untyped-nil-arg"
					}
				}
				for _, tg := range targets {
					if tg == nil {
						sig = "C19/panic/untyped-nil-target"
					}
				}
				vkit.Fail(t, sig, "Call panicked on its own account: %v\ncase: %v", pv, trace)
			}
		}

		if expectCall && manyArgs && pv == nil && err != nil && calls == 0 {
			// more arguments than the implementation can pass on: a descriptive error without a call is one of the two
			// outcomes the property allows (what it never allows is a panic, or a call with other arguments)
			expectCall = false
		}
		if expectCall {
			if pv == nil {
				if doPanic {
					vkit.Fail(t, "C19/callee-panic-swallowed", "callee panicked but Call returned %v\ncase: %v", err, trace)
				}
				if err != nil {
					vkit.Fail(t, "C19/verdict/spurious-error", "expected a call, got error %v\ncase: %v", err, trace)
				}
			}
			if calls != 1 {
				vkit.Fail(t, "C19/invocations", "expected exactly one invocation, got %d\ncase: %v", calls, trace)
			}
			// arguments as received
			var recv []any
			for i, g := range got {
				if variadic && i == len(got)-1 {
					if g.Kind() != reflect.Slice {
						vkit.Fail(t, "C19/args/tail-kind", "variadic tail kind %v", g.Kind())
					}
					for j := 0; j < g.Len(); j++ {
						recv = append(recv, c19Box(g.Index(j)))
					}
					continue
				}
				recv = append(recv, c19Box(g))
			}
			if len(recv) != len(args) {
				vkit.Fail(t, "C19/args/count", "callee received %d args, given %d\ncase: %v", len(recv), len(args), trace)
			}
			for i := range args {
				want := args[i]
				if want == nil && expanded[i].Kind() != reflect.Interface {
					// untyped nil for a nilable concrete type arrives as that type's nil
					rv := reflect.ValueOf(recv[i])
					if recv[i] == nil || rv.Type() != expanded[i] || !rv.IsNil() {
						vkit.Fail(t, "C19/args/nil-value", "arg %d: given untyped nil, callee received %v\ncase: %v", i, c19Describe(recv[i]), trace)
					}
					continue
				}
				if !c19Same(want, recv[i]) {
					vkit.Fail(t, "C19/args/value", "arg %d: given %v (%s), callee received %v (%s)\ncase: %v", i, want, c19Describe(want), recv[i], c19Describe(recv[i]), trace)
				}
			}
			// results
			if pv == nil {
				switch resMode {
				case "results":
					for i, target := range targets {
						gotV := c19Box(reflect.ValueOf(target).Elem())
						// results are stored left to right, as in a tuple assignment: an aliased target holds the
						// value of the last result it stands for
						want := outBoxed[i]
						for j := i + 1; j < len(targets); j++ {
							if targets[j] == target {
								want = outBoxed[j]
							}
						}
						if !c19Same(gotV, want) {
							vkit.Fail(t, "C19/results/value", "result %d: target holds %v (%s), a direct call leaves %v (%s) there\ncase: %v", i, gotV, c19Describe(gotV), want, c19Describe(want), trace)
						}
					}
				case "slice":
					sl := reflect.ValueOf(sliceTgt).Elem()
					want := append(append([]any(nil), slicePre...), outBoxed...)
					if sl.Len() != len(want) {
						vkit.Fail(t, "C19/results/slice-len", "slice has %d entries, want %d\ncase: %v", sl.Len(), len(want), trace)
					}
					for i := range want {
						if gotV := c19Box(sl.Index(i)); !c19Same(gotV, want[i]) {
							vkit.Fail(t, "C19/results/slice-value", "slice[%d] = %v (%s), want %v (%s)\ncase: %v", i, gotV, c19Describe(gotV), want[i], c19Describe(want[i]), trace)
						}
					}
				}
			} else {
				for _, s := range snaps {
					if now := c19Box(s.ptr.Elem()); !c19Same(now, s.before) {
						vkit.Fail(t, "C19/results/touched-on-panic", "target changed although the callee panicked\ncase: %v", trace)
					}
				}
			}
		} else {
			if pv == nil && err == nil {
				vkit.Fail(t, "C19/verdict/missing-error", "expected an error (argsOK=%v resOK=%v), got nil; calls=%d\ncase: %v", argsOK, resOK, calls, trace)
			}
			if calls != 0 {
				vkit.Fail(t, "C19/invoked-despite-error", "function invoked %d times although Call must fail\ncase: %v", calls, trace)
			}
			for _, s := range snaps {
				if now := c19Box(s.ptr.Elem()); !c19Same(now, s.before) {
					vkit.Fail(t, "C19/results/touched-on-error", "target changed although Call failed: before %v after %v\ncase: %v", s.before, now, trace)
				}
			}
			if err != nil && strings.TrimSpace(err.Error()) == "" {
				vkit.Fail(t, "C19/empty-error", "error without description\ncase: %v", trace)
			}
		}

		if nestedBad != "" {
			vkit.Fail(t, "C19/nested-call", "a Call made by the called function, while the outer Call was in progress, went wrong: %s\ncase: %v", nestedBad, trace)
		}
		for _, u := range untouched {
			if now := c19Box(u.ptr.Elem()); !c19Same(now, u.before) {
				vkit.Fail(t, "C19/results/overridden-target-touched", "the target of a results option that a later results option overrides was changed: before %v after %v\ncase: %v", u.before, now, trace)
			}
		}

		if checkReuse != nil && reuse == "after" {
			checkReuse()
		}

		nontrivial := (variadic || nIn >= 2) && (anyNil || perturbed)
		cls := []string{"shape:" + shape, "res:" + resMode}
		if variadic {
			cls = append(cls, "variadic")
		}
		if len(extraDesc) > 0 {
			cls = append(cls, "several-args-or-results-options")
		}
		if expectCall {
			cls = append(cls, "verdict:call")
		} else {
			cls = append(cls, "verdict:error")
		}
		if anyNil {
			cls = append(cls, "has-nil-arg")
		}
		st.Case(trace, nontrivial, cls...)
	})
}
