//go:build verif && go1.25

package props

// c20free — free-running LinearAttempt programs in a synctest bubble (C20). The stepper (c20_attempt_test.go) decides
// the channel's behaviour step by step at quiescence; this engine lets a receiver and the producing goroutine run
// against each other at full speed on a schedule full of exact ties: the receiver sleeps whole (or half) multiples of
// the rate between receives, so that its wake-ups coincide with ticks and the receive races the producer's
// non-blocking send on real processors while the virtual clock stands still. Whatever the interleaving:
// never more than count values, non-decreasing (virtual) timestamps, first value available immediately, channel
// closed after the count-th value (a receiver that keeps receiving gets exactly count values), or — when the context
// is cancelled at a drawn instant — closed with at most two further values, and the producing goroutine gone.

import (
	"context"
	"fmt"
	"strings"
	"sync/atomic"
	"testing"
	"testing/synctest"
	"time"

	bigbuff "github.com/joeycumines/go-bigbuff"
	"pgregory.net/rapid"

	"verif/harness/vkit"
)

func TestC20Free(t *testing.T) {
	st := vkit.For("c20_free")
	rapid.Check(t, func(t *rapid.T) {
		count := rapid.SampledFrom([]int{2, 3, 7, 50, 400, 2000}).Draw(t, "count")
		rate := rapid.SampledFrom([]time.Duration{1, 20 * time.Microsecond, time.Millisecond, time.Hour}).Draw(t, "rate")
		// the receiver's pause before each receive, in half rates (2 = exactly one tick period: a tie every time)
		pat := rapid.SliceOfN(rapid.SampledFrom([]int{0, 0, 2, 2, 2, 2, 4, 1, 3, 6}), 1, 6).Draw(t, "pausePattern")
		if rate == 1 {
			for i := range pat {
				pat[i] &^= 1 // no half of a nanosecond
			}
		}
		cancelAfter := -1 // number of receives after which the context is cancelled (-1: never)
		if rapid.IntRange(0, 2).Draw(t, "cancel") == 0 {
			cancelAfter = rapid.IntRange(0, min(count, 40)).Draw(t, "cancelAfterReceives")
		}
		// or the context ends by itself: a deadline a whole number of rates after the call (it ties with a tick)
		deadlineTicks := -1
		if cancelAfter < 0 && rate < time.Hour && rapid.IntRange(0, 2).Draw(t, "deadline") == 0 {
			deadlineTicks = rapid.IntRange(1, min(count+2, 30)).Draw(t, "deadlineTicks")
		}
		// a context type that reports its end through Err() only (its Done channel never closes)
		errOnly := (cancelAfter >= 0 || deadlineTicks >= 0) && rapid.IntRange(0, 2).Draw(t, "errOnlyCtx") == 0
		// or the cancellation lands right after one of the producer's own looks at the context (the k-th call of Err:
		// the first is LinearAttempt's, the others follow a tick each), and the producer is then held up for 0-4 periods
		guardAt, guardSleep := -1, 0
		if cancelAfter < 0 && deadlineTicks < 0 && rate < time.Hour && rapid.IntRange(0, 3).Draw(t, "cancelInGuard") == 0 {
			guardAt = rapid.IntRange(2, min(count+1, 9)).Draw(t, "guardCall")
			guardSleep = rapid.IntRange(0, 4).Draw(t, "guardSleep")
		}
		trace := []string{fmt.Sprintf("count=%d rate=%v pauses(half rates)=%v cancelAfter=%d deadlineAfterTicks=%d errOnlyCtx=%v cancelInGuardCall=%d(+%d periods)", count, rate, pat, cancelAfter, deadlineTicks, errOnly, guardAt, guardSleep)}
		vkit.CaseStart(func() string { return strings.Join(trace, " ; ") })
		var (
			got          int
			afterCancel  int
			bad          string
			firstBlocked bool
			leak         string
		)
		rapid.SyncTest(t, func(t *rapid.T) {
			ctx, cancel := context.WithCancel(context.Background())
			if deadlineTicks >= 0 {
				ctx, cancel = context.WithTimeout(context.Background(), time.Duration(deadlineTicks)*rate)
			}
			defer cancel()
			if errOnly {
				ctx = c20ErrOnlyCtx{ctx, make(chan struct{})}
			}
			inner := ctx
			var guardFired atomic.Bool
			if guardAt >= 0 {
				ctx = c20GuardCtx{ctx, new(atomic.Int32), int32(guardAt), func() {
					guardFired.Store(true)
					cancel()
					time.Sleep(time.Duration(guardSleep) * rate)
				}}
			}
			start := time.Now()
			c := bigbuff.LinearAttempt(ctx, rate, count)
			select {
			case v, ok := <-c:
				if !ok {
					bad = "the channel was closed before yielding its first value"
					return
				}
				if !v.Equal(start) {
					bad = fmt.Sprintf("the first value is stamped %v after the call", v.Sub(start))
					return
				}
				got = 1
			default:
				firstBlocked = true
				return
			}
			last := start
			cancelled := false
			for i := 0; ; i++ {
				if cancelAfter >= 0 && !cancelled && got >= cancelAfter {
					cancel()
					cancelled = true
				}
				if p := pat[i%len(pat)]; p > 0 {
					time.Sleep(time.Duration(p) * rate / 2)
				}
				expired := inner.Err() != nil || guardFired.Load() // (a deadline may have passed during the pause)
				v, ok := <-c
				if !ok {
					break
				}
				got++
				if cancelled || expired {
					afterCancel++
				}
				if v.Before(last) {
					bad = fmt.Sprintf("value %d is stamped %v before its predecessor", got, last.Sub(v))
					break
				}
				last = v
				if got > count+3 {
					break // out of bounds already, do not run on
				}
			}
			cancel()
			time.Sleep(3 * rate)
			synctest.Wait()
			if left := vkit.BubbleOthers(); len(left) != 0 {
				leak = vkit.DescribeGoroutines(left)
			}
		})
		switch {
		case firstBlocked:
			vkit.Fail(t, "C20/first-not-immediate", "no value was available right after LinearAttempt returned\ncase: %v", trace)
		case bad != "":
			vkit.Fail(t, "C20/free-order", "%s\ncase: %v", bad, trace)
		case got > count:
			vkit.Fail(t, "C20/more-than-count", "the channel yielded %d values (and counting), count is %d\ncase: %v", got, count, trace)
		case cancelAfter < 0 && deadlineTicks < 0 && guardAt < 0 && got != count:
			vkit.Fail(t, "C20/closed-early", "a receiver that kept receiving got %d values before the channel was closed, count is %d and the context was never cancelled\ncase: %v", got, count, trace)
		case afterCancel > 2:
			vkit.Fail(t, "C20/too-many-after-cancel", "%d values were received after the context had been cancelled (at most one buffered and one in flight are possible)\ncase: %v", afterCancel, trace)
		case leak != "":
			vkit.Fail(t, "C20+C12/goroutine-leak", "the producing goroutine is still there after the channel was closed:\n%s\ncase: %v", leak, trace)
		}
		ties := 0
		for _, p := range pat {
			if p > 0 && p%2 == 0 {
				ties++
			}
		}
		st.Case(trace, ties > 0 && count >= 7, fmt.Sprintf("count:%d", count), map[bool]string{true: "cancelled", false: "to-the-end"}[cancelAfter >= 0 || deadlineTicks >= 0 || guardAt >= 0])
	})
}

// c20GuardCtx runs fire right after it has answered its at-th Err call (the answer is the one computed before).
type c20GuardCtx struct {
	context.Context
	calls *atomic.Int32
	at    int32
	fire  func()
}

func (c c20GuardCtx) Err() error {
	err := c.Context.Err()
	if c.calls.Add(1) == c.at {
		c.fire()
	}
	return err
}
