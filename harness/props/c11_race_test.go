package props

// C11 — generated concurrent programs per type, executed by a binary built with -race. The oracle is the Go
// race detector (vector-clock happens-before over the executed history); the driver turns every report whose
// stacks contain a library frame into a violation. Payloads are pointers to plain structs written
// non-atomically just before hand-over and read just after receipt, so a missing happens-before edge on the
// publication path is itself a reported race.
//
// Programs stay inside the documented contracts (first call on a zero Buffer completes before sharing;
// subscribers follow the ChanPubSub contract; Notifier subscriptions are cancelled before Unsubscribe …) and
// are built to terminate: every blocking call has a context that the program cancels at the end.

import (
	"context"
	"fmt"
	"os"
	"sync"
	"sync/atomic"
	"testing"
	"time"

	bigbuff "github.com/joeycumines/go-bigbuff"
	"pgregory.net/rapid"

	"verif/harness/vkit"
)

type racePayload struct{ a, b int }

func raceNewPayload(v int) *racePayload {
	p := &racePayload{}
	p.a = v // plain writes right before hand-over
	p.b = v * 2
	return p
}

func raceReadPayload(x any) int {
	if p, ok := x.(*racePayload); ok && p != nil {
		return p.a + p.b // plain reads right after receipt
	}
	return 0
}

// overlap bookkeeping: which pairs of methods actually ran concurrently on the same object
type raceOverlap struct {
	mu     sync.Mutex
	active map[string]int
	pairs  map[string]bool
}

func (o *raceOverlap) enter(name string) func() {
	o.mu.Lock()
	for other, n := range o.active {
		if n > 0 {
			a, b := name, other
			if a > b {
				a, b = b, a
			}
			o.pairs[a+"||"+b] = true
		}
	}
	o.active[name]++
	o.mu.Unlock()
	return func() {
		o.mu.Lock()
		o.active[name]--
		o.mu.Unlock()
	}
}

func raceYield(n int) {
	for i := 0; i < n; i++ {
		time.Sleep(0)
	}
}

func TestC11RacePrograms(t *testing.T) {
	st := vkit.For("c11_race_programs")
	only := os.Getenv("VKIT_RACE_ONLY")
	rapid.Check(t, func(t *rapid.T) {
		kinds := []string{"buffer", "buffer", "buffer", "channel", "exclusive", "workers", "worker", "notifier", "waitcond", "context"}
		kind := rapid.SampledFrom(kinds).Draw(t, "type")
		if only != "" {
			kind = only
		}
		ov := &raceOverlap{active: map[string]int{}, pairs: map[string]bool{}}
		trace := []string{"type=" + kind}
		vkit.CaseStart(func() string { return fmt.Sprint(trace) })
		nG := rapid.IntRange(2, 6).Draw(t, "goroutines")
		scripts := make([][]int, nG)
		for i := range scripts {
			n := rapid.IntRange(1, 8).Draw(t, "len")
			for j := 0; j < n; j++ {
				scripts[i] = append(scripts[i], rapid.IntRange(0, 99).Draw(t, "op"))
			}
		}
		trace = append(trace, fmt.Sprintf("scripts=%v", scripts))
		done := make(chan struct{})
		go func() {
			defer close(done)
			switch kind {
			case "buffer":
				raceBuffer(ov, scripts)
			case "channel":
				raceChannel(ov, scripts)
			case "exclusive":
				raceExclusive(ov, scripts)
			case "workers":
				raceWorkers(ov, scripts)
			case "worker":
				raceWorker(ov, scripts)
			case "notifier":
				raceNotifier(ov, scripts)
			case "waitcond":
				raceWaitCond(ov, scripts)
			case "context":
				raceContext(ov, scripts)
			}
		}()
		select {
		case <-done:
		case <-time.After(60 * time.Second):
			vkit.Inconclusive("race program did not terminate within 60s: %v", trace)
			t.Fatalf("race program stuck (inconclusive, not a verdict): %v", trace)
		}
		var cls []string
		for p := range ov.pairs {
			cls = append(cls, "overlap:"+kind+":"+p)
		}
		cls = append(cls, "type:"+kind)
		st.Case(trace, len(ov.pairs) > 0, cls...)
	})
}

func raceRun(scripts [][]int, f func(g int, script []int)) {
	var wg sync.WaitGroup
	start := make(chan struct{})
	for g := range scripts {
		wg.Add(1)
		go func(g int) {
			defer wg.Done()
			<-start
			f(g, scripts[g])
		}(g)
	}
	close(start)
	wg.Wait()
}

// ---- Buffer + consumers

func raceBuffer(ov *raceOverlap, scripts [][]int) {
	b := new(bigbuff.Buffer)
	_ = b.Size() // the first call completes before the Buffer is shared (documented requirement)
	ctx, cancel := context.WithCancel(context.Background())
	defer cancel()
	// a quarter of the programs have no standing shared consumer, so the set of open consumers can become empty
	// (and non-empty again) while other goroutines are inside Buffer methods
	var shared bigbuff.Consumer
	if !(len(scripts) > 0 && len(scripts[0]) > 0 && scripts[0][0]%4 == 0) {
		shared, _ = b.NewConsumer()
	}
	var lastNote atomic.Pointer[bigbuff.FixedBufferCleanerNotification]
	readNote := func() {
		if n := lastNote.Load(); n != nil {
			sum := n.Size + n.Trim
			for _, o := range n.Offsets {
				sum += o
			}
			_ = sum
		}
	}
	if len(scripts) > 0 && len(scripts[0]) > 0 && scripts[0][0]%3 == 1 {
		// a third of the programs run with a forcing cleaner (and a callback that keeps what it is handed) from the start
		_ = b.SetCleanerConfig(bigbuff.CleanerConfig{Cleaner: bigbuff.FixedBufferCleaner(6, 3, func(n bigbuff.FixedBufferCleanerNotification) {
			lastNote.Store(&n)
		}), Cooldown: 0})
	}
	var sharedMu sync.Mutex // only guards the harness's own "pending reads" counter
	pendingShared := 0
	var seq atomic.Int64
	raceRun(scripts, func(g int, script []int) {
		var own bigbuff.Consumer
		ownPending := 0
		for _, op := range script {
			switch {
			case op < 20:
				d := ov.enter("Put")
				n := 1 + op%3
				vals := make([]any, n)
				for i := range vals {
					vals[i] = raceNewPayload(int(seq.Add(1)))
				}
				_ = b.Put(ctx, vals...)
				d()
				// the argument slice is the caller's again once Put has returned
				for i := range vals {
					vals[i] = nil
				}
			case op < 30:
				if own == nil {
					d := ov.enter("NewConsumer")
					own, _ = b.NewConsumer()
					d()
				}
			case op < 50:
				c := own
				if c == nil || (op%2 == 0 && shared != nil) {
					c = shared
				}
				if c == nil {
					continue
				}
				d := ov.enter("Get")
				gctx, gcancel := context.WithTimeout(ctx, 200*time.Microsecond)
				v, err := c.Get(gctx)
				gcancel()
				d()
				if err == nil {
					raceReadPayload(v)
					if c == shared {
						sharedMu.Lock()
						pendingShared++
						sharedMu.Unlock()
					} else {
						ownPending++
					}
				}
			case op < 60:
				c := own
				if c == nil || (op%2 == 0 && shared != nil) {
					c = shared
				}
				if c == nil {
					continue
				}
				d := ov.enter("Commit")
				if c.Commit() == nil {
					if c == shared {
						sharedMu.Lock()
						pendingShared = 0
						sharedMu.Unlock()
					} else {
						ownPending = 0
					}
				}
				d()
			case op < 66:
				c := own
				if c == nil || (op%2 == 0 && shared != nil) {
					c = shared
				}
				if c == nil {
					continue
				}
				d := ov.enter("Rollback")
				if c.Rollback() == nil {
					if c == shared {
						sharedMu.Lock()
						pendingShared = 0
						sharedMu.Unlock()
					} else {
						ownPending = 0
					}
				}
				d()
			case op < 72:
				d := ov.enter("Slice")
				for _, v := range b.Slice() {
					raceReadPayload(v)
				}
				d()
			case op < 78:
				d := ov.enter("Size")
				_ = b.Size()
				d()
				readNote()
			case op < 84:
				if shared != nil {
					d := ov.enter("Diff")
					_, _ = b.Diff(shared)
					d()
				}
			case op < 88:
				d := ov.enter("SetCleanerConfig")
				cd := time.Duration(op%3) * 50 * time.Microsecond
				if op%2 == 0 {
					_ = b.SetCleanerConfig(bigbuff.CleanerConfig{Cleaner: bigbuff.DefaultCleaner, Cooldown: cd})
				} else {
					// the callback keeps the notification (what the library handed over is the receiver's to keep);
					// another goroutine reads it later
					_ = b.SetCleanerConfig(bigbuff.CleanerConfig{Cleaner: bigbuff.FixedBufferCleaner(8, 4, func(n bigbuff.FixedBufferCleanerNotification) {
						lastNote.Store(&n)
					}), Cooldown: cd})
				}
				d()
			case op < 92:
				d := ov.enter("CleanerConfig")
				_ = b.CleanerConfig()
				d()
				if n := lastNote.Load(); n != nil {
					sum := n.Size + n.Trim
					for _, o := range n.Offsets {
						sum += o
					}
					_ = sum
				}
			case op < 96:
				if own != nil {
					d := ov.enter("Buffer.Range")
					rctx, rcancel := context.WithTimeout(ctx, time.Millisecond)
					_ = b.Range(rctx, own, func(i int, v any) bool { raceReadPayload(v); return i < 3 })
					rcancel()
					ownPending = 0
					d()
				}
			case op < 98:
				d := ov.enter("Done")
				_ = b.Done()
				if shared != nil {
					_ = shared.Done()
				}
				d()
			default:
				// a burst of short-lived consumers (more than a handful open at once), all closed again
				d := ov.enter("consumer-burst")
				var burst []bigbuff.Consumer
				for i := 0; i < 9+op%4; i++ {
					if c, err := b.NewConsumer(); err == nil {
						burst = append(burst, c)
					}
				}
				for _, c := range burst {
					_ = c.Close()
				}
				d()
			}
		}
		if own != nil {
			if ownPending > 0 {
				_ = own.Rollback()
			}
			d := ov.enter("consumer.Close")
			_ = own.Rollback()
			_ = own.Close()
			d()
		}
	})
	if shared != nil {
		_ = shared.Rollback()
		_ = shared.Close()
	}
	_ = b.Close()
	<-b.Done()
}

// ---- Channel

func raceChannel(ov *raceOverlap, scripts [][]int) {
	src := make(chan *racePayload, 4)
	ctx, cancel := context.WithCancel(context.Background())
	defer cancel()
	ch, err := bigbuff.NewChannel(ctx, 50*time.Microsecond, src)
	if err != nil {
		panic(err)
	}
	stop := make(chan struct{})
	var fw sync.WaitGroup
	fw.Add(1)
	go func() {
		defer fw.Done()
		for i := 1; ; i++ {
			select {
			case src <- raceNewPayload(i):
			case <-stop:
				return
			}
		}
	}()
	raceRun(scripts, func(g int, script []int) {
		for _, op := range script {
			switch {
			case op < 40:
				d := ov.enter("Get")
				gctx, gcancel := context.WithTimeout(ctx, 300*time.Microsecond)
				v, err := ch.Get(gctx)
				gcancel()
				d()
				if err == nil {
					raceReadPayload(v)
				}
			case op < 52:
				d := ov.enter("Commit")
				_ = ch.Commit()
				d()
			case op < 64:
				d := ov.enter("Rollback")
				_ = ch.Rollback()
				d()
			case op < 86:
				d := ov.enter("Buffer")
				for _, v := range ch.Buffer() {
					raceReadPayload(v)
				}
				d()
			case op < 89:
				d := ov.enter("Done")
				_ = ch.Done()
				d()
			case op < 92:
				d := ov.enter("Close")
				_ = ch.Close()
				d()
			default:
				// the Channel is closed by cancelling the context it was built on, while the others carry on
				d := ov.enter("cancel-parent")
				cancel()
				d()
			}
		}
	})
	_ = ch.Close()
	close(stop)
	fw.Wait()
	if len(scripts) > 0 && len(scripts[0]) > 0 && scripts[0][0]%2 == 0 {
		raceChannelCancelLane(30, scripts[0][0])
	}
}

// raceChannelCancelLane: many short-lived Channels over one source, each closed by cancelling the context it was built
// on at a sweeping offset while another goroutine is in the middle of Get/Commit, followed at once by Buffer().
func raceChannelCancelLane(rounds, off int) {
	src := make(chan *racePayload, 64)
	var dummy atomic.Int64
	for r := 0; r < rounds; r++ {
		for len(src) < 32 {
			src <- raceNewPayload(r)
		}
		ctx, cancel := context.WithCancel(context.Background())
		ch, err := bigbuff.NewChannel(ctx, 20*time.Microsecond, src)
		if err != nil {
			panic(err)
		}
		var wg sync.WaitGroup
		wg.Add(1)
		go func() {
			defer wg.Done()
			for i := 0; ; i++ {
				v, err := ch.Get(context.Background())
				if err != nil {
					return
				}
				raceReadPayload(v)
				if i%8 == 7 {
					_ = ch.Commit()
				}
			}
		}()
		for i := (off + r*7) % 300; i > 0; i-- {
			_ = dummy.Load()
		}
		cancel()
		for _, v := range ch.Buffer() {
			raceReadPayload(v)
		}
		wg.Wait()
		_ = ch.Close()
		<-ch.Done()
	}
}

// ---- Exclusive: a plain per-key counter is touched by every work function (mutual exclusion => no race)

func raceExclusive(ov *raceOverlap, scripts [][]int) {
	var e bigbuff.Exclusive
	counters := make([]int, 3)
	ctx, cancel := context.WithCancel(context.Background())
	defer cancel()
	raceRun(scripts, func(g int, script []int) {
		for _, op := range script {
			key := op % 3
			value := func() (any, error) {
				counters[key]++ // plain access: safe only if executions of one key never overlap
				raceYield(op % 4)
				counters[key]++
				return raceNewPayload(op), nil
			}
			switch (op / 3) % 6 {
			case 0:
				d := ov.enter("Call")
				v, _ := e.Call(key, value)
				raceReadPayload(v)
				d()
			case 1:
				d := ov.enter("CallAfter")
				v, _ := e.CallAfter(key, value, time.Duration(op%3)*20*time.Microsecond)
				raceReadPayload(v)
				d()
			case 2:
				d := ov.enter("CallAsync")
				c := e.CallAsync(key, value)
				d()
				if o := <-c; o != nil {
					raceReadPayload(o.Result)
				}
			case 3:
				d := ov.enter("Start")
				e.Start(key, value)
				d()
			case 4:
				d := ov.enter("CallWithOptions")
				c := e.CallWithOptions(bigbuff.ExclusiveKey(key), bigbuff.ExclusiveWork(func(resolve func(any, error)) {
					counters[key]++
					resolve(raceNewPayload(op), nil)
					raceYield(op % 3)
					counters[key]++ // still inside the work function after resolving
				}), bigbuff.ExclusiveRateLimit(ctx, 30*time.Microsecond))
				d()
				if o := <-c; o != nil {
					raceReadPayload(o.Result)
				}
			default:
				d := ov.enter("StartAfter")
				e.StartAfter(key, func() (any, error) { return nil, nil }, 10*time.Microsecond)
				d()
			}
		}
	})
	// let straggling Start executions finish: a final Call per key is answered by an execution begun after it
	for k := 0; k < 3; k++ {
		_, _ = e.Call(k, func() (any, error) { counters[k]++; return nil, nil })
	}
	time.Sleep(200 * time.Microsecond)
}

// ---- Workers

func raceWorkers(ov *raceOverlap, scripts [][]int) {
	var w bigbuff.Workers
	raceRun(scripts, func(g int, script []int) {
		for _, op := range script {
			switch {
			case op < 70:
				d := ov.enter("Call")
				in := raceNewPayload(op)
				v, _ := w.Call(1+op%3, func() (any, error) {
					raceYield(op % 3)
					return raceNewPayload(raceReadPayload(in)), nil
				})
				raceReadPayload(v)
				d()
			case op < 85:
				d := ov.enter("Count")
				_ = w.Count()
				d()
			case op < 95:
				d := ov.enter("Wrap")
				f := w.Wrap(1+op%2, func() (any, error) { return raceNewPayload(op), nil })
				v, _ := f()
				raceReadPayload(v)
				d()
			default:
				// Wait is legal on a pool that was never used, also while somebody else makes the very first Call
				if op%2 == 0 {
					_, _ = w.Call(1, func() (any, error) { return nil, nil })
				}
				d := ov.enter("Wait")
				w.Wait()
				d()
			}
		}
	})
	_, _ = w.Call(1, func() (any, error) { return nil, nil })
	w.Wait()
}

// ---- Worker

func raceWorker(ov *raceOverlap, scripts [][]int) {
	var w bigbuff.Worker
	state := 0 // plain variable owned by the running instance: safe only if instances never overlap
	fn := func(stop <-chan struct{}) {
		state++
		<-stop
		state++
	}
	raceRun(scripts, func(g int, script []int) {
		for _, op := range script {
			d := ov.enter("Do")
			done := w.Do(fn)
			d()
			raceYield(op % 5)
			d2 := ov.enter("done")
			done()
			d2()
		}
	})
	// make sure the last instance has stopped
	done := w.Do(fn)
	done()
	time.Sleep(200 * time.Microsecond)
}

// ---- Notifier

func raceNotifier(ov *raceOverlap, scripts [][]int) {
	var n bigbuff.Notifier
	ctx, cancel := context.WithCancel(context.Background())
	defer cancel()
	// two standing subscriptions per key (a pointer and an interface element type), drained until the end, so that
	// the very first publishes of the program already have somebody to deliver to
	var sw sync.WaitGroup
	stopDrain := make(chan struct{})
	var standing []func()
	for key := 0; key < 2; key++ {
		tp, ta := make(chan *racePayload, 1), make(chan any, 1)
		n.Subscribe(key, tp)
		n.Subscribe(key, ta)
		standing = append(standing, func() { n.Unsubscribe(key, tp); n.Unsubscribe(key, ta) })
		sw.Add(1)
		go func() {
			defer sw.Done()
			for {
				select {
				case v := <-tp:
					raceReadPayload(v)
				case v := <-ta:
					raceReadPayload(v)
				case <-stopDrain:
					return
				}
			}
		}()
	}
	defer func() {
		for _, f := range standing {
			f()
		}
		close(stopDrain)
		sw.Wait()
	}()
	raceRun(scripts, func(g int, script []int) {
		for _, op := range script {
			key := op % 2
			switch {
			case op < 40:
				// subscribe, receive for a while, cancel, unsubscribe (context cancelled before Unsubscribe, as documented)
				target := make(chan *racePayload)
				sctx, scancel := context.WithCancel(ctx)
				d := ov.enter("SubscribeContext")
				n.SubscribeContext(sctx, key, target)
				d()
				deadline := time.After(time.Duration(50+op*4) * time.Microsecond)
			loop:
				for {
					select {
					case v := <-target:
						raceReadPayload(v)
					case <-deadline:
						break loop
					}
				}
				scancel()
				d = ov.enter("Unsubscribe")
				n.Unsubscribe(key, target)
				d()
			case op < 50:
				target := make(chan any, 1)
				d := ov.enter("SubscribeCancel")
				c := n.SubscribeCancel(ctx, key, target)
				d()
				raceYield(op % 4)
				c()
			default:
				d := ov.enter("PublishContext")
				pctx, pcancel := context.WithTimeout(ctx, 300*time.Microsecond)
				switch op % 5 {
				case 0, 2:
					n.PublishContext(pctx, key, nil) // an untyped nil reaches every nilable element type
				case 1:
					n.PublishContext(pctx, key, (*racePayload)(nil))
				default:
					n.PublishContext(pctx, key, raceNewPayload(op))
				}
				pcancel()
				d()
			}
		}
	})
	cancel()
	time.Sleep(300 * time.Microsecond) // SubscribeCancel's goroutines unsubscribe after the cancel
}

// ---- WaitCond

func raceWaitCond(ov *raceOverlap, scripts [][]int) {
	var mu sync.Mutex
	cond := sync.NewCond(&mu)
	level := 0
	ctx, cancel := context.WithCancel(context.Background())
	defer cancel()
	raceRun(scripts, func(g int, script []int) {
		for _, op := range script {
			if op < 60 {
				d := ov.enter("WaitCond")
				wctx, wcancel := context.WithTimeout(ctx, time.Duration(20+op*5)*time.Microsecond)
				mu.Lock()
				want := level + op%3
				_ = bigbuff.WaitCond(wctx, cond, func() bool { return level >= want })
				mu.Unlock()
				wcancel()
				d()
			} else {
				mu.Lock()
				level++
				if op%2 == 0 {
					cond.Broadcast()
				}
				mu.Unlock()
			}
		}
	})
}

// ---- context combinators

func raceContext(ov *raceOverlap, scripts [][]int) {
	type cc struct {
		ctx    context.Context
		cancel context.CancelFunc
	}
	var inputs []cc
	for i := 0; i < 4; i++ {
		c, cancel := context.WithCancel(context.WithValue(context.Background(), i, i))
		inputs = append(inputs, cc{c, cancel})
	}
	var hits atomic.Int64
	raceRun(scripts, func(g int, script []int) {
		for _, op := range script {
			a, b := inputs[op%4], inputs[(op/4)%4]
			switch (op / 16) % 4 {
			case 0:
				d := ov.enter("CombineContext")
				c := bigbuff.CombineContext(a.ctx, b.ctx, nil, inputs[(op/2)%4].ctx)
				_ = c.Err()
				_ = c.Value(op % 4)
				d()
			case 1:
				d := ov.enter("ConflatedContext")
				if op%3 == 0 {
					// fresh inputs, one of which is cancelled by another goroutine while the combinator is being built
					n := 3 + op%6
					fresh := make([]context.Context, n)
					cancels := make([]context.CancelFunc, n)
					for i := range fresh {
						fresh[i], cancels[i] = context.WithCancel(context.Background())
					}
					var cw sync.WaitGroup
					cw.Add(1)
					go func() {
						defer cw.Done()
						raceYield(op % 5)
						cancels[(op/3)%2]()
					}()
					var c context.Context
					var cancel context.CancelFunc
					if op%2 == 0 {
						c, cancel = bigbuff.ConflatedContext(fresh...)
					} else {
						c, cancel = bigbuff.CombineContext(fresh[0], fresh[1:]...), func() {}
					}
					_ = c.Err()
					cw.Wait()
					for _, cn := range cancels {
						cn()
					}
					select {
					case <-c.Done():
					case <-time.After(time.Second): // not this property's business (C16)
					}
					cancel()
					d()
					continue
				}
				c, cancel := bigbuff.ConflatedContext(a.ctx, b.ctx)
				_ = c.Err()
				if op%2 == 0 {
					cancel()
				} else {
					defer cancel()
				}
				d()
			case 2:
				d := ov.enter("ChainAfterFunc")
				bigbuff.ChainAfterFunc(a.ctx, b.ctx, func() { hits.Add(1) })
				d()
			default:
				d := ov.enter("cancel")
				inputs[op%4].cancel()
				d()
			}
		}
	})
	for _, in := range inputs {
		in.cancel()
	}
	time.Sleep(100 * time.Microsecond)
}
