//go:build verif && go1.25

package props

// buffree — free-running concurrent Buffer programs inside a synctest bubble (C01, C02, C03, C05, C12).
//
// A generated program: 1-4 producers (each 1-8 batches of 1-4 values, drawn yields), one witness consumer
// created before the first Put that reads everything and commits every k, and 0-5 further consumers created at
// drawn points of the run, each with a drawn script (read n, commit every k, roll back now and then, close
// early or at the end). The cleaner (default cleaner behind a logging wrapper) runs concurrently with a drawn
// cooldown; drawn Gosched bursts at the library's instrumentation points (async getter start, predicate->park,
// watcher woken, cleaner pass) and at harness points perturb the schedule. Goroutines run on the real
// scheduler; the bubble supplies virtual time, deadlock detection and the leak oracle.
//
// Oracles over the recorded history (logical clock): the witness stream is validated as THE put order
// (permutation of all values, batches contiguous and in argument order, producer program order, real-time
// order); every other consumer's first-time reads are a contiguous run of it starting at an index between the
// eviction counts observed around its creation; re-reads after a rollback replay exactly the uncommitted reads;
// no Get fails except by cancellation/close; everything closes and no goroutine is left.

import (
	"context"
	"fmt"
	"os"
	"runtime"
	"strings"
	"sync"
	"sync/atomic"
	"testing"
	"testing/synctest"
	"time"

	bigbuff "github.com/joeycumines/go-bigbuff"
	"pgregory.net/rapid"

	"verif/harness/vkit"
)

type bfPut struct {
	prod, seq        int
	vals             []int
	called, returned int64
}

type bfConsScript struct {
	createAfter int // create once this many Puts have been called (0 = before the producers start)
	preYield    int
	quota       int // stop after this many first-time reads (<0: until cancelled)
	commitEvery int
	rollbackAt  []int // after the i-th read (1-based positions, drawn), roll back
	getYield    int
	closeEarly  bool
}

type bfCons struct {
	script                 bfConsScript
	newCalled, newReturned int64
	reads                  []int // every value returned by Get, in order (incl. re-reads)
	firsts                 []int // first-time reads
	errs                   []string
}

func bfAbbrev(v []int) string {
	if len(v) <= 60 {
		return fmt.Sprint(v)
	}
	return fmt.Sprintf("%v ... (%d values) ... %v", v[:30], len(v), v[len(v)-20:])
}

func bfTok(p, s, i int) int { return p*1000000 + s*100000 + i }

func TestBufFree(t *testing.T) {
	prof := os.Getenv("VKIT_PROFILE")
	st := vkit.For("buffree_" + prof)
	defer bigbuff.VerifSetHook(nil)
	on := func(tags string) bool {
		if prof == "" {
			return true
		}
		for _, p := range strings.Split(tags, "+") {
			if p == prof {
				return true
			}
		}
		return false
	}
	rapid.Check(t, func(t *rapid.T) {
		nProd := rapid.IntRange(1, 4).Draw(t, "producers")
		var puts [][]*bfPut
		totalPuts, totalVals := 0, 0
		bigLeft := 0
		if rapid.IntRange(0, 15).Draw(t, "hugeCase") == 0 {
			bigLeft = 2 // one case in sixteen carries up to two huge batches (they cost thousands of Gets)
		}
		for p := 0; p < nProd; p++ {
			nb := rapid.IntRange(1, 8).Draw(t, "batches")
			var ps []*bfPut
			for s := 0; s < nb; s++ {
				k := rapid.IntRange(1, 4).Draw(t, "batch")
				// batch sizes are not limited by the library: now and then a large or huge batch (at most two per case)
				if bigLeft > 0 {
					if rapid.IntRange(0, 3).Draw(t, "bigBatch") == 0 {
						k = rapid.SampledFrom([]int{1000, 4096, 4097, 5000, 9000}).Draw(t, "hugeBatch")
						bigLeft--
					}
				} else if rapid.IntRange(0, 19).Draw(t, "largeBatch") == 0 {
					k = rapid.IntRange(5, 64).Draw(t, "largeBatchSize")
				}
				b := &bfPut{prod: p, seq: s}
				for i := 0; i < k; i++ {
					b.vals = append(b.vals, bfTok(p+1, s, i))
				}
				ps = append(ps, b)
				totalPuts++
				totalVals += k
			}
			puts = append(puts, ps)
		}
		prodYield := rapid.SampledFrom([]int{0, 0, 1, 3}).Draw(t, "prodYield")
		nCons := rapid.IntRange(0, 5).Draw(t, "consumers")
		cons := make([]*bfCons, nCons)
		for i := range cons {
			sc := bfConsScript{
				createAfter: rapid.IntRange(0, totalPuts).Draw(t, "createAfter"),
				preYield:    rapid.SampledFrom([]int{0, 0, 1, 5}).Draw(t, "preYield"),
				quota:       rapid.SampledFrom([]int{-1, -1, 1, 3, 6}).Draw(t, "quota"),
				commitEvery: rapid.IntRange(1, 4).Draw(t, "commitEvery"),
				getYield:    rapid.SampledFrom([]int{0, 0, 1, 2}).Draw(t, "getYield"),
				closeEarly:  rapid.Bool().Draw(t, "closeEarly"),
			}
			for k := rapid.IntRange(0, 2).Draw(t, "rollbacks"); k > 0; k-- {
				sc.rollbackAt = append(sc.rollbackAt, rapid.IntRange(1, 8).Draw(t, "rollbackAt"))
			}
			cons[i] = &bfCons{script: sc}
		}
		witnessCommit := rapid.IntRange(1, 5).Draw(t, "witnessCommit")
		cooldown := rapid.SampledFrom([]time.Duration{0, 0, 50 * time.Microsecond, time.Millisecond}).Draw(t, "cooldown")
		cleanerYield := rapid.SampledFrom([]int{0, 0, 1, 3, 10}).Draw(t, "cleanerYield") // a cleaner callback may take its time
		nObservers := rapid.SampledFrom([]int{0, 0, 1, 2}).Draw(t, "observers")          // goroutines polling Slice/Size/CleanerConfig
		// the very first calls on the zero Buffer are made by two goroutines at once (the lazy initialiser tolerates
		// it apart from the data race it documents, so this is not generated for the race-detector runs)
		concFirst := prof != "C11" && rapid.IntRange(0, 3).Draw(t, "concurrentFirstUse") == 0
		hookYield := map[int]int{}
		for _, p := range []int{bigbuff.VerifGetAsyncStart, bigbuff.VerifWaitCondBeforePark, bigbuff.VerifWaitCondWatcherWoken, bigbuff.VerifCleanupAfterPass, bigbuff.VerifCleanupTimerFired} {
			hookYield[p] = rapid.SampledFrom([]int{0, 0, 0, 1, 3, 10}).Draw(t, "hookYield")
		}
		trace := []string{fmt.Sprintf("producers=%d puts=%d values=%d prodYield=%d cooldown=%v witnessCommit=%d hooks=%v cleanerYield=%d observers=%d concurrentFirstUse=%v", nProd, totalPuts, totalVals, prodYield, cooldown, witnessCommit, hookYield, cleanerYield, nObservers, concFirst)}
		for i, c := range cons {
			trace = append(trace, fmt.Sprintf("c%d=%+v", i, c.script))
		}
		vkit.CaseStart(func() string { return strings.Join(trace, " ; ") })

		var (
			clock    atomic.Int64
			mu       sync.Mutex
			cleanLog []struct {
				at      int64
				evicted int
			}
			evictedSoFar int
			witness      = &bfCons{}
			panics       []string
			leak         string
			closeErrs    []string
			overlapPuts  bool
			snapshots    [][]int
		)
		stamp := func() int64 { return clock.Add(1) }
		bigbuff.VerifSetHook(func(p int) {
			for i := hookYield[p]; i > 0; i-- {
				runtime.Gosched()
			}
		})

		rapid.SyncTest(t, func(t *rapid.T) {
			b := new(bigbuff.Buffer)
			cfg := bigbuff.CleanerConfig{Cooldown: cooldown, Cleaner: func(size int, offsets []int) int {
				r := bigbuff.DefaultCleaner(size, offsets)
				for i := 0; i < cleanerYield; i++ {
					runtime.Gosched()
				}
				if r > 0 {
					sh := r
					if sh > size {
						sh = size
					}
					mu.Lock()
					evictedSoFar += sh
					cleanLog = append(cleanLog, struct {
						at      int64
						evicted int
					}{stamp(), evictedSoFar})
					mu.Unlock()
				}
				return r
			}}
			if concFirst {
				start := make(chan struct{})
				var fw sync.WaitGroup
				fw.Add(2)
				go func() { defer fw.Done(); <-start; _ = b.SetCleanerConfig(cfg) }()
				go func() { defer fw.Done(); <-start; _ = b.Size() }()
				close(start)
				fw.Wait()
			} else {
				_ = b.SetCleanerConfig(cfg)
			}
			guard := func(who string) {
				if r := recover(); r != nil {
					mu.Lock()
					panics = append(panics, fmt.Sprintf("%s: %v", who, r))
					mu.Unlock()
				}
			}
			ctx, cancel := context.WithCancel(context.Background())
			defer cancel()
			putEvt := make([]chan struct{}, totalPuts+1)
			for i := range putEvt {
				putEvt[i] = make(chan struct{})
			}
			close(putEvt[0])
			var putsCalled atomic.Int64
			allPut := make(chan struct{})

			var wgCons, wgProd sync.WaitGroup
			runCons := func(idx int, c *bfCons, isWitness bool, commitEvery int, ready chan struct{}) {
				defer wgCons.Done()
				defer guard(fmt.Sprintf("consumer %d", idx))
				if !isWitness {
					select {
					case <-putEvt[c.script.createAfter]:
					case <-allPut:
					}
					for i := 0; i < c.script.preYield; i++ {
						runtime.Gosched()
					}
				}
				c.newCalled = stamp()
				cc, err := b.NewConsumer()
				c.newReturned = stamp()
				if ready != nil {
					close(ready)
				}
				if err != nil {
					c.errs = append(c.errs, "NewConsumer: "+err.Error())
					return
				}
				uncommitted := 0
				var pendingReplay []int // values that must be replayed after a rollback, in order
				var sinceCommit []int
				rb := map[int]bool{}
				for _, r := range c.script.rollbackAt {
					rb[r] = true
				}
				for {
					if isWitness && len(c.firsts) >= totalVals {
						break
					}
					if !isWitness && c.script.quota >= 0 && len(c.firsts) >= c.script.quota {
						break
					}
					gctx := ctx
					if isWitness {
						gctx = context.Background()
					}
					v, err := cc.Get(gctx)
					if err != nil {
						if ctx.Err() == nil || isWitness {
							c.errs = append(c.errs, fmt.Sprintf("Get #%d: %v", len(c.reads)+1, err))
						}
						break
					}
					iv, _ := v.(int)
					c.reads = append(c.reads, iv)
					uncommitted++
					sinceCommit = append(sinceCommit, iv)
					if len(pendingReplay) > 0 {
						if pendingReplay[0] != iv {
							c.errs = append(c.errs, fmt.Sprintf("REPLAY: after a rollback Get returned %d, expected the previously read %d", iv, pendingReplay[0]))
							break
						}
						pendingReplay = pendingReplay[1:]
					} else {
						c.firsts = append(c.firsts, iv)
					}
					for i := 0; i < c.script.getYield; i++ {
						runtime.Gosched()
					}
					if !isWitness && rb[len(c.reads)] && uncommitted > 0 {
						if err := cc.Rollback(); err != nil {
							c.errs = append(c.errs, "Rollback: "+err.Error())
						}
						// everything read since the last commit is replayed, in order; values of it that were
						// themselves still pending replay stay pending
						pendingReplay = append(append([]int(nil), sinceCommit...), pendingReplay...)
						sinceCommit = nil
						uncommitted = 0
						continue
					}
					if uncommitted >= commitEvery {
						if err := cc.Commit(); err != nil {
							c.errs = append(c.errs, "Commit: "+err.Error())
						}
						uncommitted = 0
						sinceCommit = nil
					}
				}
				if uncommitted > 0 {
					if len(c.reads)%2 == 0 {
						_ = cc.Commit()
					} else {
						_ = cc.Rollback()
					}
				}
				if isWitness || c.script.closeEarly {
					if err := cc.Close(); err != nil {
						mu.Lock()
						closeErrs = append(closeErrs, fmt.Sprintf("consumer %d Close: %v", idx, err))
						mu.Unlock()
					}
					select {
					case <-cc.Done():
					default:
						mu.Lock()
						closeErrs = append(closeErrs, fmt.Sprintf("consumer %d: Done not closed after Close", idx))
						mu.Unlock()
					}
				}
			}
			wReady := make(chan struct{})
			wgCons.Add(1)
			go runCons(-1, witness, true, witnessCommit, wReady)
			<-wReady
			for i, c := range cons {
				wgCons.Add(1)
				go runCons(i, c, false, c.script.commitEvery, nil)
			}
			obsStop := make(chan struct{})
			var wgObs sync.WaitGroup
			for o := 0; o < nObservers; o++ {
				wgObs.Add(1)
				go func() {
					defer wgObs.Done()
					defer guard("observer")
					for n := 0; ; n++ {
						select {
						case <-obsStop:
							return
						default:
						}
						sl := b.Slice()
						sz := b.Size()
						_ = b.CleanerConfig()
						_ = sz
						if n%7 == 0 {
							ints := make([]int, 0, len(sl))
							for _, v := range sl {
								iv, _ := v.(int)
								ints = append(ints, iv)
							}
							mu.Lock()
							if len(snapshots) < 40 {
								snapshots = append(snapshots, ints)
							}
							mu.Unlock()
						}
						runtime.Gosched()
					}
				}()
			}
			for p := range puts {
				wgProd.Add(1)
				go func(p int) {
					defer wgProd.Done()
					defer guard(fmt.Sprintf("producer %d", p))
					for _, pb := range puts[p] {
						for i := 0; i < prodYield; i++ {
							runtime.Gosched()
						}
						args := make([]any, len(pb.vals))
						for i, v := range pb.vals {
							args[i] = v
						}
						pb.called = stamp()
						close(putEvt[putsCalled.Add(1)])
						if err := b.Put(context.Background(), args...); err != nil {
							mu.Lock()
							panics = append(panics, fmt.Sprintf("Put failed: %v", err))
							mu.Unlock()
						}
						pb.returned = stamp()
						// the argument slice belongs to the caller again once Put has returned: reuse it
						for i := range args {
							args[i] = -7
						}
					}
				}(p)
			}
			wgProd.Wait()
			close(allPut)
			close(obsStop)
			wgObs.Wait()
			// the witness reads everything; then the remaining consumers are released by cancellation
			wDone := make(chan struct{})
			go func() { wgCons.Wait(); close(wDone) }()
			// give quota-less consumers the chance to catch up: they stop when cancelled, so wait until the
			// bubble is otherwise idle (everybody blocked in Get or finished)
			synctest.Wait()
			cancel()
			<-wDone
			if err := b.Close(); err != nil {
				mu.Lock()
				closeErrs = append(closeErrs, "Buffer.Close: "+err.Error())
				mu.Unlock()
			}
			select {
			case <-b.Done():
			default:
				mu.Lock()
				closeErrs = append(closeErrs, "Buffer.Done not closed after Close")
				mu.Unlock()
			}
			if err := b.Put(context.Background(), 1); err == nil {
				mu.Lock()
				closeErrs = append(closeErrs, "Put after Close returned nil")
				mu.Unlock()
			}
			time.Sleep(time.Hour)
			synctest.Wait()
			if left := vkit.BubbleOthers(); len(left) != 0 {
				leak = vkit.DescribeGoroutines(left)
			}
		})
		bigbuff.VerifSetHook(nil)

		fail := func(sig, f string, a ...any) {
			t.Helper()
			if !on(sig[:strings.Index(sig, "/")]) {
				vkit.Other(st, sig)
				return
			}
			var hist []string
			for _, ps := range puts {
				for _, p := range ps {
					if len(p.vals) > 8 {
						hist = append(hist, fmt.Sprintf("put[%d..%d x%d][%d..%d]", p.vals[0], p.vals[len(p.vals)-1], len(p.vals), p.called, p.returned))
					} else {
						hist = append(hist, fmt.Sprintf("put%v[%d..%d]", p.vals, p.called, p.returned))
					}
				}
			}
			hist = append(hist, fmt.Sprintf("witness=%s", bfAbbrev(witness.firsts)))
			for i, c := range cons {
				hist = append(hist, fmt.Sprintf("c%d[new %d..%d] reads=%s errs=%v", i, c.newCalled, c.newReturned, bfAbbrev(c.reads), c.errs))
			}
			hist = append(hist, fmt.Sprintf("evictions=%v", cleanLog))
			vkit.Fail(t, sig, "%s\ncase: %s\nhistory: %s", fmt.Sprintf(f, a...), strings.Join(trace, " ; "), strings.Join(hist, " ; "))
		}
		if len(panics) > 0 {
			fail("C01+C02+C03+C05+C12/panic", "panic / failed Put in a contract-following program: %v", panics)
		}
		for i, c := range append([]*bfCons{witness}, cons...) {
			for _, e := range c.errs {
				switch {
				case strings.HasPrefix(e, "REPLAY"):
					fail("C02/replay-value", "consumer %d: %s", i-1, e)
				case strings.HasPrefix(e, "Get"):
					fail("C03+C05/get-error", "consumer %d: %s (default cleaner, consumer keeps reading, context live)", i-1, e)
				case strings.HasPrefix(e, "Commit"), strings.HasPrefix(e, "Rollback"):
					fail("C02/commit-rollback-error", "consumer %d: %s with reads pending", i-1, e)
				default:
					fail("C01/newconsumer-error", "consumer %d: %s", i-1, e)
				}
			}
		}
		// ---- the witness stream is the put order
		w := witness.firsts
		pos := map[int]int{}
		for i, v := range w {
			if _, dup := pos[v]; dup {
				fail("C01/duplicate", "value %d appears twice in the witness stream", v)
			}
			pos[v] = i
		}
		if len(w) != totalVals {
			fail("C01+C05/witness-incomplete", "the witness consumer (created before the first Put, reads to the end) got %d of %d values", len(w), totalVals)
		}
		var flat []*bfPut
		for _, ps := range puts {
			prevEnd := -1
			for _, p := range ps {
				flat = append(flat, p)
				for i, v := range p.vals {
					at, ok := pos[v]
					if !ok {
						fail("C01/lost", "value %d of a successful Put never reached the witness", v)
					}
					if i > 0 && at != pos[p.vals[i-1]]+1 {
						fail("C01/batch-not-contiguous", "batch %v is not contiguous / in argument order in the put order %s", bfAbbrev(p.vals), bfAbbrev(w))
					}
				}
				if pos[p.vals[0]] <= prevEnd {
					fail("C01/producer-order", "producer %d's batches are out of program order in %s", p.prod, bfAbbrev(w))
				}
				prevEnd = pos[p.vals[len(p.vals)-1]]
			}
		}
		for _, a := range flat {
			for _, b2 := range flat {
				if a.returned < b2.called && pos[a.vals[0]] > pos[b2.vals[0]] {
					fail("C01/realtime-order", "Put%s returned before Put%s was called but comes later in the put order", bfAbbrev(a.vals), bfAbbrev(b2.vals))
				}
				if a != b2 && a.prod != b2.prod && a.called < b2.returned && b2.called < a.returned {
					overlapPuts = true
				}
			}
		}
		// ---- every Slice() snapshot taken while the program ran is a contiguous run of the put order
		for _, sn := range snapshots {
			for k, v := range sn {
				at, ok := pos[v]
				if !ok {
					fail("C01+C03/slice-content", "a concurrent Slice() snapshot contains %d, which was never put", v)
				}
				if k > 0 && at != pos[sn[k-1]]+1 {
					fail("C01+C03/slice-content", "a concurrent Slice() snapshot %s is not a contiguous run of the put order", bfAbbrev(sn))
				}
			}
		}
		// ---- every consumer sees a contiguous run of it, starting at the oldest value retained at its creation
		evictedAt := func(stampT int64, before bool) int {
			e := 0
			for _, l := range cleanLog {
				if (before && l.at < stampT) || (!before && l.at <= stampT) {
					e = l.evicted
				}
			}
			return e
		}
		for i, c := range cons {
			if len(c.firsts) == 0 {
				continue
			}
			for k, v := range c.firsts {
				at, ok := pos[v]
				if !ok {
					fail("C01/invented", "consumer %d read %d which was never put", i, v)
				}
				if k > 0 && at != pos[c.firsts[k-1]]+1 {
					fail("C01/gap-or-reorder", "consumer %d's stream %v is not a contiguous run of the put order %s", i, bfAbbrev(c.firsts), bfAbbrev(w))
				}
			}
			start := pos[c.firsts[0]]
			lo, hi := evictedAt(c.newCalled, true), evictedAt(c.newReturned, false)
			if start < lo || start > hi {
				fail("C01/start-position", "consumer %d (created t=%d..%d) starts at index %d of the put order, but the oldest retained value at its creation was at index %d..%d", i, c.newCalled, c.newReturned, start, lo, hi)
			}
		}
		if len(closeErrs) > 0 {
			fail("C12/close", "%v", closeErrs)
		}
		if leak != "" {
			fail("C12/goroutine-leak", "goroutines left after everything was closed:\n%s", leak)
		}
		evictions := len(cleanLog) > 0
		multi := nCons >= 1
		nt := multi && evictions && totalVals > totalPuts
		switch prof {
		case "C01":
			nt = nt && (nProd >= 2 && overlapPuts || nCons >= 2)
		case "C02":
			nt = false
			for _, c := range cons {
				if len(c.reads) > len(c.firsts) {
					nt = true
				}
			}
		}
		cls := []string{fmt.Sprintf("producers:%d", nProd), "cooldown:" + cooldown.String()}
		if concFirst {
			cls = append(cls, "concurrent-first-use")
		}
		if nObservers > 0 {
			cls = append(cls, "observers")
		}
		if overlapPuts {
			cls = append(cls, "puts-overlapped")
		}
		if evictions {
			cls = append(cls, "evictions")
		}
		for _, c := range cons {
			if len(c.reads) > len(c.firsts) {
				cls = append(cls, "replayed-after-rollback")
				break
			}
		}
		st.Case(trace, nt, cls...)
	})
}
