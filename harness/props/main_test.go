package props

import (
	"os"
	"testing"

	"verif/harness/vkit"
)

func TestMain(m *testing.M) {
	vkit.StartWatchdog()
	code := m.Run()
	vkit.DumpAll()
	os.Exit(code)
}
