//go:build go1.25

package props

// chanstep — model-based stateful testing of bigbuff.Channel inside a synctest bubble.
// Serves C13 (lossless / ordered / replay / commit) and the Channel part of C12.
//
// Model: fed (everything sent or queued for the source, tokens 1,2,3…), taken k, committed c,
// replay counter r, closed. Get polls in virtual time, so a blocked Get is only required to have
// noticed a new value / a cancelled Get-context after one full poll period has elapsed.

import (
	"context"
	"fmt"
	"os"
	"reflect"
	"strings"
	"sync/atomic"
	"testing"
	"testing/synctest"
	"time"

	bigbuff "github.com/joeycumines/go-bigbuff"
	"pgregory.net/rapid"

	"verif/harness/vkit"
)

type csMachine struct {
	prof string
	t    *rapid.T
	st   *vkit.Stats

	ch        *bigbuff.Channel
	src       csSource
	capacity  int
	rate      time.Duration
	parent    context.Context
	cancelPar context.CancelFunc

	fed       []int // every token handed to the source side, in order
	queued    int   // tokens handed to the feeder goroutine (unbuffered) / sent (buffered)
	feedQ     chan int
	feedQuit  chan struct{}
	srcClosed bool

	k, c, r int // taken, committed, replay
	closed  bool

	getOp     *vkit.Op
	getCancel context.CancelFunc
	getCtxErr bool
	getSince  time.Time // virtual time at which the pending get last became "due" (value available or ctx cancelled)
	getDue    bool

	trace []string
	// classification
	stage        int // rollback -> partial re-read -> rollback -> commit progress
	closeWithGet bool
	srcClosedGet bool
	autoClosed   bool
}

type csAbort struct{}

// csSelfCancelCtx cancels itself right after the first Err() call that answered nil.
type csSelfCancelCtx struct {
	context.Context
	armed  atomic.Bool
	cancel context.CancelFunc
}

func (c *csSelfCancelCtx) Err() error {
	e := c.Context.Err()
	if e == nil && c.armed.CompareAndSwap(true, false) {
		defer c.cancel()
	}
	return e
}

// csSource is the source channel behind a Channel, of a drawn element type: the model works with tokens 1,2,3…, the
// source carries them as int, as int boxed in interface{}, as *int-free strings, or — for chan struct{} — as
// indistinguishable struct{}{} values (then only counts and emptiness can be told apart, which is exactly what a
// closed source "producing" values would violate).
type csSource struct {
	kind string // "int" | "any" | "string" | "struct"
	ch   reflect.Value
}

func csNewSource(kind string, capacity int) csSource {
	var elem reflect.Type
	switch kind {
	case "any":
		elem = reflect.TypeOf((*any)(nil)).Elem()
	case "string":
		elem = reflect.TypeOf("")
	case "struct":
		elem = reflect.TypeOf(struct{}{})
	default:
		elem = reflect.TypeOf(0)
	}
	return csSource{kind: kind, ch: reflect.MakeChan(reflect.ChanOf(reflect.BothDir, elem), capacity)}
}

// want is what Get / Buffer must hand out for token v
func (s csSource) want(v int) any {
	switch s.kind {
	case "string":
		return fmt.Sprintf("v%d", v)
	case "struct":
		return struct{}{}
	case "any":
		if v%5 == 2 {
			return nil // a nil interface value is a value like any other
		}
	}
	return v
}

func (s csSource) zero() any {
	switch s.kind {
	case "any":
		return nil
	case "string":
		return ""
	case "struct":
		return struct{}{}
	}
	return 0
}

func (s csSource) val(v int) reflect.Value {
	rv := reflect.New(s.ch.Type().Elem()).Elem()
	if w := s.want(v); w != nil {
		rv.Set(reflect.ValueOf(w))
	}
	return rv
}

func (s csSource) send(v int) { s.ch.Send(s.val(v)) }
func (s csSource) len() int   { return s.ch.Len() }
func (s csSource) close()     { s.ch.Close() }

// sendOrQuit blocks until the token was sent or quit is closed
func (s csSource) sendOrQuit(v int, quit chan struct{}) bool {
	i, _, _ := reflect.Select([]reflect.SelectCase{
		{Dir: reflect.SelectSend, Chan: s.ch, Send: s.val(v)},
		{Dir: reflect.SelectRecv, Chan: reflect.ValueOf(quit)},
	})
	return i == 0
}

func (s csSource) iface(recvOnly bool) any {
	if recvOnly {
		return s.ch.Convert(reflect.ChanOf(reflect.RecvDir, s.ch.Type().Elem())).Interface()
	}
	return s.ch.Interface()
}

func (m *csMachine) on(props ...string) bool {
	if m.prof == "" {
		return true
	}
	for _, p := range props {
		if p == m.prof {
			return true
		}
	}
	return false
}

func (m *csMachine) tr(format string, args ...any) {
	m.trace = append(m.trace, fmt.Sprintf(format, args...))
	if os.Getenv("VKIT_DEBUG") != "" {
		fmt.Println("TRACE", m.trace[len(m.trace)-1])
	}
}

func (m *csMachine) fail(sig string, format string, args ...any) {
	m.t.Helper()
	if tags := strings.Split(sig[:strings.Index(sig, "/")], "+"); !m.on(tags...) {
		vkit.Other(m.st, sig)
		m.cleanup()
		panic(csAbort{})
	}
	msg := fmt.Sprintf("%s\ntrace: %s", fmt.Sprintf(format, args...), strings.Join(m.trace, " ; "))
	vkit.Announce(sig, "%s", msg)
	m.cleanup()
	m.t.Fatalf("[%s] %s", sig, msg)
}

func (m *csMachine) cleanup() {
	if m.getCancel != nil {
		m.getCancel()
	}
	m.cancelPar()
	ch := m.ch
	go func() { _ = ch.Close() }()
	select {
	case <-m.feedQuit:
	default:
		close(m.feedQuit)
	}
}

// available: number of fed tokens not yet taken that the source can hand out right now.
func (m *csMachine) available() int {
	return m.queued - m.k
}

func (m *csMachine) pendingCount() int { return (m.k - m.c) - m.r }

type csGetRes struct {
	v   any
	err error
}

// immediate outcome of a Get issued now
func (m *csMachine) getNow(ctxCancelled bool) (complete bool, val int, wantErr bool) {
	switch {
	case ctxCancelled, m.closed:
		return true, 0, true
	case m.r > 0:
		return true, m.fed[m.k-m.r], false
	case m.available() > 0:
		return true, m.fed[m.k], false
	}
	return false, 0, false
}

func (m *csMachine) applyGet(val int) {
	if m.r > 0 {
		m.r--
		if m.stage == 1 || m.stage == 2 {
			m.stage = 2
		}
	} else {
		m.k++
	}
	m.tr("get=%d", val)
}

func (m *csMachine) checkGetResult(op *vkit.Op, val int, wantErr bool) {
	if op.Panic != nil {
		m.fail("C13+C12/get-panic", "Get panicked: %v", op.Panic)
	}
	res := op.Res.(csGetRes)
	if wantErr {
		if res.err == nil {
			m.fail("C13+C12/get-after-close-or-cancel", "Get returned %v, expected an error (closed=%v)", res.v, m.closed)
		}
		m.tr("get=err")
		return
	}
	if res.err != nil {
		m.fail("C13/get-error", "Get failed with %v although value %d is available (replay=%d, in source=%d)", res.err, val, m.r, m.available())
	}
	if res.v != m.src.want(val) {
		if m.srcClosed && res.v == m.src.zero() {
			m.fail("C13/zero-value", "Get returned the zero value from the closed source")
		}
		if m.r > 0 {
			m.fail("C13/replay-value", "Get after Rollback returned %v, expected the replayed %d", res.v, val)
		}
		m.fail("C13/get-value", "Get returned %v, expected %d (next value of the source stream)", res.v, val)
	}
	m.applyGet(val)
}

func (m *csMachine) settle() {
	synctest.Wait()
	m.check()
}

func (m *csMachine) check() {
	if m.getOp != nil {
		switch {
		case m.closed:
			// Close / parent cancellation wakes a blocked Get at once
			if !m.getOp.Finished() {
				m.fail("C12+C13/get-not-woken-by-close", "Get still blocked at quiescence after the Channel was closed/cancelled")
			}
			op := m.getOp
			m.clearGet()
			m.checkGetResult(op, 0, true)
		case m.getOp.Finished():
			// a polling Get may complete only if something became due and a poll period may have elapsed
			complete, val, wantErr := m.getNow(m.getCtxErr)
			op := m.getOp
			if !complete {
				res, _ := op.Res.(csGetRes)
				m.clearGet()
				if op.Panic != nil {
					m.fail("C13+C12/get-panic", "Get panicked: %v", op.Panic)
				}
				if res.err == nil {
					if m.srcClosed && res.v == m.src.zero() {
						m.fail("C13/zero-value", "Get returned a zero value from the closed, drained source (element type %v)", m.src.ch.Type().Elem())
					}
					m.fail("C13/get-invented", "Get returned %v although the source has nothing to give", res.v)
				}
				m.fail("C13/get-spurious-error", "Get returned %v although nothing is available and neither context is cancelled", res.err)
			}
			m.clearGet()
			m.checkGetResult(op, val, wantErr)
		default:
			complete, _, _ := m.getNow(m.getCtxErr)
			if complete {
				if !m.getDue {
					m.getDue, m.getSince = true, time.Now()
				} else if time.Since(m.getSince) >= m.rate {
					m.fail("C13/get-stuck", "Get still blocked %v (>= one poll period %v) after a value became available / its context was cancelled", time.Since(m.getSince), m.rate)
				}
			} else {
				m.getDue = false
			}
		}
	}
	// observers
	if m.on("C13") {
		buf := m.ch.Buffer()
		if len(buf) != m.k-m.c {
			m.fail("C13/buffer-len", "Buffer() has %d entries, expected %d (taken %d - committed %d)", len(buf), m.k-m.c, m.k, m.c)
		}
		for i, v := range buf {
			if v != m.src.want(m.fed[m.c+i]) {
				m.fail("C13/buffer-content", "Buffer()[%d]=%v, expected %d: committed ++ Buffer() must be the taken prefix of the source", i, v, m.fed[m.c+i])
			}
		}
		// nothing lost: what is left in the source + taken == fed
		if m.capacity > 0 {
			if got := m.src.len(); got != m.queued-m.k {
				m.fail("C13/source-accounting", "source holds %d values, expected %d (sent %d - taken %d)", got, m.queued-m.k, m.queued, m.k)
			}
		}
	}
	if m.on("C12") {
		select {
		case <-m.ch.Done():
			if !m.closed {
				m.fail("C12/chan-done-early", "Done() closed although the Channel was neither closed nor cancelled")
			}
		default:
			if m.closed {
				m.fail("C12/chan-done-not-closed", "Done() still open at quiescence after close/cancel")
			}
		}
	}
}

func (m *csMachine) clearGet() {
	m.getOp = nil
	if m.getCancel != nil {
		m.getCancel()
		m.getCancel = nil
	}
	m.getCtxErr = false
	m.getDue = false
}

// ---- rules

func (m *csMachine) ruleFeed(t *rapid.T) {
	if m.srcClosed {
		t.Skip("source closed")
	}
	n := rapid.IntRange(1, 3).Draw(t, "feedN")
	if m.capacity == 0 && m.available() >= 8 {
		t.Skip("enough queued behind the unbuffered source")
	}
	if m.capacity > 0 {
		if free := m.capacity - m.src.len(); n > free {
			n = free
		}
		if n <= 0 {
			t.Skip("source full")
		}
	}
	for i := 0; i < n; i++ {
		v := len(m.fed) + 1
		m.fed = append(m.fed, v)
		if m.capacity > 0 {
			m.src.send(v)
		} else {
			m.feedQ <- v
		}
		m.queued++
	}
	m.tr("feed(%d)", n)
	m.settle()
}

func (m *csMachine) ruleGet(t *rapid.T) {
	if m.getOp != nil {
		t.Skip("get pending")
	}
	kind := rapid.SampledFrom([]string{"nil", "bg", "cancellable", "cancellable", "cancelled", "selfcancel"}).Draw(t, "getCtx")
	var ctx context.Context
	var cancel context.CancelFunc
	switch kind {
	case "selfcancel":
		// cancelled the moment after it was first asked and answered "live": a Get that found its value at once
		// returns it, one that has to wait notices the cancellation at its next look
		inner, cn := context.WithCancel(context.Background())
		w := &csSelfCancelCtx{Context: inner, cancel: cn}
		w.armed.Store(true)
		ctx, cancel = w, cn
	case "bg":
		ctx = context.Background()
	case "cancellable":
		ctx, cancel = context.WithCancel(context.Background())
	case "cancelled":
		var cn context.CancelFunc
		ctx, cn = context.WithCancel(context.Background())
		cn()
	}
	complete, val, wantErr := m.getNow(kind == "cancelled")
	ch := m.ch
	op := vkit.Launch("Channel.Get", func() any {
		v, err := ch.Get(ctx)
		return csGetRes{v, err}
	})
	synctest.Wait()
	if complete {
		if !op.Finished() {
			if cancel != nil {
				cancel()
			}
			m.fail("C13/get-blocked", "Get blocked although it can be answered immediately (replay=%d, available=%d, closed=%v, ctx=%s)", m.r, m.available(), m.closed, kind)
		}
		if cancel != nil {
			cancel()
		}
		if kind == "selfcancel" && !wantErr && op.Panic == nil {
			// the context was cancelled while the call was under way: the value, or the context's error with nothing
			// taken, are both allowed (Buffer() and the reads that follow tell which it was)
			if r, ok := op.Res.(csGetRes); ok && r.err != nil {
				wantErr = true
			}
		}
		m.checkGetResult(op, val, wantErr)
	} else {
		m.getOp, m.getCancel, m.getCtxErr = op, cancel, kind == "selfcancel"
		m.tr("get(%s)...", kind)
		if m.srcClosed {
			m.srcClosedGet = true
		}
	}
	m.check()
}

func (m *csMachine) ruleCancelGet(t *rapid.T) {
	if m.getOp == nil || m.getCancel == nil || m.getCtxErr {
		t.Skip("no cancellable get")
	}
	m.getCtxErr = true
	m.getCancel()
	m.tr("cancelGet")
	m.settle()
}

func (m *csMachine) ruleAdvance(t *rapid.T) {
	n := rapid.IntRange(1, 3).Draw(t, "ticks")
	time.Sleep(time.Duration(n)*m.rate + time.Nanosecond) // +1ns: driver events never coincide with poll ticks
	m.tr("advance(%d ticks)", n)
	m.settle()
}

func (m *csMachine) ruleCommit(t *rapid.T) {
	res, pv := vkit.Call(func() any { return m.ch.Commit() })
	if pv != nil {
		m.fail("C13+C12/commit-panic", "Commit panicked: %v", pv)
	}
	pend := m.pendingCount()
	switch {
	case m.closed:
		if res == nil {
			m.fail("C12/chan-commit-after-close", "Commit after close/cancel returned nil")
		}
		m.tr("commit=err(closed)")
	case pend == 0:
		if res == nil {
			m.fail("C13/commit-nothing", "Commit with nothing delivered returned nil")
		}
		m.tr("commit=err")
	default:
		if res != nil {
			m.fail("C13/commit-error", "Commit with %d delivered values failed: %v", pend, res)
		}
		m.c += pend
		if m.stage == 3 {
			m.stage = 4
		}
		m.tr("commit(%d)", pend)
	}
	m.settle()
}

func (m *csMachine) ruleRollback(t *rapid.T) {
	res, pv := vkit.Call(func() any { return m.ch.Rollback() })
	if pv != nil {
		m.fail("C13+C12/rollback-panic", "Rollback panicked: %v", pv)
	}
	pend := m.pendingCount()
	if pend == 0 {
		if res == nil {
			m.fail("C13/rollback-nothing", "Rollback with nothing delivered returned nil")
		}
		m.tr("rollback=err")
	} else {
		if res != nil {
			m.fail("C13/rollback-error", "Rollback with %d delivered values failed: %v", pend, res)
		}
		// partial re-read between two rollbacks: 0 < r < pending buffer
		if m.stage == 2 && m.r > 0 {
			m.stage = 3
		} else if m.stage < 3 && m.k-m.c >= 2 {
			m.stage = 1
		}
		m.r += pend
		m.tr("rollback(%d)", pend)
	}
	m.settle()
}

func (m *csMachine) ruleClose(t *rapid.T) {
	if !m.closed && rapid.IntRange(0, 2).Draw(t, "reallyClose") != 0 {
		t.Skip("not yet")
	}
	ch := m.ch
	op := vkit.Launch("Channel.Close", func() any { return ch.Close() })
	synctest.Wait()
	if !op.Finished() {
		m.fail("C12/chan-close-hang", "Channel.Close blocked at quiescence")
	}
	if op.Panic != nil {
		m.fail("C12/chan-close-panic", "Channel.Close panicked: %v", op.Panic)
	}
	if m.closed {
		if op.Res == nil {
			m.fail("C12/chan-second-close-nil", "Close on an already closed/cancelled Channel returned nil")
		}
		m.tr("close=err")
	} else {
		if op.Res != nil {
			m.fail("C12/chan-close-error", "first Close returned %v", op.Res)
		}
		if m.getOp != nil {
			m.closeWithGet = true
		}
		m.closed = true
		m.tr("close")
	}
	m.check()
}

func (m *csMachine) ruleCancelParent(t *rapid.T) {
	if m.closed || rapid.IntRange(0, 2).Draw(t, "reallyCancel") != 0 {
		t.Skip("not yet")
	}
	if m.getOp != nil {
		m.closeWithGet = true
	}
	immediate := rapid.IntRange(0, 1).Draw(t, "callAtOnce") == 0
	m.cancelPar()
	m.closed = true
	m.autoClosed = true
	m.tr("cancelParent")
	if immediate {
		// the Channel's own context is a child of the cancelled one: it is cancelled by the time cancel() returns, so
		// calls made from here on — before the Channel's background goroutine has had a chance to run — already fail
		ch := m.ch
		left := m.src.len()
		res, pv := vkit.Call(func() any { v, err := ch.Get(context.Background()); return csGetRes{v, err} })
		if pv != nil {
			m.fail("C13+C12/get-panic", "Get panicked: %v", pv)
		}
		if r := res.(csGetRes); r.err == nil || m.src.len() != left {
			m.fail("C13+C12/get-after-close-or-cancel", "a Get called right after the cancellation of the Channel's context returned (%v,%v); values in the source before/after: %d/%d", r.v, r.err, left, m.src.len())
		}
		m.tr("get-at-once=err")
		if res, pv := vkit.Call(func() any { return ch.Commit() }); pv != nil || res == nil {
			m.fail("C13+C12/commit-after-close-or-cancel", "a Commit called right after the cancellation of the Channel's context returned %v (panic %v)", res, pv)
		}
	}
	m.settle()
}

func (m *csMachine) ruleCloseSource(t *rapid.T) {
	if m.srcClosed || rapid.IntRange(0, 3).Draw(t, "reallyCloseSrc") != 0 {
		t.Skip("not yet")
	}
	if m.capacity == 0 && m.available() > 0 {
		t.Skip("unbuffered source still has a pending sender")
	}
	m.srcClosed = true
	if m.capacity == 0 {
		select {
		case <-m.feedQuit:
		default:
			close(m.feedQuit)
		}
		synctest.Wait()
	}
	m.src.close()
	if m.getOp != nil {
		m.srcClosedGet = true
	}
	m.tr("closeSource")
	m.settle()
}

func csRun(t *rapid.T, st *vkit.Stats, prof string) {
	m := &csMachine{prof: prof, t: t, st: st}
	vkit.CaseStart(func() string { return strings.Join(m.trace, " ; ") })
	defer func() {
		if r := recover(); r != nil {
			if _, ok := r.(csAbort); ok {
				return
			}
			panic(r)
		}
	}()
	m.capacity = rapid.SampledFrom([]int{0, 0, 1, 4}).Draw(t, "cap")
	m.rate = rapid.SampledFrom([]time.Duration{0, time.Microsecond * 50, time.Millisecond}).Draw(t, "rate")
	srcKind := rapid.SampledFrom([]string{"int", "int", "int", "any", "string", "struct"}).Draw(t, "elem")
	m.src = csNewSource(srcKind, m.capacity)
	m.feedQ = make(chan int, 64)
	m.feedQuit = make(chan struct{})
	if m.capacity == 0 {
		src, q, quit := m.src, m.feedQ, m.feedQuit
		go func() {
			for {
				select {
				case v := <-q:
					if !src.sendOrQuit(v, quit) {
						return
					}
				case <-quit:
					return
				}
			}
		}()
	}
	parentKind := rapid.SampledFrom([]string{"nil", "cancellable", "cancellable", "cancellable", "precancelled"}).Draw(t, "parent")
	m.parent, m.cancelPar = context.WithCancel(context.Background())
	var pctx context.Context
	if parentKind != "nil" {
		pctx = m.parent
	}
	if parentKind == "precancelled" {
		// a Channel built on a context that is already cancelled is born closed: everything after close applies
		m.cancelPar()
		m.closed, m.autoClosed = true, true
	}
	source := m.src.iface(rapid.Bool().Draw(t, "recvOnly"))
	ch, err := bigbuff.NewChannel(pctx, m.rate, source)
	if err != nil {
		m.fail("C13/newchannel", "NewChannel failed: %v", err)
	}
	m.ch = ch
	if m.rate == 0 {
		m.rate = bigbuff.DefaultChannelPollRate
	}
	m.tr("new(cap=%d,rate=%v,parent=%s,source=%T)", m.capacity, m.rate, parentKind, source)
	m.settle()

	w := map[string]int{"feed": 4, "get": 8, "cancelGet": 1, "advance": 3, "commit": 3, "rollback": 4, "close": 1, "cancelParent": 1, "closeSource": 1}
	if prof == "C12" {
		w["close"], w["cancelParent"] = 3, 2
	}
	actions := map[string]func(*rapid.T){}
	add := func(name string, f func(*rapid.T)) {
		for i := 0; i < w[name]; i++ {
			actions[fmt.Sprintf("%s~%d", name, i)] = f
		}
	}
	add("feed", m.ruleFeed)
	add("get", m.ruleGet)
	add("cancelGet", m.ruleCancelGet)
	add("advance", m.ruleAdvance)
	add("commit", m.ruleCommit)
	add("rollback", m.ruleRollback)
	add("close", m.ruleClose)
	if parentKind == "cancellable" {
		add("cancelParent", m.ruleCancelParent)
	}
	add("closeSource", m.ruleCloseSource)
	t.Repeat(vkit.NoStarve(actions, nil))

	// ---- teardown
	m.tr("teardown")
	if m.getOp != nil && m.getCancel != nil && !m.getCtxErr {
		m.getCtxErr = true
		m.getCancel()
	}
	time.Sleep(2*m.rate + time.Nanosecond)
	m.settle()
	if !m.closed {
		if parentKind == "cancellable" && rapid.Bool().Draw(t, "endByCancel") {
			m.cancelPar()
			m.autoClosed = true
		} else if err := m.ch.Close(); err != nil {
			m.fail("C12/chan-close-error", "Close at teardown returned %v", err)
		}
		m.closed = true
		m.settle()
	}
	if m.getOp != nil {
		m.fail("C12+C13/get-not-woken-by-close", "Get still pending after close")
	}
	// once Done is closed nothing more is taken from the source
	taken := m.k
	if v, err := m.ch.Get(context.Background()); err == nil {
		m.fail("C12+C13/chan-get-after-close", "Get after close returned %v", v)
	}
	if err := m.ch.Commit(); err == nil {
		m.fail("C12/chan-commit-after-close", "Commit after close returned nil")
	}
	if err := m.ch.Close(); err == nil {
		m.fail("C12/chan-second-close-nil", "second Close returned nil")
	}
	// rollback keeps working after close and Buffer still reports what was taken and not committed
	if m.pendingCount() > 0 {
		if err := m.ch.Rollback(); err != nil {
			m.fail("C13/rollback-error", "Rollback after close failed: %v", err)
		}
		m.r += m.pendingCount()
	}
	if m.k != taken {
		panic("harness: taken changed")
	}
	m.check()
	m.cancelPar()
	select {
	case <-m.feedQuit:
	default:
		close(m.feedQuit)
	}
	time.Sleep(time.Hour)
	synctest.Wait()
	if left := vkit.BubbleOthers(); len(left) != 0 {
		m.fail("C12/goroutine-leak", "%d goroutine(s) alive after the Channel was closed:\n%s", len(left), vkit.DescribeGoroutines(left))
	}
	nt := false
	switch prof {
	case "C12":
		nt = m.closeWithGet || m.autoClosed
	default:
		nt = m.stage == 4 || m.closeWithGet
	}
	cls := []string{fmt.Sprintf("cap:%d", m.capacity), "rate:" + m.rate.String(), fmt.Sprintf("stage:%d", m.stage), "elem:" + srcKind, "parent:" + parentKind}
	if m.closeWithGet {
		cls = append(cls, "close-with-get-pending")
	}
	if m.srcClosedGet {
		cls = append(cls, "get-on-closed-source")
	}
	if m.autoClosed {
		cls = append(cls, "closed-by-parent-cancel")
	}
	st.Case(m.trace, nt, cls...)
}

func TestChanStep(t *testing.T) {
	prof := os.Getenv("VKIT_PROFILE")
	st := vkit.For("chanstep_" + prof)
	rapid.Check(t, func(t *rapid.T) {
		rapid.SyncTest(t, func(t *rapid.T) {
			csRun(t, st, prof)
		})
	})
}
