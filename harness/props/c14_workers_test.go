//go:build go1.25

package props

// c14_workers — model-based stateful testing of bigbuff.Workers inside a synctest bubble (property C14:
// exactly-once execution, bounded concurrency, no starvation, Wait/Count).
//
// The driver launches Workers.Call / Wrap with harness tasks that either block on a gate (a channel that a
// later rule closes) or yield a drawn number of times, launches Wait, and after every step settles the bubble
// (synctest.Wait) and compares what it sees with what the property statement allows:
//
//   * every task starts at most once, exactly once by the end, and its Call returns exactly its (value, error),
//     not before the task finished and — at quiescence — as soon as it has finished;
//   * the number of tasks executing never exceeds the largest count requested so far (stamped by the tasks
//     themselves at entry, and counted at every settle);
//   * no starvation: at quiescence a non-empty queue implies at least one running task; at the end (all gates
//     open, bubble quiescent) every Call has returned;
//   * Count() at quiescence is the number of running tasks (a worker is either executing a task or gone);
//   * a Wait stays pending through a step in which some call that was already enqueued before the step is
//     still unfinished after it, completes once nothing is queued or running, and Count() is 0 right after it
//     returned (evaluated when no Call could have intervened).
//
// Steps may be bursts (several actions without settling in between) and storms (4..12 concurrent callers
// with self-finishing tasks): the oracle is invariant-based, so every interleaving of a burst is accepted.

import (
	"fmt"
	"runtime"
	"strings"
	"sync"
	"sync/atomic"
	"testing"
	"testing/synctest"
	"time"

	bigbuff "github.com/joeycumines/go-bigbuff"
	"pgregory.net/rapid"

	"verif/harness/vkit"
)

type c14Token struct{ id int }

type c14Err struct{ id int }

func (e *c14Err) Error() string { return fmt.Sprintf("c14err#%d", e.id) }

type c14CallRes struct {
	v   any
	err error
	fin bool // the task had finished when Call returned
}

type c14Task struct {
	id       int
	count    int
	gated    bool
	yields   int
	gate     chan struct{}
	gateOpen bool
	val      any
	err      error
	starts   atomic.Int32
	finished atomic.Bool
	op       *vkit.Op
	// model, as of the last settle
	enq     bool // the call was outstanding (enqueued or running, function not finished) at the last settle
	running bool // the task was executing at the last settle
	// fairness bookkeeping: qMark is the number of calls made so far when this call was first seen queued at a
	// quiescent point (-1: not yet); bypass counts calls made after that which nevertheless started before it
	qMark       int
	bypass      int
	startedSeen bool
}

// c14BypassLimit: a call that sat in the queue while this many calls made after it was (observably) queued were all
// started ahead of it is being starved — no fair queue discipline does that within one short program.
const c14BypassLimit = 8

type c14WaitOp struct {
	id int
	op *vkit.Op
}

type c14Machine struct {
	t  *rapid.T
	st *vkit.Stats
	w  *bigbuff.Workers

	running  atomic.Int32 // tasks executing right now (stamped by the tasks)
	maxReq   atomic.Int32 // largest count requested so far (stored before the Call is launched)
	boundMu  sync.Mutex
	boundMsg string

	nTasks    int
	live      []*c14Task // calls not yet returned-and-verified
	waits     []*c14WaitOp
	nWaits    int
	lastCount int
	maxCount  int
	R, Q      int // running / queued at the last settle

	stepCalls, stepReleases int
	trace                   []string
	cur                     []string

	// classification
	shrinkQueued   int // calls with a smaller count than the previous one while >= 1 task was queued
	finishOver     bool
	finishAt       bool
	releaseQueued  bool
	waitIdle       bool
	waitAcross     bool // a Wait stayed pending across a task finishing
	multiWait      bool
	bursts, storms int
	maxQ, maxR     int
	yieldTasks     int
	wraps          int
	cleaned        bool
}

func (m *c14Machine) render() string {
	s := strings.Join(m.trace, " ; ")
	if len(m.cur) > 0 {
		s += " ; [in step: " + strings.Join(m.cur, ",") + "]"
	}
	return s
}

func (m *c14Machine) fail(sig string, format string, args ...any) {
	m.t.Helper()
	msg := fmt.Sprintf("%s\ntrace: %s", fmt.Sprintf(format, args...), m.render())
	vkit.Announce(sig, "%s", msg)
	m.cleanup()
	m.t.Fatalf("[%s] %s", sig, msg)
}

// cleanup: best effort to let every goroutine of the bubble end although the library may be broken: open
// every gate and push a wide no-op call, whose workers drain a stranded queue.
func (m *c14Machine) cleanup() {
	if m.cleaned {
		return
	}
	m.cleaned = true
	for _, tk := range m.live {
		if tk.gated && !tk.gateOpen {
			tk.gateOpen = true
			close(tk.gate)
		}
	}
	m.maxReq.Store(1 << 20)
	w := m.w
	go func() {
		defer func() { _ = recover() }()
		_, _ = w.Call(64, func() (interface{}, error) { return nil, nil })
	}()
}

func (m *c14Machine) noteBound(r, mx int32, id int) {
	m.boundMu.Lock()
	if m.boundMsg == "" {
		m.boundMsg = fmt.Sprintf("task #%d entered as the %d-th concurrently executing function although the largest count requested so far is %d", id, r, mx)
	}
	m.boundMu.Unlock()
}

// ---- actions (no settle)

func (m *c14Machine) doCall(t *rapid.T, forceYield bool) {
	tk := &c14Task{id: m.nTasks, qMark: -1}
	m.nTasks++
	tk.count = rapid.IntRange(1, 4).Draw(t, "count")
	tk.gated = !forceYield && rapid.IntRange(0, 5).Draw(t, "yieldTask") != 0
	if tk.gated {
		tk.gate = make(chan struct{})
	} else {
		tk.yields = rapid.IntRange(0, 3).Draw(t, "yields")
		m.yieldTasks++
	}
	if rapid.IntRange(0, 7).Draw(t, "nilVal") != 0 {
		tk.val = &c14Token{tk.id}
	}
	if rapid.IntRange(0, 2).Draw(t, "nilErr") != 0 {
		tk.err = &c14Err{tk.id}
	}
	wrap := rapid.IntRange(0, 3).Draw(t, "wrap") == 0
	if wrap {
		m.wraps++
	}
	// non-trivial rule: the requested count decreases while at least one task is (definitely still) queued
	if m.stepCalls == 0 && m.stepReleases == 0 && m.lastCount > 0 && tk.count < m.lastCount && m.Q >= 1 {
		m.shrinkQueued++
	}
	m.lastCount = tk.count
	if tk.count > m.maxCount {
		m.maxCount = tk.count
		m.maxReq.Store(int32(tk.count))
	}
	fn := func() (interface{}, error) {
		tk.starts.Add(1)
		r := m.running.Add(1)
		if mx := m.maxReq.Load(); r > mx {
			m.noteBound(r, mx, tk.id)
		}
		if tk.gated {
			<-tk.gate
		} else {
			for i := 0; i < tk.yields; i++ {
				runtime.Gosched()
			}
		}
		m.running.Add(-1)
		tk.finished.Store(true)
		return tk.val, tk.err
	}
	w, count := m.w, tk.count
	tk.op = vkit.Launch("Workers.Call", func() any {
		var v interface{}
		var err error
		if wrap {
			v, err = w.Wrap(count, fn)()
		} else {
			v, err = w.Call(count, fn)
		}
		return c14CallRes{v, err, tk.finished.Load()}
	})
	m.live = append(m.live, tk)
	m.stepCalls++
	kind := "gate"
	if !tk.gated {
		kind = fmt.Sprintf("yield%d", tk.yields)
	}
	if wrap {
		kind += ",wrap"
	}
	m.cur = append(m.cur, fmt.Sprintf("call#%d(n=%d,%s)", tk.id, tk.count, kind))
}

func (m *c14Machine) closedGates() []*c14Task {
	var out []*c14Task
	for _, tk := range m.live {
		if tk.gated && !tk.gateOpen {
			out = append(out, tk)
		}
	}
	return out
}

func (m *c14Machine) doRelease(t *rapid.T) bool {
	cands := m.closedGates()
	if len(cands) == 0 {
		return false
	}
	// prefer a running task (2:1), the queue only moves when a running task finishes
	var run []*c14Task
	for _, tk := range cands {
		if tk.running {
			run = append(run, tk)
		}
	}
	if len(run) > 0 && rapid.IntRange(0, 2).Draw(t, "relRunning") != 0 {
		cands = run
	}
	tk := cands[rapid.IntRange(0, len(cands)-1).Draw(t, "relIdx")]
	if tk.running {
		if m.stepCalls == 0 && m.stepReleases == 0 && m.Q >= 1 {
			if m.R > m.lastCount {
				m.finishOver = true
			} else if m.R == m.lastCount {
				m.finishAt = true
			}
		}
		if len(m.waits) > 0 {
			m.waitAcross = true
		}
	} else {
		m.releaseQueued = true
	}
	tk.gateOpen = true
	close(tk.gate)
	m.stepReleases++
	m.cur = append(m.cur, fmt.Sprintf("release#%d", tk.id))
	return true
}

func (m *c14Machine) doWait() bool {
	if len(m.waits) >= 3 {
		return false
	}
	if m.R == 0 && m.Q == 0 && m.stepCalls == 0 {
		m.waitIdle = true
	}
	w := m.w
	wo := &c14WaitOp{id: m.nWaits}
	m.nWaits++
	wo.op = vkit.Launch("Workers.Wait", func() any {
		w.Wait()
		return w.Count()
	})
	m.waits = append(m.waits, wo)
	if len(m.waits) >= 2 {
		m.multiWait = true
	}
	m.cur = append(m.cur, fmt.Sprintf("wait#%d", wo.id))
	return true
}

// ---- settle + oracle

func (m *c14Machine) settle() {
	synctest.Wait()
	m.check()
}

func (m *c14Machine) check() {
	m.boundMu.Lock()
	bm := m.boundMsg
	m.boundMu.Unlock()
	if bm != "" {
		m.fail("C14/concurrency-bound", "%s", bm)
	}
	// fairness: who started since the last quiescent point, and whom did they overtake
	for _, tk := range m.live {
		if tk.starts.Load() >= 1 && !tk.startedSeen {
			tk.startedSeen = true
			for _, u := range m.live {
				if u.starts.Load() == 0 && u.qMark >= 0 && tk.id >= u.qMark {
					if u.bypass++; u.bypass > c14BypassLimit {
						m.fail("C14/starved-by-overtaking", "call #%d has been queued since before call #%d was made, and %d calls made after that have been started ahead of it while it still waits (the latest: #%d)", u.id, u.qMark, u.bypass, tk.id)
					}
				}
			}
		}
	}
	for _, tk := range m.live {
		if tk.starts.Load() == 0 && tk.qMark < 0 {
			tk.qMark = m.nTasks // every call made from now on was made after this one was seen queued
		}
	}
	R, Q := 0, 0
	persisted := -1
	var keep []*c14Task
	var runIDs, queueIDs []string
	for _, tk := range m.live {
		starts := tk.starts.Load()
		fin := tk.finished.Load()
		if starts > 1 {
			m.fail("C14/task-ran-twice", "the function of call #%d was started %d times", tk.id, starts)
		}
		if tk.op.Finished() {
			if tk.op.Panic != nil {
				m.fail("C14/call-panic", "call #%d panicked: %v", tk.id, tk.op.Panic)
			}
			res := tk.op.Res.(c14CallRes)
			if starts == 0 {
				m.fail("C14/call-returned-early", "call #%d returned (%v, %v) although its function was never run", tk.id, res.v, res.err)
			}
			if !res.fin || !fin {
				m.fail("C14/call-returned-early", "call #%d returned (%v, %v) before its function finished", tk.id, res.v, res.err)
			}
			if res.v != tk.val || res.err != tk.err {
				m.fail("C14/wrong-result", "call #%d returned (%v, %v), its function returned (%v, %v)", tk.id, res.v, res.err, tk.val, tk.err)
			}
			continue
		}
		keep = append(keep, tk)
		switch {
		case fin:
			m.fail("C14/call-not-returned", "the function of call #%d has finished but the Call is still blocked at quiescence", tk.id)
		case starts == 1:
			if !tk.gated || tk.gateOpen {
				m.fail("C14/harness", "task #%d is executing at quiescence although nothing blocks it", tk.id)
			}
			R++
			runIDs = append(runIDs, fmt.Sprint(tk.id))
		default:
			Q++
			queueIDs = append(queueIDs, fmt.Sprint(tk.id))
		}
		if tk.enq && persisted < 0 {
			persisted = tk.id
		}
	}
	m.live = keep
	if R > m.maxCount {
		m.fail("C14/concurrency-bound", "%d functions are executing at quiescence (calls %v) although the largest count requested so far is %d", R, runIDs, m.maxCount)
	}
	if Q > 0 && R == 0 {
		m.fail("C14/starved", "calls %v are queued but no function is executing at quiescence: nothing will ever run them (Count()=%d)", queueIDs, m.w.Count())
	}
	if c := m.w.Count(); c != R {
		m.fail("C14/count-mismatch", "Count()=%d at quiescence, but %d functions are executing (calls %v, queued %v)", c, R, runIDs, queueIDs)
	}
	var keepW []*c14WaitOp
	for _, wo := range m.waits {
		if wo.op.Finished() {
			if wo.op.Panic != nil {
				m.fail("C14/wait-panic", "Wait #%d panicked: %v", wo.id, wo.op.Panic)
			}
			if persisted >= 0 {
				m.fail("C14/wait-returned-early", "Wait #%d returned during a step throughout which call #%d was queued or running (now running %v, queued %v)", wo.id, persisted, runIDs, queueIDs)
			}
			if c := wo.op.Res.(int); c != 0 && m.stepCalls == 0 {
				m.fail("C14/count-after-wait", "Count()=%d right after Wait #%d returned, with no Call in flight", c, wo.id)
			}
			continue
		}
		if R == 0 && Q == 0 {
			m.fail("C14/wait-stuck", "Wait #%d is still blocked at quiescence although nothing is queued or running (Count()=%d)", wo.id, m.w.Count())
		}
		keepW = append(keepW, wo)
	}
	m.waits = keepW
	for _, tk := range m.live {
		tk.enq = true
		tk.running = tk.starts.Load() == 1
	}
	m.R, m.Q = R, Q
	if Q > m.maxQ {
		m.maxQ = Q
	}
	if R > m.maxR {
		m.maxR = R
	}
	m.trace = append(m.trace, fmt.Sprintf("%s=>R%dQ%dW%d", strings.Join(m.cur, ","), R, Q, len(m.waits)))
	m.cur = m.cur[:0]
	m.stepCalls, m.stepReleases = 0, 0
}

// ---- rules

const c14MaxLive = 12

func (m *c14Machine) ruleCall(t *rapid.T) {
	if len(m.live) >= c14MaxLive {
		t.Skip("enough outstanding calls")
	}
	m.doCall(t, false)
	m.settle()
}

func (m *c14Machine) ruleRelease(t *rapid.T) {
	if !m.doRelease(t) {
		t.Skip("nothing to release")
	}
	m.settle()
}

func (m *c14Machine) ruleWait(t *rapid.T) {
	if !m.doWait() {
		t.Skip("enough waits")
	}
	m.settle()
}

func (m *c14Machine) ruleBurst(t *rapid.T) {
	n := rapid.IntRange(2, 6).Draw(t, "burstN")
	done := 0
	for i := 0; i < n; i++ {
		switch rapid.SampledFrom([]string{"call", "call", "release", "release", "release", "wait"}).Draw(t, "burstAct") {
		case "call":
			if len(m.live) < c14MaxLive+4 {
				m.doCall(t, false)
				done++
			}
		case "release":
			if m.doRelease(t) {
				done++
			}
		case "wait":
			if m.doWait() {
				done++
			}
		}
		for g := rapid.IntRange(0, 2).Draw(t, "gosched"); g > 0; g-- {
			runtime.Gosched()
		}
	}
	if done == 0 {
		t.Skip("empty burst")
	}
	m.bursts++
	m.cur = append([]string{"burst"}, m.cur...)
	m.settle()
}

func (m *c14Machine) ruleStorm(t *rapid.T) {
	if len(m.live) >= c14MaxLive {
		t.Skip("enough outstanding calls")
	}
	k := rapid.IntRange(4, 12).Draw(t, "stormN")
	// tasks finishing (workers re-examining the queue, exiting) while the callers arrive
	rel := rapid.IntRange(0, 3).Draw(t, "stormRelease")
	for i := 0; i < rel; i++ {
		if !m.doRelease(t) {
			break
		}
	}
	for i := 0; i < k; i++ {
		m.doCall(t, true)
		if rapid.IntRange(0, 3).Draw(t, "stormYield") == 0 {
			runtime.Gosched()
		}
	}
	m.storms++
	m.cur = append([]string{"storm"}, m.cur...)
	m.settle()
}

func c14Bucket(n int) string {
	switch {
	case n == 0:
		return "0"
	case n <= 2:
		return "1-2"
	case n <= 5:
		return "3-5"
	}
	return "6+"
}

func c14Run(t *rapid.T, st *vkit.Stats) {
	m := &c14Machine{t: t, st: st, w: new(bigbuff.Workers)}
	vkit.CaseStart(m.render)
	m.cur = append(m.cur, "new")
	if rapid.IntRange(0, 3).Draw(t, "waitFirst") == 0 {
		m.doWait() // Wait on a never-used Workers must return at once
	}
	m.settle()

	w := map[string]int{"call": 7, "release": 4, "wait": 1, "burst": 2, "storm": 2, "advance": 1}
	actions := map[string]func(*rapid.T){}
	add := func(name string, f func(*rapid.T)) {
		for i := 0; i < w[name]; i++ {
			actions[fmt.Sprintf("%s~%d", name, i)] = f
		}
	}
	add("call", m.ruleCall)
	add("release", m.ruleRelease)
	add("wait", m.ruleWait)
	add("burst", m.ruleBurst)
	add("storm", m.ruleStorm)
	add("advance", func(t *rapid.T) { // time passes while nothing else happens: Workers has no notion of time
		d := rapid.SampledFrom([]time.Duration{time.Millisecond, 3 * time.Second, 24 * time.Hour}).Draw(t, "advance")
		time.Sleep(d)
		m.cur = append(m.cur, fmt.Sprintf("advance(%v)", d))
		m.settle()
	})
	t.Repeat(vkit.NoStarve(actions, nil))

	// ---- teardown: open every gate in a drawn order; once the bubble is quiescent everything must be over
	for {
		cands := m.closedGates()
		if len(cands) == 0 {
			break
		}
		all := rapid.IntRange(0, 2).Draw(t, "drainAll") == 0
		if all {
			for _, tk := range cands {
				tk.gateOpen = true
				close(tk.gate)
				m.stepReleases++
			}
			m.cur = append(m.cur, "releaseAll")
		} else {
			m.doRelease(t)
		}
		m.settle()
	}
	m.cur = append(m.cur, "end")
	idle := m.waitIdle
	m.doWait()
	m.waitIdle = idle
	m.settle()
	if len(m.live) != 0 || len(m.waits) != 0 {
		// check() has already failed with starved / wait-stuck in this situation
		m.fail("C14/harness", "%d calls / %d waits left after the final settle", len(m.live), len(m.waits))
	}
	if c := m.w.Count(); c != 0 {
		m.fail("C14/count-mismatch", "Count()=%d after everything finished and Wait returned", c)
	}
	if r := m.running.Load(); r != 0 {
		m.fail("C14/harness", "running stamp is %d at the end", r)
	}
	if left := vkit.BubbleOthers(); len(left) != 0 {
		m.fail("C14/goroutine-leak", "%d goroutine(s) alive after every call returned and Wait completed:\n%s", len(left), vkit.DescribeGoroutines(left))
	}

	cls := []string{"calls:" + c14Bucket(m.nTasks), "maxQueue:" + c14Bucket(m.maxQ), fmt.Sprintf("maxRunning:%d", m.maxR)}
	flag := func(b bool, name string) {
		if b {
			cls = append(cls, name)
		}
	}
	flag(m.shrinkQueued > 0, "shrink-while-queued")
	flag(m.shrinkQueued > 1, "shrink-while-queued-2+")
	flag(m.finishOver, "finish-over-target-with-queue")
	flag(m.finishAt, "finish-at-target-with-queue")
	flag(m.releaseQueued, "gate-opened-before-start")
	flag(m.waitIdle, "wait-when-idle")
	flag(m.waitAcross, "wait-pending-across-finish")
	flag(m.multiWait, "two-or-more-waits-pending")
	flag(m.bursts > 0, "burst")
	flag(m.storms > 0, "storm")
	flag(m.yieldTasks > 0, "yield-task")
	flag(m.wraps > 0, "wrap")
	st.Case(m.trace, m.shrinkQueued > 0, cls...)
}

func TestC14Workers(t *testing.T) {
	st := vkit.For("c14_workers")
	rapid.Check(t, func(t *rapid.T) {
		rapid.SyncTest(t, func(t *rapid.T) {
			c14Run(t, st)
		})
	})
}
