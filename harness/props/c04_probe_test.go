//go:build verif

package props

// C04 window probe (real time, instrumentation points): the cleanup goroutine is delayed between finishing a
// pass that saw "cooldown in progress" and parking on the condition variable, for a drawn duration around the
// remaining cooldown, so that the cooldown timer's re-broadcast lands inside that window. Afterwards nothing
// else happens: the fully consumed prefix must still be freed (C04), however the two goroutines interleave.
//
// Verdict without wall-clock luck: a violation is reported only when, after a generous quiet period, the
// prefix is still there AND the goroutine dump confirms that the cleanup goroutine is parked in Cond.Wait with
// no cooldown timer goroutine left AND a canary goroutine has completed >= 100 sleeps of one cooldown in the
// meantime (scheduler and timers were alive). Anything else is inconclusive.

import (
	"context"
	"fmt"
	"runtime"
	"strings"
	"sync/atomic"
	"testing"
	"time"

	bigbuff "github.com/joeycumines/go-bigbuff"
	"pgregory.net/rapid"

	"verif/harness/vkit"
)

func c04InCleanupGoroutine() bool {
	pcs := make([]uintptr, 32)
	n := runtime.Callers(2, pcs)
	fr := runtime.CallersFrames(pcs[:n])
	for {
		f, more := fr.Next()
		if strings.HasSuffix(f.Function, "(*Buffer).cleanup") {
			return true
		}
		if !more {
			return false
		}
	}
}

func TestC04Probe(t *testing.T) {
	st := vkit.For("c04_probe")
	defer bigbuff.VerifSetHook(nil)
	rapid.Check(t, func(t *rapid.T) {
		cd := rapid.SampledFrom([]time.Duration{time.Millisecond, 2 * time.Millisecond, 4 * time.Millisecond}).Draw(t, "cooldown")
		nCons := rapid.IntRange(1, 3).Draw(t, "consumers")
		frac := rapid.SampledFrom([]int{2, 4, 6, 8}).Draw(t, "inWindowTenths")     // where in the cooldown window the last change lands
		delayTenths := rapid.SampledFrom([]int{0, 5, 12, 20, 30}).Draw(t, "delay") // delay at predicate->park, in tenths of a cooldown
		lastBy := rapid.SampledFrom([]string{"commit", "commit", "close"}).Draw(t, "lastBy")
		nVals := rapid.IntRange(2, 5).Draw(t, "values")
		trace := []string{fmt.Sprintf("cooldown=%v consumers=%d lastChangeAt=0.%d*cd delayAtPark=%d/10*cd lastBy=%s values=%d", cd, nCons, frac, delayTenths, lastBy, nVals)}
		vkit.CaseStart(func() string { return strings.Join(trace, " ; ") })

		var armed atomic.Bool
		var hit atomic.Int64
		delay := cd * time.Duration(delayTenths) / 10
		bigbuff.VerifSetHook(func(p int) {
			if p == bigbuff.VerifWaitCondBeforePark && armed.Load() && c04InCleanupGoroutine() {
				if armed.CompareAndSwap(true, false) {
					hit.Add(1)
					time.Sleep(delay)
				}
			}
		})
		defer bigbuff.VerifSetHook(nil)

		b := new(bigbuff.Buffer)
		if err := b.SetCleanerConfig(bigbuff.CleanerConfig{Cleaner: bigbuff.DefaultCleaner, Cooldown: cd}); err != nil {
			t.Fatalf("harness: %v", err)
		}
		ctx := context.Background()
		var cons []bigbuff.Consumer
		for i := 0; i < nCons; i++ {
			c, err := b.NewConsumer()
			if err != nil {
				t.Fatalf("harness: %v", err)
			}
			cons = append(cons, c)
		}
		vals := make([]any, nVals)
		for i := range vals {
			vals[i] = i + 1
		}
		_ = b.Put(ctx, vals...)
		// let the init-time (default 10ms) and the first cooldown timers expire
		time.Sleep(bigbuff.DefaultCleanerCooldown + 3*cd + 2*time.Millisecond)

		// phase 1: everybody reads everything; all but the last consumer commit everything, the last one commits
		// all but one value => a cleaner pass runs and arms the cooldown timer
		for _, c := range cons {
			for i := 0; i < nVals; i++ {
				if _, err := c.Get(ctx); err != nil {
					t.Fatalf("harness: get: %v", err)
				}
			}
		}
		last := cons[len(cons)-1]
		for _, c := range cons[:len(cons)-1] {
			_ = c.Commit()
		}
		// roll the last consumer back to commit nVals-1 values first
		_ = last.Rollback()
		for i := 0; i < nVals-1; i++ {
			_, _ = last.Get(ctx)
		}
		_ = last.Commit()
		// let every pending cooldown expire, then open a fresh cooldown window with a change that frees nothing
		// (one more value that nobody has read): the pass runs at once and arms the timer
		time.Sleep(3*cd + time.Millisecond)
		_ = b.Put(ctx, "unread")
		windowStart := time.Now()
		// phase 2: the final change lands inside the cooldown window; the cleanup goroutine's pass sees "timer
		// pending", flags the re-broadcast, and is then delayed before parking
		time.Sleep(cd * time.Duration(frac) / 10)
		armed.Store(true)
		want := 1 // the unread value
		switch lastBy {
		case "commit":
			_, _ = last.Get(ctx)
			_ = last.Commit()
		case "close":
			// closing the slowest consumer releases its hold in the same way (others have committed everything);
			// with a single consumer nothing pins the buffer any more, so nothing has to be freed
			_ = last.Close()
			if nCons == 1 {
				want = 2
			}
		}
		inWindow := time.Since(windowStart) < cd
		// quiet period: no further operation. The wait ends as soon as the prefix is gone; otherwise, once the minimum
		// window has passed, as soon as the stuck state is CONFIRMED (cleanup goroutine parked in Cond.Wait, no cooldown
		// timer goroutine, >=100 canary sleeps of one cooldown each completed); a hard cap of 20 s without either is
		// inconclusive (a loaded machine never turns into a verdict).
		minWindow := time.Now().Add(300*cd + 200*time.Millisecond)
		hardCap := time.Now().Add(20 * time.Second)
		var canary atomic.Int64
		stopCanary := make(chan struct{})
		go func() {
			for {
				select {
				case <-stopCanary:
					return
				default:
				}
				time.Sleep(cd)
				canary.Add(1)
			}
		}()
		freed, parked, timerAlive := false, false, false
		for time.Now().Before(hardCap) {
			if b.Size() == want {
				freed = true
				break
			}
			if time.Now().After(minWindow) && canary.Load() >= 100 {
				parked, timerAlive = false, false
				for _, g := range vkit.Goroutines() {
					if strings.Contains(g.Stack, "(*Buffer).cleanup.func1.1") {
						timerAlive = true
					}
					if strings.Contains(g.Stack, "go-bigbuff.(*Buffer).cleanup(") && strings.Contains(g.State, "sync.Cond.Wait") {
						parked = true
					}
				}
				if parked && !timerAlive && b.Size() != want {
					break // confirmed
				}
				time.Sleep(20 * cd)
			}
			time.Sleep(cd / 2)
		}
		close(stopCanary)
		size := b.Size()
		trace = append(trace, fmt.Sprintf("hookHit=%d inWindow=%v size=%d want=%d", hit.Load(), inWindow, size, want))
		if !freed && size != want {
			for _, c := range cons {
				_ = c.Rollback()
				_ = c.Close()
			}
			_ = b.Close()
			if parked && !timerAlive && canary.Load() >= 100 {
				vkit.Fail(t, "C04/lost-rebroadcast", "the fully consumed prefix is still buffered (Size=%d, expected %d) %v after the last change; the cleanup goroutine is parked in Cond.Wait, no cooldown timer is pending and %d cooldown-long sleeps completed meanwhile: the change made inside the cooldown window was never re-examined\ncase: %v", size, want, time.Since(windowStart), canary.Load(), trace)
			}
			vkit.Inconclusive("C04 probe: prefix not freed but the stuck state could not be confirmed (parked=%v timerAlive=%v canary=%d): %v", parked, timerAlive, canary.Load(), trace)
			t.Fatalf("inconclusive")
		}
		for _, c := range cons {
			_ = c.Rollback()
			_ = c.Close()
		}
		_ = b.Close()
		cls := []string{fmt.Sprintf("delay:%d/10", delayTenths), "last:" + lastBy}
		if hit.Load() > 0 {
			cls = append(cls, "hook-hit")
		}
		if inWindow {
			cls = append(cls, "change-inside-window")
		}
		st.Case(trace, hit.Load() > 0 && inWindow && delayTenths > 0, cls...)
	})
}
