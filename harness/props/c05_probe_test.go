//go:build verif && go1.25

package props

// C05 window probe (instrumentation points as gates, inside a synctest bubble): a waiter — Get's async waiter or a
// direct WaitCond call — is stopped between evaluating its predicate and parking on the condition variable (it
// holds the lock there), the waking event (context cancellation, Put, Buffer.Close, set+Broadcast) is issued
// inside that window, optionally the cancellation watcher is allowed to reach its own wake-up point first, and
// only then is the gate opened. Whatever the order, at the next quiescent point the waiter must have returned,
// with the right outcome. The generator also places the event before the call and after the park.

import (
	"context"
	"fmt"
	"runtime"
	"strings"
	"sync"
	"sync/atomic"
	"testing"
	"testing/synctest"
	"time"

	bigbuff "github.com/joeycumines/go-bigbuff"
	"pgregory.net/rapid"

	"verif/harness/vkit"
)

func c05StackHas(sub string) bool {
	pcs := make([]uintptr, 48)
	n := runtime.Callers(2, pcs)
	fr := runtime.CallersFrames(pcs[:n])
	for {
		f, more := fr.Next()
		if strings.Contains(f.Function, sub) {
			return true
		}
		if !more {
			return false
		}
	}
}

func c05DirectWaiter(ctx context.Context, mu *sync.Mutex, cond *sync.Cond, ready *bool) error {
	mu.Lock()
	defer mu.Unlock()
	return bigbuff.WaitCond(ctx, cond, func() bool { return *ready })
}

func TestC05Probe(t *testing.T) {
	st := vkit.For("c05_probe")
	defer bigbuff.VerifSetHook(nil)
	rapid.Check(t, func(t *rapid.T) {
		target := rapid.SampledFrom([]string{"get", "get", "waitcond"}).Draw(t, "target")
		var event string
		if target == "get" {
			event = rapid.SampledFrom([]string{"cancel", "cancel", "put", "close"}).Draw(t, "event")
		} else {
			event = rapid.SampledFrom([]string{"cancel", "cancel", "broadcast"}).Draw(t, "event")
		}
		when := rapid.SampledFrom([]string{"in-window", "in-window", "in-window", "after-park"}).Draw(t, "when")
		waitWatcher := rapid.Bool().Draw(t, "waitForWatcher")
		yields := rapid.SampledFrom([]int{0, 1, 10, 200}).Draw(t, "yields")
		trace := []string{fmt.Sprintf("target=%s event=%s when=%s waitForWatcher=%v yields=%d", target, event, when, waitWatcher, yields)}
		vkit.CaseStart(func() string { return strings.Join(trace, " ; ") })
		var outcome string
		gateHit := false
		rapid.SyncTest(t, func(t *rapid.T) {
			atGate, gate, woken := make(chan struct{}), make(chan struct{}), make(chan struct{})
			var armed, gated, wokenOnce atomic.Bool
			needle := "(*Buffer).getAsync"
			if target == "waitcond" {
				needle = "c05DirectWaiter"
			}
			bigbuff.VerifSetHook(func(p int) {
				if !armed.Load() {
					return
				}
				switch p {
				case bigbuff.VerifWaitCondBeforePark:
					if when == "in-window" && c05StackHas(needle) && gated.CompareAndSwap(false, true) {
						close(atGate)
						<-gate
					}
				case bigbuff.VerifWaitCondWatcherWoken:
					if wokenOnce.CompareAndSwap(false, true) {
						close(woken)
					}
				}
			})
			defer bigbuff.VerifSetHook(nil)
			ctx, cancel := context.WithCancel(context.Background())
			defer cancel()
			var (
				b     *bigbuff.Buffer
				c     bigbuff.Consumer
				mu    sync.Mutex
				cond  = sync.NewCond(&mu)
				ready bool
				op    *vkit.Op
			)
			type getRes struct {
				v   any
				err error
			}
			if target == "get" {
				b = new(bigbuff.Buffer)
				_ = b.SetCleanerConfig(bigbuff.CleanerConfig{Cleaner: bigbuff.DefaultCleaner, Cooldown: 0})
				c, _ = b.NewConsumer()
				time.Sleep(bigbuff.DefaultCleanerCooldown * 2)
				synctest.Wait()
				armed.Store(true)
				op = vkit.Launch("Get", func() any { v, err := c.Get(ctx); return getRes{v, err} })
			} else {
				armed.Store(true)
				op = vkit.Launch("WaitCond", func() any { return c05DirectWaiter(ctx, &mu, cond, &ready) })
			}
			fire := func() {
				switch event {
				case "cancel":
					cancel()
				case "put":
					go func() { _ = b.Put(context.Background(), 42) }()
				case "close":
					go func() { _ = b.Close() }()
				case "broadcast":
					go func() { mu.Lock(); ready = true; cond.Broadcast(); mu.Unlock() }()
				}
			}
			if when == "in-window" {
				select {
				case <-atGate: // the waiter is between predicate and park, holding the lock
					gateHit = true
				case <-time.After(time.Second): // (virtual) the instrumentation point was not reached: plain after-park case
				}
				fire()
				if event == "cancel" && waitWatcher {
					<-woken // a watcher goroutine has seen the cancellation
				}
				for i := 0; i < yields; i++ {
					runtime.Gosched()
				}
				close(gate)
			} else {
				synctest.Wait() // parked
				if op.Finished() {
					outcome = "returned-before-event"
					return
				}
				fire()
			}
			armed.Store(false)
			synctest.Wait()
			if !op.Finished() {
				outcome = "LOST"
				// release it so that the bubble can end
				cancel()
				if target == "get" {
					_ = b.Put(context.Background(), 1)
				} else {
					mu.Lock()
					ready = true
					cond.Broadcast()
					mu.Unlock()
				}
				synctest.Wait()
			} else if op.Panic != nil {
				outcome = fmt.Sprintf("PANIC %v", op.Panic)
			} else {
				switch r := op.Res.(type) {
				case getRes:
					switch {
					case event == "put" && (r.err != nil || r.v != any(42)):
						outcome = fmt.Sprintf("WRONG (%v,%v) want (42,nil)", r.v, r.err)
					case event != "put" && r.err == nil:
						outcome = fmt.Sprintf("WRONG (%v,nil) want an error", r.v)
					default:
						outcome = "ok"
					}
				default:
					err, _ := op.Res.(error)
					switch {
					case event == "broadcast" && err != nil:
						outcome = fmt.Sprintf("WRONG %v want nil", err)
					case event == "cancel" && err == nil:
						outcome = "WRONG nil want ctx error"
					default:
						outcome = "ok"
					}
				}
			}
			if target == "get" {
				_ = c.Rollback()
				_ = b.Close()
			}
			cancel()
			time.Sleep(time.Hour)
			synctest.Wait()
		})
		trace = append(trace, "outcome="+outcome)
		switch {
		case outcome == "LOST":
			vkit.Fail(t, "C05/lost-wakeup-in-window", "the waiter is still blocked at quiescence although the waking event was issued (%s)\ncase: %v", when, trace)
		case strings.HasPrefix(outcome, "WRONG"), strings.HasPrefix(outcome, "PANIC"), outcome == "returned-before-event":
			vkit.Fail(t, "C05/probe-outcome", "%s\ncase: %v", outcome, trace)
		}
		cls := []string{"target:" + target, "event:" + event, "when:" + when}
		if gateHit {
			cls = append(cls, "gate-hit")
		}
		st.Case(trace, gateHit, cls...)
	})
}
