//go:build go1.25

package props

// crowd — "many at once" cases for the APIs that start one goroutine per blocked call (C05: Buffer Gets, C20:
// LinearAttempt producers). A crowd of 60-300 calls is parked first; then an unrelated call on a different object must
// behave exactly as it would alone: a cancelled Get returns its context's error, a Put wakes a blocked Get, a cancelled
// attempt is closed after at most two further values. Everything runs in one bubble in virtual time; a wedge that
// parks goroutines on something the bubble cannot see is the stall watchdog's business.

import (
	"context"
	"fmt"
	"strings"
	"testing"
	"testing/synctest"
	"time"

	bigbuff "github.com/joeycumines/go-bigbuff"
	"pgregory.net/rapid"

	"verif/harness/vkit"
)

func TestC05Crowd(t *testing.T) {
	st := vkit.For("c05_crowd")
	rapid.Check(t, func(t *rapid.T) {
		n := rapid.SampledFrom([]int{60, 63, 64, 65, 100, 128, 129, 200, 300}).Draw(t, "crowd")
		nBuf := rapid.IntRange(1, 3).Draw(t, "crowdBuffers")
		victimFirst := rapid.Bool().Draw(t, "cancelBeforePut")
		trace := []string{fmt.Sprintf("crowd=%d crowdBuffers=%d cancelBeforePut=%v", n, nBuf, victimFirst)}
		vkit.CaseStart(func() string { return strings.Join(trace, " ; ") })
		var sig, bad string
		rapid.SyncTest(t, func(t *rapid.T) {
			bg := context.Background()
			bufs := make([]*bigbuff.Buffer, nBuf)
			for i := range bufs {
				bufs[i] = new(bigbuff.Buffer)
			}
			type res struct {
				v   any
				err error
			}
			crowd := make([]chan res, n)
			cons := make([]bigbuff.Consumer, n)
			for i := range crowd {
				c, err := bufs[i%nBuf].NewConsumer()
				if err != nil {
					t.Fatalf("harness: %v", err)
				}
				ch := make(chan res, 1)
				crowd[i], cons[i] = ch, c
				go func() {
					v, err := c.Get(bg)
					ch <- res{v, err}
				}()
			}
			synctest.Wait()
			// the unrelated buffer
			b2 := new(bigbuff.Buffer)
			c2, err := b2.NewConsumer()
			if err != nil {
				t.Fatalf("harness: %v", err)
			}
			teardown := func() {
				// (a consumer with an unresolved read would hold up Close: resolve them all first)
				for _, c := range cons {
					_ = c.Rollback()
				}
				_ = c2.Rollback()
				for _, b := range bufs {
					_ = b.Close()
				}
				_ = b2.Close()
			}
			cancelled := func() bool {
				ctx, cancel := context.WithCancel(bg)
				ch := make(chan res, 1)
				go func() {
					v, err := c2.Get(ctx)
					ch <- res{v, err}
				}()
				synctest.Wait()
				select {
				case r := <-ch:
					sig, bad = "C05/get-early-return", fmt.Sprintf("a Get on an empty buffer returned (%v,%v) before anything happened", r.v, r.err)
					cancel()
					return false
				default:
				}
				cancel()
				synctest.Wait()
				select {
				case r := <-ch:
					if r.err != context.Canceled {
						sig, bad = "C05/get-lost-wakeup", fmt.Sprintf("the cancelled Get returned (%v,%v)", r.v, r.err)
						return false
					}
				default:
					sig, bad = "C05/get-lost-wakeup", fmt.Sprintf("a Get blocked on an empty buffer is still blocked at quiescence after its context was cancelled, while %d other Gets are parked on %d other buffer(s)", n, nBuf)
					return false
				}
				return true
			}
			woken := func() bool {
				ch := make(chan res, 1)
				go func() {
					v, err := c2.Get(bg)
					ch <- res{v, err}
				}()
				synctest.Wait()
				if err := b2.Put(bg, "x"); err != nil {
					sig, bad = "C01/put-error", fmt.Sprintf("Put failed: %v", err)
					return false
				}
				synctest.Wait()
				select {
				case r := <-ch:
					if r.err != nil || r.v != any("x") {
						sig, bad = "C05+C01/get-value", fmt.Sprintf("the Get woken by Put returned (%v,%v)", r.v, r.err)
						return false
					}
				default:
					sig, bad = "C05/get-lost-wakeup", fmt.Sprintf("a Get blocked on an empty buffer is still blocked at quiescence after a value was put, while %d other Gets are parked on %d other buffer(s)", n, nBuf)
					return false
				}
				return c2.Commit() == nil
			}
			ok := true
			if victimFirst {
				ok = cancelled() && woken()
			} else {
				ok = woken() && cancelled()
			}
			if ok {
				// and the crowd itself: one value per buffer wakes every parked Get of that buffer
				for i, b := range bufs {
					if err := b.Put(bg, i); err != nil {
						sig, bad = "C01/put-error", fmt.Sprintf("Put failed: %v", err)
					}
				}
				synctest.Wait()
				for i, ch := range crowd {
					select {
					case r := <-ch:
						if r.err != nil || r.v != any(i%nBuf) {
							sig, bad = "C05+C01/get-value", fmt.Sprintf("crowd Get %d returned (%v,%v), expected %d", i, r.v, r.err, i%nBuf)
						}
					default:
						sig, bad = "C05/get-lost-wakeup", fmt.Sprintf("crowd Get %d of %d is still blocked at quiescence after a value was put to its buffer", i, n)
					}
					if bad != "" {
						break
					}
				}
			}
			if bad != "" {
				vkit.Announce(sig, "%s\ncase: %v", bad, trace)
			}
			teardown()
			time.Sleep(time.Hour)
			synctest.Wait()
		})
		if bad != "" {
			t.Fatalf("[%s] %s\ncase: %v", sig, bad, trace)
		}
		st.Case(trace, n >= 64, fmt.Sprintf("crowd:%d", n))
	})
}

func TestC20Crowd(t *testing.T) {
	st := vkit.For("c20_crowd")
	rapid.Check(t, func(t *rapid.T) {
		n := rapid.SampledFrom([]int{30, 64, 127, 128, 129, 200, 300, 600}).Draw(t, "crowd")
		crowdCount := rapid.SampledFrom([]int{2, 3, 1000}).Draw(t, "crowdCount")
		rate := rapid.SampledFrom([]time.Duration{time.Nanosecond, time.Millisecond, 5 * time.Millisecond, time.Second}).Draw(t, "rate")
		count := rapid.SampledFrom([]int{2, 3, 1000}).Draw(t, "count")
		take := rapid.IntRange(1, 3).Draw(t, "takeBeforeCancel")
		trace := []string{fmt.Sprintf("crowd=%d crowdCount=%d rate=%v count=%d takeBeforeCancel=%d", n, crowdCount, rate, count, take)}
		vkit.CaseStart(func() string { return strings.Join(trace, " ; ") })
		var sig, bad string
		rapid.SyncTest(t, func(t *rapid.T) {
			crowdCtx, crowdCancel := context.WithCancel(context.Background())
			crowd := make([]<-chan time.Time, n)
			for i := range crowd {
				crowd[i] = bigbuff.LinearAttempt(crowdCtx, time.Hour, crowdCount)
				select {
				case <-crowd[i]:
				default:
					sig, bad = "C20/first-not-immediate", fmt.Sprintf("attempt %d of the crowd: no value available when LinearAttempt returned", i)
				}
			}
			synctest.Wait()
			ctx, cancel := context.WithCancel(context.Background())
			if bad == "" {
				ch := bigbuff.LinearAttempt(ctx, rate, count)
				got := 0
				select {
				case _, ok := <-ch:
					if !ok {
						sig, bad = "C20/first-not-immediate", "the channel was closed without a first value (live context)"
					}
					got++
				default:
					sig, bad = "C20/first-not-immediate", fmt.Sprintf("no value available when LinearAttempt returned (%d other attempts alive)", n)
				}
				closed := false
				for tries := 0; bad == "" && got < take && !closed && tries < 3; tries++ {
					time.Sleep(rate)
					synctest.Wait()
					select {
					case _, ok := <-ch:
						if ok {
							got++
						} else {
							closed = true
						}
					default: // (tick timing is the business of the other C20 engines)
					}
				}
				if bad == "" {
					cancel()
					synctest.Wait()
					after := 0
					for !closed {
						select {
						case _, ok := <-ch:
							if ok {
								after++
							} else {
								closed = true
							}
						default:
							// nothing buffered and not closed: the producer must be gone or be about to go
							time.Sleep(2*rate + time.Millisecond)
							synctest.Wait()
							select {
							case _, ok := <-ch:
								if ok {
									after++
								} else {
									closed = true
								}
							default:
								sig, bad = "C20/not-closed-after-cancel", fmt.Sprintf("the channel is neither closed nor producing two periods after its context was cancelled (%d other attempts alive)", n)
								closed = true
							}
						}
						if after > 2 {
							sig, bad = "C20/too-many-after-cancel", fmt.Sprintf("%d values were received after the context was cancelled", after)
							break
						}
					}
					if bad == "" && got+after > count {
						sig, bad = "C20/more-than-count", fmt.Sprintf("%d values for count %d", got+after, count)
					}
				}
			}
			cancel()
			crowdCancel()
			synctest.Wait()
			if bad == "" {
				for i, ch := range crowd {
					// at most one value may still be buffered; then the channel must be closed
					extra := 0
					for open := true; open && bad == ""; {
						select {
						case _, ok := <-ch:
							if ok {
								if extra++; extra > 2 {
									sig, bad = "C20/too-many-after-cancel", fmt.Sprintf("attempt %d of the crowd produced %d values after the cancellation", i, extra)
								}
							} else {
								open = false
							}
						default:
							sig, bad = "C20/not-closed-after-cancel", fmt.Sprintf("attempt %d of the crowd (%d attempts, rate 1h) is not closed at quiescence after its context was cancelled", i, n)
						}
					}
				}
			}
			if bad != "" {
				vkit.Announce(sig, "%s\ncase: %v", bad, trace)
			}
			time.Sleep(2 * time.Hour)
			synctest.Wait()
		})
		if bad != "" {
			t.Fatalf("[%s] %s\ncase: %v", sig, bad, trace)
		}
		st.Case(trace, n >= 128, fmt.Sprintf("crowd:%d", n))
	})
}
