//go:build verif

package props

// c20real — LinearAttempt on the real clock (C20), several attempts per case: attempts follow each other and overlap
// (a package may keep state between calls; inside a synctest bubble every case is sealed off from the next, on the
// real clock it is not). Each attempt has a prompt receiver; some are cancelled after a drawn number of values.
// Only clock-independent facts are asserted: an attempt that is never cancelled yields exactly count values and is
// then closed; a cancelled one yields at most count values, at most two of them after the cancellation, and is
// closed. There is no deadline in the check itself: an attempt that never completes is the stall watchdog's business
// (VKIT-STALL, reported as C20/stall).

import (
	"context"
	"fmt"
	"strings"
	"sync"
	"testing"
	"time"

	bigbuff "github.com/joeycumines/go-bigbuff"
	"pgregory.net/rapid"

	"verif/harness/vkit"
)

type c20rAttempt struct {
	count       int
	rate        time.Duration
	cancelAfter int // -1 never
	wave        int // attempts of one wave run concurrently; waves follow each other
	got         int
	after       int
	problem     string
}

func TestC20Real(t *testing.T) {
	st := vkit.For("c20_real")
	rapid.Check(t, func(t *rapid.T) {
		nWaves := rapid.IntRange(1, 3).Draw(t, "waves")
		var as []*c20rAttempt
		for w := 0; w < nWaves; w++ {
			for k := rapid.IntRange(1, 3).Draw(t, "concurrent"); k > 0; k-- {
				a := &c20rAttempt{wave: w, count: rapid.SampledFrom([]int{1, 2, 3, 5, 12}).Draw(t, "count"),
					rate: rapid.SampledFrom([]time.Duration{1, 50, time.Microsecond, 200 * time.Microsecond, time.Millisecond, 3 * time.Millisecond}).Draw(t, "rate"), cancelAfter: -1}
				if rapid.IntRange(0, 2).Draw(t, "cancelled") == 0 {
					a.cancelAfter = rapid.IntRange(0, a.count).Draw(t, "cancelAfter")
				}
				as = append(as, a)
			}
		}
		var trace []string
		for _, a := range as {
			trace = append(trace, fmt.Sprintf("wave%d{count=%d rate=%v cancelAfter=%d}", a.wave, a.count, a.rate, a.cancelAfter))
		}
		vkit.CaseStart(func() string { return strings.Join(trace, " ; ") })
		for w := 0; w < nWaves; w++ {
			var wg sync.WaitGroup
			for _, a := range as {
				if a.wave != w {
					continue
				}
				wg.Add(1)
				go func(a *c20rAttempt) {
					defer wg.Done()
					ctx, cancel := context.WithCancel(context.Background())
					defer cancel()
					c := bigbuff.LinearAttempt(ctx, a.rate, a.count)
					cancelled := false
					if a.cancelAfter == 0 {
						cancel()
						cancelled = true
					}
					for range c {
						a.got++
						if cancelled {
							a.after++
						}
						if a.got > a.count+3 {
							a.problem = "more values than count (and counting)"
							return
						}
						if !cancelled && a.cancelAfter > 0 && a.got >= a.cancelAfter {
							cancel()
							cancelled = true
						}
					}
				}(a)
			}
			wg.Wait()
		}
		overlapped := false
		for i, a := range as {
			switch {
			case a.problem != "":
				vkit.Fail(t, "C20/more-than-count", "attempt %d: %s\ncase: %v", i, a.problem, trace)
			case a.got > a.count:
				vkit.Fail(t, "C20/more-than-count", "attempt %d yielded %d values, count is %d\ncase: %v", i, a.got, a.count, trace)
			case a.cancelAfter < 0 && a.got != a.count:
				vkit.Fail(t, "C20/closed-early", "attempt %d was closed after %d values; its context was never cancelled and count is %d\ncase: %v", i, a.got, a.count, trace)
			case a.after > 2:
				vkit.Fail(t, "C20/too-many-after-cancel", "attempt %d yielded %d values after its context had been cancelled\ncase: %v", i, a.after, trace)
			}
			if i > 0 && as[i-1].wave == a.wave {
				overlapped = true
			}
		}
		st.Case(trace, overlapped && nWaves > 1, fmt.Sprintf("waves:%d", nWaves))
	})
}
