//go:build verif && go1.25

package props

// C08 — ChanCaster. Three engines:
//   TestC08CasterStep   model-based stepper in a synctest bubble (who receives what, counts, enabledness,
//                       registration deferred by an in-flight Send, absorbed deregistrations)
//   TestC08CasterFree   free-running concurrent programs in a bubble (racing senders, receivers that leave
//                       after a drawn number of yields), conservation + per-message count oracle
//   TestC08CasterMisuse sequential Add/Send sequences with deltas from the whole int range on a caster nobody
//                       receives from: out-of-range / unbalanced Adds must panic, and keep panicking

import (
	"fmt"
	"math"
	"runtime"
	"strings"
	"sync"
	"sync/atomic"
	"testing"
	"testing/synctest"
	"time"

	bigbuff "github.com/joeycumines/go-bigbuff"
	"pgregory.net/rapid"

	"verif/harness/vkit"
)

// ---------------------------------------------------------------------------------------------
// stepper

type c08Slot struct {
	id    int
	state string // "idle" | "receiving" | "received" | "gone"
	op    *vkit.Op
	quit  chan struct{}
	round int // send round (1-based) this slot's registration is eligible for
}

type c08SlotRes struct {
	got   bool
	v     int
	count int // return of Add(-1) when deregistered
}

type c08Step struct {
	t     *rapid.T
	st    *vkit.Stats
	x     *bigbuff.ChanCaster[chan int, int]
	slots []*c08Slot
	trace []string

	sendOp   *vkit.Op
	sendVal  int
	sendR0   int // registered when the Send started
	served   int // copies delivered to receivers
	absorbed int // copies absorbed by deregistrations during the Send
	nextVal  int
	round    int
	deferAdd int // a positive Add deferred by the in-flight Send (it lands right after the Send returns)

	// classification
	absorbedSeen bool
	deferredSeen bool
	bigSend      bool
}

func (m *c08Step) tr(f string, a ...any) { m.trace = append(m.trace, fmt.Sprintf(f, a...)) }

func (m *c08Step) cleanup() {
	for _, s := range m.slots {
		if s.quit != nil {
			select {
			case <-s.quit:
			default:
				close(s.quit)
			}
		}
	}
	// drain whatever a pending Send still wants to deliver
	x := m.x
	go func() {
		for i := 0; i < 64; i++ {
			select {
			case <-x.C:
			default:
				runtime.Gosched()
			}
		}
	}()
	for i := 0; i < 300; i++ {
		runtime.Gosched()
	}
}

func (m *c08Step) fail(sig, f string, a ...any) {
	m.t.Helper()
	msg := fmt.Sprintf("%s\ntrace: %s", fmt.Sprintf(f, a...), strings.Join(m.trace, " ; "))
	vkit.Announce(sig, "%s", msg)
	m.cleanup()
	m.t.Fatalf("[%s] %s", sig, msg)
}

func (m *c08Step) registered() int {
	n := 0
	for _, s := range m.slots {
		if s.state == "idle" || s.state == "receiving" {
			n++
		}
	}
	return n
}

func (m *c08Step) sending() bool { return m.sendOp != nil }

// count is what Add reports: while a Send is in flight the receivers it counted stay counted until it
// returns (less the deregistrations it absorbed).
func (m *c08Step) count() int {
	if m.sending() {
		return m.sendR0 - m.absorbed
	}
	return m.registered()
}

// settle: wait for quiescence, then reconcile every pending op with the model.
func (m *c08Step) settle() {
	synctest.Wait()
	// receiving slots
	for _, s := range m.slots {
		if s.state != "receiving" {
			continue
		}
		if s.op.Finished() {
			if s.op.Panic != nil {
				m.fail("C08/receiver-panic", "receiver %d panicked: %v", s.id, s.op.Panic)
			}
			r := s.op.Res.(c08SlotRes)
			if !r.got {
				m.fail("C08/harness", "slot %d deregistered without being told to", s.id)
			}
			if !m.sending() || s.round != m.round {
				m.fail("C08/delivered-to-unregistered", "receiver %d (registered for round %d) received %d although no Send that counted it is in flight (round %d, sending=%v)", s.id, s.round, r.v, m.round, m.sending())
			}
			if r.v != m.sendVal {
				m.fail("C08/wrong-value", "receiver %d received %d, the Send in flight carries %d", s.id, r.v, m.sendVal)
			}
			s.state = "received"
			m.served++
			m.tr("r%d<-%d", s.id, r.v)
		} else if m.sending() && s.round == m.round {
			m.fail("C08/receiver-starved", "receiver %d is registered and receiving but got nothing although a Send that counted it is in flight", s.id)
		}
	}
	if m.sending() {
		want := m.served+m.absorbed >= m.sendR0
		if m.served+m.absorbed > m.sendR0 {
			m.fail("C08/over-delivery", "Send delivered %d + absorbed %d copies, only %d receivers were registered when it started", m.served, m.absorbed, m.sendR0)
		}
		if want != m.sendOp.Finished() {
			if want {
				m.fail("C08/send-hang", "Send still blocked although all %d copies were received (%d) or absorbed (%d)", m.sendR0, m.served, m.absorbed)
			}
			m.fail("C08/send-early", "Send returned %v after %d deliveries + %d absorbed, %d receivers were registered when it started", m.sendOp.Res, m.served, m.absorbed, m.sendR0)
		}
		if want {
			if m.sendOp.Panic != nil {
				m.fail("C08/send-panic", "Send panicked: %v", m.sendOp.Panic)
			}
			if got := m.sendOp.Res.(int); got != m.served {
				m.fail("C08/send-count", "Send returned %d, but %d receivers received the value (registered at start %d, absorbed %d)", got, m.served, m.sendR0, m.absorbed)
			}
			m.tr("send(%d)=%d", m.sendVal, m.served)
			m.sendOp = nil
			for _, s := range m.slots {
				if s.state == "received" {
					s.state = "gone" // a registration is good for exactly one value
				}
			}
			if n := m.x.Add(0); n != m.registered()+m.deferAdd {
				m.fail("C08/count-after-send", "Add(0)=%d after Send returned, model has %d registered", n, m.registered()+m.deferAdd)
			}
		}
	}
}

func (m *c08Step) pick(label string, pred func(*c08Slot) bool) *c08Slot {
	var c []*c08Slot
	for _, s := range m.slots {
		if pred(s) {
			c = append(c, s)
		}
	}
	if len(c) == 0 {
		return nil
	}
	return c[rapid.IntRange(0, len(c)-1).Draw(m.t, label)]
}

func (m *c08Step) ruleRegister(t *rapid.T) {
	d := rapid.IntRange(1, 3).Draw(t, "d")
	if m.registered()+d > 6 {
		t.Skip("enough receivers")
	}
	if !m.sending() {
		before := m.registered()
		res, pv := vkit.Call(func() any { return m.x.Add(d) })
		if pv != nil {
			m.fail("C08/add-panic", "Add(%d) panicked: %v", d, pv)
		}
		if res.(int) != before+d {
			m.fail("C08/add-count", "Add(%d) returned %d, expected %d", d, res, before+d)
		}
		for i := 0; i < d; i++ {
			m.slots = append(m.slots, &c08Slot{id: len(m.slots), state: "idle", round: m.round + 1})
		}
		m.tr("add(%d)=%d", d, before+d)
		m.settle()
		return
	}
	// A registration requested during a Send takes effect only for a later Send. The Add parks on the
	// caster's lock until the Send is over, so this is a compound step: launch the Add, check it has not
	// completed, finish the Send (serve every remaining copy), then settle.
	m.deferredSeen = true
	op := vkit.Launch("Add(+)", func() any { return m.x.Add(d) })
	for i := 0; i < 200; i++ {
		runtime.Gosched()
	}
	if op.Finished() {
		m.fail("C08/add-during-send", "Add(%d) completed (%v / panic %v) while a Send is in flight (%d of %d copies outstanding)", d, op.Res, op.Panic, m.sendR0-m.served-m.absorbed, m.sendR0)
	}
	m.tr("add(%d) during send...", d)
	m.deferAdd = d
	for _, s := range m.slots {
		if s.state == "idle" && s.round == m.round {
			m.startReceive(s)
		}
	}
	m.settle()
	m.deferAdd = 0
	if m.sending() {
		m.fail("C08/send-hang", "Send did not finish although every counted receiver is receiving")
	}
	if !op.Finished() {
		m.fail("C08/add-hang", "positive Add still blocked after the Send returned")
	}
	if op.Panic != nil {
		m.fail("C08/add-panic", "Add(%d) after a Send panicked: %v", d, op.Panic)
	}
	want := m.registered() + d
	if op.Res.(int) != want {
		m.fail("C08/add-count", "Add(%d) deferred by a Send returned %d, expected %d (it must not have been counted by that Send)", d, op.Res, want)
	}
	for i := 0; i < d; i++ {
		m.slots = append(m.slots, &c08Slot{id: len(m.slots), state: "idle", round: m.round + 1})
	}
	m.tr("...add=%d", want)
	m.settle()
}

func (m *c08Step) startReceive(s *c08Slot) {
	s.quit = make(chan struct{})
	x, quit := m.x, s.quit
	s.state = "receiving"
	s.op = vkit.Launch("receive", func() any {
		select {
		case v := <-x.C:
			return c08SlotRes{got: true, v: v}
		case <-quit:
			return c08SlotRes{count: x.Add(-1)}
		}
	})
}

func (m *c08Step) ruleReceive(t *rapid.T) {
	s := m.pick("recvSlot", func(s *c08Slot) bool { return s.state == "idle" })
	if s == nil {
		t.Skip("no idle slot")
	}
	m.startReceive(s)
	m.tr("r%d:recv", s.id)
	m.settle()
}

func (m *c08Step) ruleDeregister(t *rapid.T) {
	s := m.pick("deregSlot", func(s *c08Slot) bool {
		return s.state == "idle" || (s.state == "receiving" && !(m.sending() && s.round == m.round))
	})
	if s == nil {
		t.Skip("nothing to deregister")
	}
	before := m.count()
	counted := m.sending() && s.round == m.round
	var op *vkit.Op
	if s.state == "receiving" {
		close(s.quit)
		op = s.op
	} else {
		x := m.x
		op = vkit.Launch("Add(-1)", func() any { return c08SlotRes{count: x.Add(-1)} })
	}
	s.state = "gone"
	if counted {
		m.absorbed++
		m.absorbedSeen = true
	}
	synctest.Wait()
	if !op.Finished() {
		m.fail("C08/dereg-hang", "Add(-1) of receiver %d still blocked at quiescence (send in flight=%v)", s.id, m.sending())
	}
	if op.Panic != nil {
		m.fail("C08/dereg-panic", "Add(-1) of receiver %d panicked: %v", s.id, op.Panic)
	}
	r := op.Res.(c08SlotRes)
	if r.got {
		m.fail("C08/harness", "slot %d received instead of deregistering", s.id)
	}
	if r.count != before-1 {
		m.fail("C08/add-count", "Add(-1) returned %d, expected %d", r.count, before-1)
	}
	m.tr("r%d:dereg=%d", s.id, r.count)
	m.settle()
}

func (m *c08Step) ruleSend(t *rapid.T) {
	if m.sending() {
		t.Skip("send in flight")
	}
	m.nextVal++
	m.round++
	v := m.nextVal
	m.sendVal, m.sendR0, m.served, m.absorbed = v, m.registered(), 0, 0
	for _, s := range m.slots {
		if (s.state == "idle" || s.state == "receiving") && s.round != m.round {
			panic("harness: slot with stale round")
		}
	}
	x := m.x
	m.sendOp = vkit.Launch("Send", func() any { return x.Send(v) })
	if m.sendR0 >= 2 {
		m.bigSend = true
	}
	m.tr("send(%d)[R=%d]...", v, m.sendR0)
	if m.sendR0 == 0 {
		synctest.Wait()
		if !m.sendOp.Finished() || m.sendOp.Panic != nil || m.sendOp.Res.(int) != 0 {
			m.fail("C08/send-empty", "Send with no receiver: finished=%v res=%v panic=%v, expected an immediate 0", m.sendOp.Finished(), m.sendOp.Res, m.sendOp.Panic)
		}
		m.sendOp = nil
		m.tr("=0")
		return
	}
	m.settle()
}

// ruleSecondSend: a second Send is issued while the first is still delivering. It has to wait for the first one (all
// receivers registered when it starts are the first Send's business): when it returns the registered count is zero,
// and as nobody registered for it it returns 0. The second Send parks on the caster's lock, so this is a compound
// step: launch it, look (without declaring quiescence), then let the first Send finish and settle.
func (m *c08Step) ruleSecondSend(t *rapid.T) {
	if !m.sending() || m.sendR0-m.served-m.absorbed <= 0 {
		t.Skip("no Send in its delivery phase")
	}
	for _, s := range m.slots {
		if s.round == m.round && s.state != "idle" && s.state != "receiving" && s.state != "received" && s.state != "gone" {
			t.Skip("a counted receiver is busy")
		}
	}
	m.nextVal++
	v2 := m.nextVal
	x := m.x
	op := vkit.Launch("Send#2", func() any { return x.Send(v2) })
	for i := 0; i < 300; i++ {
		runtime.Gosched()
	}
	if op.Finished() && op.Panic == nil {
		if n := x.Add(0); n != 0 {
			m.fail("C08/count-after-send", "a second Send(%d) returned %v while the first Send is still delivering; right after it returned Add(0)=%d (after Send returns the registered count is zero)", v2, op.Res, n)
		}
	}
	m.tr("send#2(%d) during send...", v2)
	for _, s := range m.slots {
		if s.state == "idle" && s.round == m.round {
			m.startReceive(s)
		}
	}
	m.settle()
	if m.sending() {
		m.fail("C08/send-hang", "the first Send did not finish although every counted receiver is receiving")
	}
	if !op.Finished() {
		m.fail("C08/send-hang", "the second Send is still blocked after the first one returned, with nobody registered")
	}
	if op.Panic != nil {
		m.fail("C08/send-panic", "the second Send panicked although nobody broke the contract: %v", op.Panic)
	}
	if op.Res.(int) != 0 {
		m.fail("C08/send-count", "the second Send returned %v; nobody was registered for it", op.Res)
	}
	m.tr("...send#2=0")
	m.settle()
}

func (m *c08Step) ruleAdd0(t *rapid.T) {
	res, pv := vkit.Call(func() any { return m.x.Add(0) })
	if pv != nil {
		m.fail("C08/add-panic", "Add(0) panicked: %v", pv)
	}
	want := m.count()
	if res.(int) != want {
		m.fail("C08/add-count", "Add(0)=%d, model has %d registered (send in flight=%v)", res, want, m.sending())
	}
}

func TestC08CasterStep(t *testing.T) {
	st := vkit.For("c08_caster_step")
	rapid.Check(t, func(t *rapid.T) {
		rapid.SyncTest(t, func(t *rapid.T) {
			m := &c08Step{t: t, st: st, x: bigbuff.NewChanCaster(make(chan int))}
			vkit.CaseStart(func() string { return strings.Join(m.trace, " ; ") })
			defer func() {
				if r := recover(); r != nil {
					m.cleanup()
					panic(r)
				}
			}()
			acts := map[string]func(*rapid.T){}
			add := func(n string, w int, f func(*rapid.T)) {
				for i := 0; i < w; i++ {
					acts[fmt.Sprintf("%s~%d", n, i)] = f
				}
			}
			add("register", 3, m.ruleRegister)
			add("receive", 4, m.ruleReceive)
			add("deregister", 2, m.ruleDeregister)
			add("send", 3, m.ruleSend)
			add("add0", 1, m.ruleAdd0)
			add("secondSend", 2, m.ruleSecondSend)
			add("advance", 1, func(t *rapid.T) { // time passes while nothing else happens: ChanCaster has no notion of time
				d := rapid.SampledFrom([]time.Duration{time.Millisecond, 3 * time.Second, 24 * time.Hour}).Draw(t, "advance")
				time.Sleep(d)
				m.tr("advance(%v)", d)
				m.settle()
			})
			t.Repeat(vkit.NoStarve(acts, nil))
			// teardown: finish an in-flight Send, deregister the rest
			for _, s := range m.slots {
				if m.sending() && s.state == "idle" && s.round == m.round {
					m.startReceive(s)
				}
			}
			m.settle()
			if m.sending() {
				m.fail("C08/send-hang", "Send did not finish at teardown")
			}
			for _, s := range m.slots {
				switch s.state {
				case "receiving":
					close(s.quit)
					s.state = "gone"
				case "idle":
					m.x.Add(-1)
					s.state = "gone"
				}
			}
			synctest.Wait()
			if n := m.x.Add(0); n != 0 {
				m.fail("C08/count-at-end", "Add(0)=%d after everyone left", n)
			}
			time.Sleep(time.Second)
			synctest.Wait()
			if left := vkit.BubbleOthers(); len(left) != 0 {
				m.fail("C08/leak", "goroutines left:\n%s", vkit.DescribeGoroutines(left))
			}
			nt := m.bigSend && (m.absorbedSeen || m.deferredSeen)
			var cls []string
			if m.absorbedSeen {
				cls = append(cls, "absorbed-dereg")
			}
			if m.deferredSeen {
				cls = append(cls, "deferred-registration")
			}
			if m.bigSend {
				cls = append(cls, "send-R>=2")
			}
			st.Case(m.trace, nt, cls...)
		})
	})
}

// ---------------------------------------------------------------------------------------------
// free-running programs

func TestC08CasterFree(t *testing.T) {
	st := vkit.For("c08_caster_free")
	rapid.Check(t, func(t *rapid.T) {
		nRecv := rapid.IntRange(1, 5).Draw(t, "receivers")
		nSend := rapid.IntRange(1, 3).Draw(t, "senders")
		type rscript struct {
			rounds    int
			leaveAt   []int // per round: yields before giving up (-1 = wait for a value)
			yieldsPre []int
		}
		rs := make([]rscript, nRecv)
		for i := range rs {
			rs[i].rounds = rapid.IntRange(1, 4).Draw(t, "rounds")
			for j := 0; j < rs[i].rounds; j++ {
				rs[i].leaveAt = append(rs[i].leaveAt, rapid.SampledFrom([]int{-1, -1, 0, 1, 2, 5, 20}).Draw(t, "leaveAt"))
				rs[i].yieldsPre = append(rs[i].yieldsPre, rapid.IntRange(0, 3).Draw(t, "pre"))
			}
		}
		msgs := make([]int, nSend)
		sy := make([][]int, nSend)
		for i := range msgs {
			msgs[i] = rapid.IntRange(1, 5).Draw(t, "msgs")
			for j := 0; j < msgs[i]; j++ {
				sy[i] = append(sy[i], rapid.IntRange(0, 4).Draw(t, "sy"))
			}
		}
		raceRounds := rapid.SampledFrom([]int{0, 60, 200, 400}).Draw(t, "raceRounds")
		raceSpinR := rapid.IntRange(0, 12).Draw(t, "raceSpinR")
		raceSpinS := rapid.IntRange(0, 12).Draw(t, "raceSpinS")
		hookY := map[int]int{
			bigbuff.VerifCasterArmed:    rapid.SampledFrom([]int{0, 0, 1, 3, 10}).Draw(t, "hookArmed"),
			bigbuff.VerifCasterNegAdded: rapid.SampledFrom([]int{0, 0, 1, 3, 10}).Draw(t, "hookNeg"),
		}
		bigbuff.VerifSetHook(func(p int) {
			for i := hookY[p]; i > 0; i-- {
				runtime.Gosched()
			}
		})
		defer bigbuff.VerifSetHook(nil)
		trace := []string{fmt.Sprintf("recv=%v", rs), fmt.Sprintf("send=%v hooks=%v raceLane=%dx(spinR=%d,spinS=%d)", sy, hookY, raceRounds, raceSpinR, raceSpinS)}
		vkit.CaseStart(func() string { return strings.Join(trace, " ; ") })

		var (
			mu       sync.Mutex
			received = map[int]int{} // token -> receipts
			returned = map[int]int{} // token -> Send return
			adds     int64
			deregs   int64
			panics   []string
		)
		rapid.SyncTest(t, func(t *rapid.T) {
			x := bigbuff.NewChanCaster(make(chan int))
			var wgR, wgS sync.WaitGroup
			var active atomic.Int64
			guard := func(who string) {
				if r := recover(); r != nil {
					mu.Lock()
					panics = append(panics, fmt.Sprintf("%s: %v", who, r))
					mu.Unlock()
				}
			}
			for i := range rs {
				wgR.Add(1)
				active.Add(1)
				go func(i int) {
					defer wgR.Done()
					defer active.Add(-1)
					defer guard(fmt.Sprintf("receiver %d", i))
					for j := 0; j < rs[i].rounds; j++ {
						for k := 0; k < rs[i].yieldsPre[j]; k++ {
							runtime.Gosched()
						}
						x.Add(1)
						atomic.AddInt64(&adds, 1)
						left := rs[i].leaveAt[j]
						if left < 0 {
							v := <-x.C
							mu.Lock()
							received[v]++
							mu.Unlock()
							continue
						}
					poll:
						for {
							select {
							case v := <-x.C:
								mu.Lock()
								received[v]++
								mu.Unlock()
								break poll
							default:
							}
							if left == 0 {
								x.Add(-1) // gives up: deregisters (absorbs its copy if a Send already counted it)
								atomic.AddInt64(&deregs, 1)
								break poll
							}
							left--
							runtime.Gosched()
						}
					}
				}(i)
			}
			for s := range msgs {
				wgS.Add(1)
				go func(s int) {
					defer wgS.Done()
					defer guard(fmt.Sprintf("sender %d", s))
					for j := 0; j < msgs[s]; j++ {
						for k := 0; k < sy[s][j]; k++ {
							runtime.Gosched()
						}
						tok := (s+1)*1000 + j
						n := x.Send(tok)
						mu.Lock()
						returned[tok] = n
						mu.Unlock()
					}
				}(s)
			}
			wgS.Wait()
			// flush: keep serving receivers that still wait for a value
			flush := 900000
			for active.Load() > 0 {
				flush++
				n := x.Send(flush)
				mu.Lock()
				returned[flush] = n
				mu.Unlock()
				runtime.Gosched()
			}
			wgR.Wait()
			if n := x.Add(0); n != 0 {
				vkit.Fail(t, "C08/count-at-end", "Add(0)=%d after every receiver finished\ncase: %v", n, trace)
			}
			// ---- race lane: many barrier-synchronised two-party races between a Send and the deregistration of the
			// only registered receiver (spin offsets drawn per case). Whoever wins, the Send must return 0 (the copy, if
			// any, is absorbed), the count must be back to 0 and the next registration must go through.
			if raceRounds > 0 {
				var phase atomic.Int64
				var rwg sync.WaitGroup
				spin := func(n int) {
					for i := 0; i < n; i++ {
						_ = phase.Load()
					}
				}
				wait := func(v int64) {
					// busy-wait (yielding only now and then): both parties leave the barrier within nanoseconds of each other
					for n := 1; phase.Load() != v; n++ {
						if n&0x3fff == 0 {
							runtime.Gosched()
						}
					}
				}
				rwg.Add(2)
				go func() {
					defer rwg.Done()
					defer guard("race receiver")
					for i := 0; i < raceRounds; i++ {
						x.Add(1)
						phase.Store(int64(3*i + 1))
						wait(int64(3*i + 2))
						spin((raceSpinR + i*7) % 48) // the offsets sweep across the rounds
						x.Add(-1)
						wait(int64(3*i + 3))
					}
				}()
				go func() {
					defer rwg.Done()
					defer guard("race sender")
					for i := 0; i < raceRounds; i++ {
						wait(int64(3*i + 1))
						phase.Store(int64(3*i + 2))
						spin((raceSpinS + i*13) % 48)
						if n := x.Send(-1 - i); n != 0 {
							mu.Lock()
							panics = append(panics, fmt.Sprintf("race lane round %d: Send returned %d although its only receiver deregistered without receiving", i, n))
							mu.Unlock()
						}
						for x.Add(0) != 0 { // the deregistration may still be absorbing
							runtime.Gosched()
						}
						phase.Store(int64(3*i + 3))
					}
				}()
				rwg.Wait()
			}
		})
		if len(panics) > 0 {
			vkit.Fail(t, "C08/panic-in-contract-use", "panic(s) although every receiver followed the contract: %v\ncase: %v", panics, trace)
		}
		totalRet, totalRecv := 0, 0
		for tok, n := range returned {
			totalRet += n
			if received[tok] != n {
				vkit.Fail(t, "C08/send-count", "Send(%d) returned %d but the value was received %d times\ncase: %v", tok, n, received[tok], trace)
			}
		}
		for tok, n := range received {
			totalRecv += n
			if _, ok := returned[tok]; !ok {
				vkit.Fail(t, "C08/invented", "value %d received %d times but never sent\ncase: %v", tok, n, trace)
			}
		}
		if int(adds) != totalRecv+int(deregs) {
			vkit.Fail(t, "C08/conservation", "registrations %d != receipts %d + deregistrations %d\ncase: %v", adds, totalRecv, deregs, trace)
		}
		st.Case(trace, nSend >= 2 && deregs > 0, fmt.Sprintf("senders:%d", nSend), map[bool]string{true: "with-dereg", false: "no-dereg"}[deregs > 0])
	})
}

// ---------------------------------------------------------------------------------------------
// misuse: out-of-range / unbalanced Adds are reported by a panic, and every later call panics too

func TestC08CasterMisuse(t *testing.T) {
	st := vkit.For("c08_caster_misuse")
	special := []int{0, 1, -1, 2, -2, math.MaxInt32, -math.MaxInt32, math.MaxInt32 + 1, -math.MaxInt32 - 1, math.MaxInt32 - 1, math.MinInt64, math.MaxInt64, math.MinInt32,
		// deltas whose low 32 bits look harmless
		1 << 32, 1<<32 + 1, 1<<32 + 3, -(1 << 32), -(1 << 32) - 1, 1 << 33, 3<<32 + 2, math.MaxUint32, math.MaxUint32 + 2, -math.MaxUint32, 1<<52 + 1, -(1 << 40) - 2}

	// Deterministic probes of the two listed known findings: the KNOWN-FINDING line is printed only
	// while the listed shape really still fails.
	probe := func(calls ...int) (lastPanicked bool) {
		x := bigbuff.NewChanCaster(make(chan int))
		for _, d := range calls {
			_, pv := vkit.Call(func() any { return x.Add(d) })
			lastPanicked = pv != nil
		}
		return
	}
	if !probe(math.MaxInt32+1, 0) {
		vkit.Known(st, "C08/sticky/delta-out-of-bounds")
	}
	if !probe(-1, 1, 0) {
		vkit.Known(st, "C08/sticky/after-compensating-add")
	}

	const (
		sigF1 = "C08/sticky/delta-out-of-bounds"
		sigF2 = "C08/sticky/after-compensating-add"
	)
	rapid.Check(t, func(t *rapid.T) {
		rapid.SyncTest(t, func(t *rapid.T) {
			x := bigbuff.NewChanCaster(make(chan int))
			n := rapid.IntRange(1, 8).Draw(t, "n")
			var (
				trace    []string
				count    int64 // mathematical count (may leave the legal range [0, MaxInt32])
				stickyBy = ""  // signature of the misuse after which every call must panic ("" = none yet)
				anyPanic = false
				afterBad = 0
				known1   = vkit.Known(nil, sigF1)
				known2   = vkit.Known(nil, sigF2)
			)
			inRange := func(c int64) bool { return c >= 0 && c <= math.MaxInt32 }
			// ---- optional prologue: the misuse happens WHILE a Send is in flight (R receivers registered, Send armed
			// and blocked, then an unbalanced negative Add). The Add must panic; once the registered receivers have
			// taken their copies the Send must panic too (its end-of-broadcast validation), and — the mathematical
			// count now being negative — every later call must panic as well.
			if rapid.IntRange(0, 3).Draw(t, "inFlightMisuse") == 0 {
				R := rapid.IntRange(1, 3).Draw(t, "R")
				extra := rapid.IntRange(1, 3).Draw(t, "extra")
				x.Add(R)
				sendOp := vkit.Launch("Send", func() any { return x.Send(9) })
				synctest.Wait()
				if sendOp.Finished() {
					vkit.Fail(t, "C08/send-early", "Send returned %v / %v although %d registered receivers have not received", sendOp.Res, sendOp.Panic, R)
				}
				addOp := vkit.Launch("Add", func() any { return x.Add(-(R + extra)) })
				synctest.Wait()
				if !addOp.Finished() || addOp.Panic == nil {
					go func() {
						for {
							select {
							case <-x.C:
							case <-time.After(time.Minute):
								return
							}
						}
					}()
					vkit.Fail(t, "C08/misuse-unnoticed", "an unbalanced Add(%d) with %d registered receivers during a Send did not panic (finished=%v result=%v)\ncase: %v", -(R + extra), R, addOp.Finished(), addOp.Res, trace)
				}
				// only now do the registered receivers take their copies, so that the Send reaches its validation
				for i := 0; i < R; i++ {
					go func() {
						select {
						case <-x.C:
						case <-time.After(time.Minute):
						}
					}()
				}
				synctest.Wait()
				trace = append(trace, fmt.Sprintf("in-flight: Add(%d) Send || Add(%d) -> Add %v/%v Send %v/%v", R, -(R+extra), addOp.Res, addOp.Panic, sendOp.Res, sendOp.Panic))
				if addOp.Finished() && addOp.Panic == nil {
					vkit.Fail(t, "C08/misuse-unnoticed", "an unbalanced Add(%d) with %d registered receivers during a Send returned %v\ncase: %v", -(R + extra), R, addOp.Res, trace)
				}
				if sendOp.Finished() && sendOp.Panic == nil {
					vkit.Fail(t, "C08/misuse-unnoticed", "Send returned %v although an unbalanced Add broke the invariants while it was in flight\ncase: %v", sendOp.Res, trace)
				}
				if addOp.Finished() && sendOp.Finished() {
					anyPanic = true
					// count is -(extra): out of range. No compensating call is issued here (see the listed finding);
					// every one of these calls must panic
					for _, d := range []int{0, -1, 0} {
						res, pv := vkit.Call(func() any { return x.Add(d) })
						trace = append(trace, fmt.Sprintf("Add(%d)=%v/%v", d, res, pv))
						afterBad++
						if pv == nil {
							vkit.Fail(t, "C08/misuse-unnoticed", "Add(%d) returned %v after an unbalanced Add during a Send left the count below zero: every later call must panic\ncase: %v", d, res, trace)
						}
					}
					op := vkit.Launch("Send", func() any { return x.Send(1) })
					synctest.Wait()
					if !op.Finished() || op.Panic == nil {
						trace = append(trace, fmt.Sprintf("Send=%v/%v finished=%v", op.Res, op.Panic, op.Finished()))
						go func() {
							for {
								select {
								case <-x.C:
								case <-time.After(time.Minute):
									return
								}
							}
						}()
						vkit.Fail(t, "C08/misuse-unnoticed", "Send did not panic after an unbalanced Add during an earlier Send left the count below zero\ncase: %v", trace)
					}
				}
				st.Case(trace, true, "misuse-during-send")
				return
			}
			for i := 0; i < n; i++ {
				isSend := rapid.IntRange(0, 5).Draw(t, "isSend") == 0
				if isSend {
					// nobody receives: with a positive legal count a Send would (correctly) block, so it is only
					// issued when the count is 0 (must return 0), out of range or after a sticky misuse (must panic)
					if stickyBy == "" && inRange(count) && count != 0 {
						continue
					}
					mustPanic := stickyBy != "" || !inRange(count)
					op := vkit.Launch("Send", func() any { return x.Send(1) })
					synctest.Wait()
					if !op.Finished() {
						go func() {
							for {
								select {
								case <-x.C:
								case <-time.After(time.Minute):
									return
								}
							}
						}()
						trace = append(trace, "Send=blocked")
						sig := "C08/misuse-unnoticed"
						if stickyBy != "" && inRange(count) {
							sig = stickyBy
						}
						vkit.Fail(t, sig, "Send blocks instead of panicking after an earlier misuse\ncase: %v", trace)
					}
					trace = append(trace, fmt.Sprintf("Send=%v/%v", op.Res, op.Panic))
					if anyPanic {
						afterBad++
					}
					switch {
					case mustPanic && op.Panic == nil:
						sig := "C08/misuse-unnoticed"
						if inRange(count) {
							sig = stickyBy
						}
						vkit.Fail(t, sig, "Send returned %v although an earlier misuse must make every later call panic (mathematical count %d)\ncase: %v", op.Res, count, trace)
					case !mustPanic && (op.Panic != nil || op.Res.(int) != 0):
						vkit.Fail(t, "C08/send-empty", "Send on an empty caster: %v / panic %v\ncase: %v", op.Res, op.Panic, trace)
					}
					continue
				}
				var d int
				switch rapid.IntRange(0, 4).Draw(t, "deltaKind") {
				case 0, 1:
					d = rapid.SampledFrom(special).Draw(t, "delta")
				case 2:
					// anywhere in the int range, with a small low half now and then
					d = rapid.Int().Draw(t, "delta")
					if rapid.Bool().Draw(t, "smallLow") {
						d = (d &^ 0xffffffff) | rapid.IntRange(0, 5).Draw(t, "low")
					}
				default:
					d = rapid.IntRange(-3, 3).Draw(t, "delta")
				}
				res, pv := vkit.Call(func() any { return x.Add(d) })
				trace = append(trace, fmt.Sprintf("Add(%d)=%v/%v", d, res, pv))
				if anyPanic {
					afterBad++
				}
				deltaOOB := d > math.MaxInt32 || d < -math.MaxInt32
				before := count
				after := count
				if !deltaOOB {
					after = count + int64(d)
				}
				mustPanic := stickyBy != "" || deltaOOB || !inRange(before) || !inRange(after)
				if mustPanic && pv == nil {
					sig := "C08/misuse-unnoticed"
					if stickyBy != "" && !deltaOOB && inRange(before) && inRange(after) {
						sig = stickyBy // only the earlier misuse demands this panic
					}
					vkit.Fail(t, sig, "Add(%d) returned %v (mathematical count %d -> %d): out-of-range or unbalanced Adds must be reported by a panic, and every later call must panic too\ncase: %v", d, res, before, after, trace)
				}
				if !mustPanic {
					if pv != nil {
						vkit.Fail(t, "C08/add-panic", "Add(%d) with count %d panicked (%v) although the result %d is in range and nothing was misused before\ncase: %v", d, before, pv, after, trace)
					}
					if int64(res.(int)) != after {
						vkit.Fail(t, "C08/add-count", "Add(%d) returned %v, expected %d\ncase: %v", d, res, after, trace)
					}
				}
				if pv != nil {
					anyPanic = true
				}
				count = after
				// which misuse (if any) makes the rest of the history sticky
				if stickyBy == "" {
					switch {
					case deltaOOB && !known1:
						stickyBy = sigF1
					case deltaOOB:
						st.Exclude("known:delta-out-of-bounds (stickiness not enforced after it)")
					case (!inRange(before) || !inRange(after)) && !known2:
						stickyBy = sigF2
					case !inRange(before) && inRange(after):
						st.Exclude("known:after-compensating-add (stickiness not enforced after it)")
					}
				}
			}
			st.Case(trace, anyPanic && afterBad >= 2, map[bool]string{true: "misuse", false: "clean"}[anyPanic])
		})
	})
}

// ---------------------------------------------------------------------------------------------
// buffered channels (where the contract allows: capacity >= registered receivers, so Send cannot block):
// sequential rounds of register / deregister-before-send / racing Sends / receive. Every registration left
// when the Sends start is good for exactly one value of exactly one Send; the returns of the racing Sends add
// up to the number of registrations; after the Sends the count is zero and the channel holds exactly the
// undelivered copies.

func TestC08CasterBuffered(t *testing.T) {
	st := vkit.For("c08_caster_buffered")
	rapid.Check(t, func(t *rapid.T) {
		capacity := rapid.IntRange(1, 8).Draw(t, "cap")
		rounds := rapid.IntRange(1, 4).Draw(t, "rounds")
		// one case in sixteen: a very large audience (counts around and beyond 2^16, divisible by 8 or not); the
		// channel has a little room to spare so that a copy too many shows up as a copy, not as a blocked Send
		huge := 0
		if rapid.IntRange(0, 15).Draw(t, "hugeAudience") == 0 {
			huge = rapid.SampledFrom([]int{1000, 65535, 65536, 65537, 70001, 100003, 131073, 200000}).Draw(t, "audience")
			capacity, rounds = huge+16, 1
		}
		var trace []string
		trace = append(trace, fmt.Sprintf("cap=%d", capacity))
		vkit.CaseStart(func() string { return strings.Join(trace, " ; ") })
		// one case in four: a buffer SMALLER than the audience. The Send parks on the full buffer; receivers are then
		// deregistered in bulk (each deregistration absorbs one copy, waiting for it if need be) and the rest receive.
		if huge == 0 && rapid.IntRange(0, 3).Draw(t, "smallBuffer") == 0 {
			c08SmallBuffer(t, st)
			return
		}
		rapid.SyncTest(t, func(t *rapid.T) {
			ch := make(chan int, capacity)
			x := bigbuff.NewChanCaster(ch)
			tok := 0
			racing := false
			for r := 0; r < rounds; r++ {
				reg := rapid.IntRange(0, capacity).Draw(t, "register")
				if huge > 0 {
					reg = huge
				}
				count := 0
				for left := reg; left > 0; {
					d := rapid.IntRange(1, left).Draw(t, "delta")
					if got := x.Add(d); got != count+d {
						vkit.Fail(t, "C08/add-count", "Add(%d) returned %d, expected %d\ncase: %v", d, got, count+d, trace)
					}
					count += d
					left -= d
				}
				dereg := rapid.IntRange(0, min(count, 8)).Draw(t, "deregBefore")
				for i := 0; i < dereg; i++ {
					if got := x.Add(-1); got != count-1 {
						vkit.Fail(t, "C08/add-count", "Add(-1) returned %d, expected %d\ncase: %v", got, count-1, trace)
					}
					count--
				}
				nSenders := rapid.IntRange(1, 3).Draw(t, "senders")
				if nSenders > 1 {
					racing = true
				}
				trace = append(trace, fmt.Sprintf("round%d: registered=%d senders=%d", r, count, nSenders))
				type sres struct{ tok, n int }
				results := make(chan sres, nSenders)
				var ops []*vkit.Op
				for s := 0; s < nSenders; s++ {
					tok++
					v := tok
					ops = append(ops, vkit.Launch("Send", func() any { n := x.Send(v); results <- sres{v, n}; return n }))
				}
				synctest.Wait()
				sum := 0
				returned := map[int]int{}
				for _, op := range ops {
					if !op.Finished() {
						vkit.Fail(t, "C08/buffered-send-blocked", "Send blocked although the channel's capacity (%d) covers every registered receiver (%d)\ncase: %v", capacity, count, trace)
					}
					if op.Panic != nil {
						vkit.Fail(t, "C08/send-panic", "Send panicked: %v\ncase: %v", op.Panic, trace)
					}
				}
				for i := 0; i < nSenders; i++ {
					r := <-results
					returned[r.tok] = r.n
					sum += r.n
				}
				if sum != count {
					vkit.Fail(t, "C08/send-count", "racing Sends returned %v, together %d, but %d receivers were registered when they started\ncase: %v", returned, sum, count, trace)
				}
				if n := x.Add(0); n != 0 {
					vkit.Fail(t, "C08/count-after-send", "Add(0)=%d after the Sends returned\ncase: %v", n, trace)
				}
				if len(ch) != count {
					vkit.Fail(t, "C08/buffered-copies", "the channel holds %d copies, %d receivers were registered\ncase: %v", len(ch), count, trace)
				}
				got := map[int]int{}
				for i := 0; i < count; i++ {
					select {
					case v := <-ch:
						got[v]++
					default:
						vkit.Fail(t, "C08/buffered-copies", "copy %d of %d missing from the channel\ncase: %v", i+1, count, trace)
					}
				}
				for tk, n := range returned {
					if got[tk] != n {
						vkit.Fail(t, "C08/send-count", "Send(%d) returned %d but %d copies of it were delivered\ncase: %v", tk, n, got[tk], trace)
					}
				}
				for tk := range got {
					if _, ok := returned[tk]; !ok {
						vkit.Fail(t, "C08/invented", "value %d was delivered but not sent in this round\ncase: %v", tk, trace)
					}
				}
			}
			st.Case(trace, racing, fmt.Sprintf("cap:%d", capacity))
		})
	})
}

func c08SmallBuffer(t *rapid.T, st *vkit.Stats) {
	capacity := rapid.IntRange(1, 3).Draw(t, "smallCap")
	n := rapid.IntRange(capacity+1, capacity+6).Draw(t, "audience")
	// deregistrations after the Send has parked: sizes of the bulk Adds, together at most n
	var deregs []int
	left := n
	for left > 0 && rapid.IntRange(0, 2).Draw(t, "moreDereg") != 0 {
		d := rapid.IntRange(1, left).Draw(t, "dereg")
		deregs = append(deregs, d)
		left -= d
	}
	recvFirst := rapid.IntRange(0, left).Draw(t, "receiveBeforeDereg")
	if rapid.IntRange(0, 7).Draw(t, "hugeSmallBuffer") == 0 {
		// a very large audience on a tiny buffer, leaving in one to three bulk deregistrations in the middle of the Send
		// (all of it, or all but a few receivers)
		n = rapid.SampledFrom([]int{16384, 16385, 20000, 32769, 40000, 70000}).Draw(t, "hugeAudience")
		stay := rapid.SampledFrom([]int{0, 0, 1, 5}).Draw(t, "stay")
		leave := n - stay
		deregs = nil
		for parts := rapid.IntRange(1, 3).Draw(t, "parts"); parts > 1 && leave > 1; parts-- {
			d := rapid.IntRange(1, leave-1).Draw(t, "hugeDereg")
			deregs = append(deregs, d)
			leave -= d
		}
		deregs = append(deregs, leave)
		left, recvFirst = stay, 0
	}
	trace := []string{fmt.Sprintf("small buffer: cap=%d audience=%d receiveFirst=%d deregs=%v", capacity, n, recvFirst, deregs)}
	vkit.CaseStart(func() string { return trace[0] })
	rapid.SyncTest(t, func(t *rapid.T) {
		ch := make(chan int, capacity)
		x := bigbuff.NewChanCaster(ch)
		if got := x.Add(n); got != n {
			vkit.Fail(t, "C08/add-count", "Add(%d) returned %d\ncase: %v", n, got, trace)
		}
		send := vkit.Launch("Send", func() any { return x.Send(42) })
		synctest.Wait()
		if send.Finished() {
			vkit.Fail(t, "C08/send-early", "Send returned %v / panic %v with %d receivers registered and room for %d copies only\ncase: %v", send.Res, send.Panic, n, capacity, trace)
		}
		received := 0
		take := func(k int, when string) {
			for i := 0; i < k; i++ {
				synctest.Wait()
				select {
				case v := <-ch:
					if v != 42 {
						vkit.Fail(t, "C08/wrong-value", "a receiver got %d\ncase: %v", v, trace)
					}
					received++
				default:
					vkit.Fail(t, "C08/receiver-starved", "%s: no copy available for receiver %d of %d although the Send is in flight and owes it one\ncase: %v", when, received+1, left, trace)
				}
			}
		}
		take(recvFirst, "before the deregistrations")
		absorbed := 0
		for _, d := range deregs {
			if received+absorbed >= n-capacity {
				// the Send has queued its last copy and returned: the receivers that are left have their copy waiting
				// in the buffer and must take it (deregistering now would be an unbalanced Add)
				left += d
				continue
			}
			op := vkit.Launch("Add(-)", func() any { return x.Add(-d) })
			synctest.Wait()
			if !op.Finished() {
				vkit.Fail(t, "C08/dereg-hang", "Add(%d) during the Send is still blocked at quiescence (it absorbs %d copies the Send is ready to hand over)\ncase: %v", -d, d, trace)
			}
			if op.Panic != nil {
				vkit.Fail(t, "C08/add-panic", "Add(%d) during the Send panicked: %v\ncase: %v", -d, op.Panic, trace)
			}
			absorbed += d
			if want := n - absorbed; op.Res.(int) != want {
				vkit.Fail(t, "C08/add-count", "Add(%d) during the Send returned %v, expected %d\ncase: %v", -d, op.Res, want, trace)
			}
		}
		take(n-absorbed-received, "after the deregistrations")
		synctest.Wait()
		if !send.Finished() {
			vkit.Fail(t, "C08/send-hang", "Send still blocked although %d receivers received and %d were deregistered (registered at its start: %d)\ncase: %v", received, absorbed, n, trace)
		}
		if send.Panic != nil {
			vkit.Fail(t, "C08/send-panic", "Send panicked: %v\ncase: %v", send.Panic, trace)
		}
		if send.Res.(int) != received || received+absorbed != n {
			vkit.Fail(t, "C08/send-count", "Send returned %v; %d receivers received, %d deregistered, %d were registered when it started\ncase: %v", send.Res, received, absorbed, n, trace)
		}
		if len(ch) != 0 {
			vkit.Fail(t, "C08/buffered-copies", "%d stale copies are left in the channel after the Send returned\ncase: %v", len(ch), trace)
		}
		if c := x.Add(0); c != 0 {
			vkit.Fail(t, "C08/count-after-send", "Add(0)=%d after the Send returned\ncase: %v", c, trace)
		}
	})
	st.Case(trace, len(deregs) > 0, "small-buffer")
}
