//go:build go1.25

package props

// bufstep — model-based stateful testing of bigbuff.Buffer and its consumers inside a
// testing/synctest bubble (virtual time, exact quiescence). Serves C01, C02, C03, C04,
// C05 and C12; every assertion carries the id(s) of the property it belongs to.
//
// The model is written from the documentation / property statements:
//   G          all values successfully put, in order (unique int tokens)
//   base       number of values evicted so far (observed through Size, then validated)
//   consumer   start (base at creation), committed (absolute index), delta (uncommitted reads)

import (
	"context"
	"fmt"
	"os"
	"runtime"
	"sort"
	"strings"
	"sync"
	"testing"
	"testing/synctest"
	"time"

	bigbuff "github.com/joeycumines/go-bigbuff"
	"pgregory.net/rapid"

	"verif/harness/vkit"
)

type bsCons struct {
	id        int
	c         bigbuff.Consumer
	start     int
	committed int
	delta     int
	getEither bool // the pending Get may legitimately return its (self-cancelled) context's error instead of the value
	open      bool
	// pending get
	getOp     *vkit.Op
	getCancel context.CancelFunc // nil when the get's ctx cannot be cancelled
	getCtxErr bool               // the get's ctx has been cancelled by the driver
	// first-time read stream (C01): absolute indexes handed out for the first time
	highRead int // highest absolute index + 1 ever read (first-time frontier)
	// the last Get on this consumer failed: C05 says it consumed nothing, so what follows must behave as if
	// it had never been issued (divergences right after it are attributed to C05 as well)
	afterFailedGet bool
	// the last state-changing call on this consumer was a successful Commit: it must have made exactly the reads
	// made so far permanent (divergences of the very next read are attributed to C02 as well)
	afterCommit bool
}

func (c *bsCons) pos() int   { return c.committed + c.delta }
func (c *bsCons) busy() bool { return c.getOp != nil }

type bsLogEntry struct {
	size    int
	offsets []int
	ret     int
}

type bsAbort struct{}

type bsMachine struct {
	prof      string // focus property ("" = every assertion active)
	t         *rapid.T
	st        *vkit.Stats
	b         *bigbuff.Buffer
	G         []int
	base      int
	closed    bool
	cons      []*bsCons
	next      int
	cooldown  time.Duration
	cleaner   string // "unset" | "default" | "fixed" | "never" | "script"
	fixMax    int
	fixTgt    int
	script    []int
	scriptAt  int
	logOn     bool
	logMu     sync.Mutex
	log       []bsLogEntry
	logSeen   int
	fixedCB   int          // FixedBufferCleaner callback invocations
	fixedBad  string       // mismatch seen in a FixedBufferCleaner notification
	allowed   map[int]bool // bases reachable through intermediate states of a compound step (no-log mode)
	cdHold    time.Time    // a cooldown window of a previous configuration may still be pending until then
	cdChanged bool
	cfgDirty  bool // the cleaner was replaced and no state change (hence no cleaner pass) has happened since
	winChg    bool // a change landed strictly inside a cooldown window (not yet followed by an eviction)
	lastChg   time.Time
	simple    bool // the step consisted of exactly one state-changing library call
	trace     []string

	// classification
	nEvictOpen     int  // evictions that happened while a consumer was open
	maxAlive       int  // max consumers alive at once
	bigBatch       bool // a batch of size >= 2 was put
	rbMulti        bool // rollback of >= 2 uncommitted values
	rbReread       bool // ... followed by a re-read
	lastRbCons     int
	rangeFail      bool // a Range ended by panic / error
	evictWhileUnc  bool // eviction while a consumer held uncommitted reads
	laggingSeen    bool
	inWindowChange bool // a state change landed strictly inside a cooldown window and something was freed later
	closeUnpin     bool // closing the slowest consumer freed values
	wokeBlockedGet bool // a waking event was issued while a Get was observed blocked
	closeInFlight  bool // a Close launched while another op on the handle was in flight / uncommitted reads existed
	closeOrder     []int
	getErrNoAdv    bool
}

func (m *bsMachine) tr(format string, args ...any) {
	m.trace = append(m.trace, fmt.Sprintf(format, args...))
}

// on reports whether assertions belonging to any of the given properties are active in this run.
func (m *bsMachine) on(props ...string) bool {
	if m.prof == "" {
		return true
	}
	for _, p := range props {
		if p == m.prof {
			return true
		}
	}
	return false
}

func (m *bsMachine) fail(sig string, format string, args ...any) {
	m.t.Helper()
	if tags := strings.Split(sig[:strings.Index(sig, "/")], "+"); !m.on(tags...) {
		// a divergence that belongs to another property: this check neither reports it nor trusts the
		// model afterwards; the case is abandoned quietly
		vkit.Other(m.st, sig)
		m.emergencyCleanup()
		panic(bsAbort{})
	}
	msg := fmt.Sprintf("%s\ntrace: %s", fmt.Sprintf(format, args...), strings.Join(m.trace, " ; "))
	vkit.Announce(sig, "%s", msg)
	m.emergencyCleanup()
	m.t.Fatalf("[%s] %s", sig, msg)
}

// emergencyCleanup releases, as far as the (possibly broken) library allows, everything a failing case
// still holds, so that the bubble can end and rapid can shrink; goroutines parked on a mutex are not
// durably blocked, so without this a failing case could wedge its bubble.
func (m *bsMachine) emergencyCleanup() {
	for _, c := range m.cons {
		if c.getCancel != nil {
			c.getCancel()
		}
		cc := c.c
		go func() { _ = cc.Rollback() }()
	}
	b := m.b
	go func() { _ = b.Close() }()
	for i := 0; i < 5; i++ {
		bsSpin()
		for _, c := range m.cons {
			cc := c.c
			go func() { _ = cc.Rollback() }()
		}
	}
}

func (m *bsMachine) nextTokens(k int) []int {
	out := make([]int, k)
	for i := range out {
		m.next++
		out[i] = m.next
	}
	return out
}

// ---- cleaner specifications (independent of the implementation)

func bsSpecDefault(size int, offsets []int) int {
	best := -1
	for _, o := range offsets {
		if o < 0 {
			continue
		}
		if best < 0 || o < best {
			best = o
		}
	}
	if best < 0 {
		return 0
	}
	if best > size {
		best = size
	}
	return best
}

func (m *bsMachine) relOffsets(base int) []int {
	var out []int
	for _, c := range m.cons {
		if c.open {
			out = append(out, c.committed-base)
		}
	}
	sort.Ints(out)
	return out
}

// defaultTarget is the base the default cleaner converges to from `base`.
func (m *bsMachine) defaultTarget(base int) int {
	return base + bsSpecDefault(len(m.G)-base, m.relOffsets(base))
}

func (m *bsMachine) makeCleaner() bigbuff.Cleaner {
	var inner bigbuff.Cleaner
	switch m.cleaner {
	case "default":
		inner = bigbuff.DefaultCleaner
	case "fixed":
		inner = bigbuff.FixedBufferCleaner(m.fixMax, m.fixTgt, func(n bigbuff.FixedBufferCleanerNotification) {
			m.fixedCB++
			if n.Max != m.fixMax || n.Target != m.fixTgt || n.Trim != n.Size-n.Target || n.Size <= n.Max {
				m.fixedBad = fmt.Sprintf("%+v", n)
			}
		})
	case "never":
		inner = func(int, []int) int { return 0 }
	case "script":
		inner = func(int, []int) int {
			v := m.script[m.scriptAt%len(m.script)]
			m.scriptAt++
			return v
		}
	}
	return func(size int, offsets []int) int {
		ret := inner(size, offsets)
		cp := append([]int(nil), offsets...)
		sort.Ints(cp)
		m.logMu.Lock()
		m.log = append(m.log, bsLogEntry{size: size, offsets: cp, ret: ret})
		m.logMu.Unlock()
		return ret
	}
}

// ---- settle + invariants

func (m *bsMachine) settle() {
	synctest.Wait()
	m.check()
}

func (m *bsMachine) check() {
	// what the buffer holds now (validated in checkObservers); needed first because an eviction in
	// this step may race with a blocked Get that the same step woke
	nb := len(m.G) - m.b.Size()
	// pending gets: enabledness
	for _, c := range m.cons {
		if c.getOp == nil {
			continue
		}
		should, wantVal, wantErr := m.getOutcome(c, c.getCtxErr)
		if !should && c.pos() < nb {
			should, wantErr = true, true // became lagging in this step
		}
		if !should {
			if c.getOp.Finished() {
				if c.getOp.Panic != nil {
					m.fail("C01+C02+C03+C05+C12/get-panic", "Get(c%d) panicked: %v", c.id, c.getOp.Panic)
				}
				r := c.getOp.Res.(bsGetRes)
				if r.err == nil {
					m.fail("C01/get-invented", "Get(c%d) returned %v although no value is available at position %d (|G|=%d)", c.id, r.v, c.pos(), len(m.G))
				}
				m.fail("C03+C05/get-spurious-error", "Get(c%d) returned error %v although nothing is available, its ctx is live and the buffer is open", c.id, r.err)
			}
			continue
		}
		if !c.getOp.Finished() {
			sig := "C05/get-lost-wakeup"
			if c.pos() < nb {
				sig = "C05+C03/get-lost-wakeup" // a consumer that was overtaken while it waited must fail loudly, not wait on
			}
			m.fail(sig, "Get(c%d) still blocked at quiescence although it must return (value available=%v ctxCancelled=%v closed=%v lagging=%v)",
				c.id, c.pos() < len(m.G), c.getCtxErr, m.closed, c.pos() < nb)
		}
		if !wantErr && c.pos() < nb {
			// the value became available and was evicted by a forcing cleaner within the same step:
			// the woken Get may have read it first or may find it gone; both are correct
			if r, ok := c.getOp.Res.(bsGetRes); ok && r.err != nil {
				wantErr = true
			}
		}
		m.finishGet(c, wantVal, wantErr)
	}
	m.checkObservers()
}

type bsGetRes struct {
	v   any
	err error
}

// getOutcome: must a Get on c (issued/pending now) have completed, and with what.
func (m *bsMachine) getOutcome(c *bsCons, ctxCancelled bool) (complete bool, val int, wantErr bool) {
	switch {
	case ctxCancelled, m.closed, !c.open:
		return true, 0, true
	case c.pos() < m.base:
		return true, 0, true
	case c.pos() < len(m.G):
		return true, m.G[c.pos()], false
	}
	return false, 0, false
}

func (m *bsMachine) finishGet(c *bsCons, wantVal int, wantErr bool) {
	op := c.getOp
	c.getOp = nil
	if c.getEither {
		// the context was cancelled while the call was under way and a value was there: the value, or the context's
		// error with nothing consumed, are both what the property allows (the reads that follow tell which it was)
		c.getEither = false
		if r, ok := op.Res.(bsGetRes); ok && op.Panic == nil && r.err != nil {
			wantErr = true
		}
	}
	if c.getCancel != nil {
		c.getCancel()
		c.getCancel = nil
	}
	c.getCtxErr = false
	if op.Panic != nil {
		m.fail("C01+C02+C03+C05+C12/get-panic", "Get(c%d) panicked: %v", c.id, op.Panic)
	}
	r := op.Res.(bsGetRes)
	if wantErr {
		if r.err == nil {
			if c.pos() < m.base && c.afterCommit {
				m.fail("C02+C01+C03/value-after-commit", "Get(c%d) right after a Commit returned %v although the consumer's next value (index %d) was evicted (base %d): Commit must add exactly the reads made, the Get must fail", c.id, r.v, c.pos(), m.base)
			}
			if c.pos() < m.base {
				m.fail("C01+C03/lagging-got-value", "Get(c%d) returned %v although its next value (index %d) was evicted (base %d): must fail loudly", c.id, r.v, c.pos(), m.base)
			}
			m.fail("C05+C12/get-value-after-cancel-or-close", "Get(c%d) returned %v, expected an error (closed=%v open=%v)", c.id, r.v, m.closed, c.open)
		}
		m.getErrNoAdv = true
		c.afterFailedGet = true
		m.tr("get(c%d)=err", c.id)
		return
	}
	if r.err != nil {
		m.fail("C01+C03/get-error", "Get(c%d) failed with %v although value %d at index %d is retained (base %d, |G| %d)", c.id, r.err, wantVal, c.pos(), m.base, len(m.G))
	}
	if r.v != bsPayload(wantVal) {
		if c.afterCommit {
			m.fail("C02+C01+C03/value-after-commit", "Get(c%d) right after a Commit returned %v, expected %d (index %d): Commit must make exactly the reads made so far permanent", c.id, r.v, wantVal, c.pos())
		}
		if c.afterFailedGet {
			m.fail("C05+C01/value-after-failed-get", "Get(c%d) returned %v, expected %d: the previous Get on this consumer failed and must not have consumed anything", c.id, r.v, wantVal)
		}
		if c.pos() < c.highRead {
			m.fail("C02/replay-value", "Get(c%d) after rollback returned %v, expected the previously read %d (index %d)", c.id, r.v, wantVal, c.pos())
		}
		m.fail("C01+C03/get-value", "Get(c%d) returned %v, expected %d (index %d: the next value of the put order)", c.id, r.v, wantVal, c.pos())
	}
	if c.pos() < c.highRead {
		if m.lastRbCons == c.id && m.rbMulti {
			m.rbReread = true
		}
	} else {
		c.highRead = c.pos() + 1
	}
	c.delta++
	c.afterFailedGet = false
	c.afterCommit = false
	m.tr("get(c%d)=%d", c.id, wantVal)
}

func (m *bsMachine) checkObservers() {
	size := m.b.Size()
	sl := m.b.Slice()
	if len(sl) != size {
		m.fail("C03/size-vs-slice", "Size()=%d but len(Slice())=%d at quiescence", size, len(sl))
	}
	nb := len(m.G) - size
	if nb < 0 || nb > len(m.G) {
		m.fail("C03/size-range", "Size()=%d with only %d values ever put", size, len(m.G))
	}
	for i, v := range sl {
		if !m.on("C01", "C03", "C12") {
			break
		}
		if v != bsPayload(m.G[nb+i]) {
			m.fail("C01+C03+C12/slice-content", "Slice()[%d]=%v, expected %d: Slice must equal the not-yet-evicted suffix of the put order", i, v, m.G[nb+i])
		}
	}
	if nb < m.base && m.on("C03") {
		m.fail("C03/base-regressed", "evicted values reappeared: base %d -> %d", m.base, nb)
	}
	// cleaner log replay
	if !m.on("C03") {
		m.logMu.Lock()
		m.logSeen = len(m.log)
		m.logMu.Unlock()
	} else if m.logOn {
		m.logMu.Lock()
		entries := append([]bsLogEntry(nil), m.log[m.logSeen:]...)
		m.logSeen = len(m.log)
		m.logMu.Unlock()
		pred := m.base
		for _, e := range entries {
			if m.simple {
				if e.size != len(m.G)-pred {
					m.fail("C03/cleaner-size-arg", "cleaner called with size %d, buffer holds %d", e.size, len(m.G)-pred)
				}
				want := m.relOffsets(pred)
				if fmt.Sprint(want) != fmt.Sprint(e.offsets) && !(len(want) == 0 && len(e.offsets) == 0) {
					m.fail("C03/cleaner-offsets-arg", "cleaner called with offsets %v, open consumers are at relative committed offsets %v", e.offsets, want)
				}
			}
			sh := e.ret
			if sh > e.size {
				sh = e.size
			}
			if sh > 0 {
				pred += sh
			}
		}
		if nb != pred {
			m.fail("C03/shift-applied", "cleaner returned shifts leading to base %d, observed base %d (Size=%d)", pred, nb, size)
		}
	} else if m.on("C03") && nb != m.base && nb != m.defaultTarget(m.base) && !m.allowed[nb] {
		m.fail("C03/evicted-unexpected", "base moved %d -> %d, default cleaner allows only %d", m.base, nb, m.defaultTarget(m.base))
	}
	// retention (default-style cleaners): nothing an open consumer has not committed past is evicted
	if nb > m.base {
		anyOpen := false
		for _, c := range m.cons {
			if c.open {
				anyOpen = true
				if c.delta > 0 {
					m.evictWhileUnc = true
				}
			}
		}
		if anyOpen {
			m.nEvictOpen++
		}
		if m.on("C03") && (m.cleaner == "unset" || m.cleaner == "default" || (m.cleaner == "fixed" && len(m.G)-m.base <= m.fixMax)) {
			if !anyOpen && m.simple {
				m.fail("C03/evicted-without-consumer", "base moved %d -> %d although no consumer exists", m.base, nb)
			}
			for _, c := range m.cons {
				if c.open && c.committed >= m.base && nb > c.committed {
					m.fail("C03/evicted-unread", "value at index %d evicted (base %d -> %d) although open consumer c%d has only committed up to %d", c.committed, m.base, nb, c.id, c.committed)
				}
			}
		}
	}
	oldBase := m.base
	m.base = nb
	m.allowed = nil
	// reclamation (C04): cooldown elapsed since the last change => fully consumed prefix is gone
	if !m.closed && !m.cfgDirty && m.on("C04") {
		elapsed := time.Since(m.lastChg)
		if (m.cooldown == 0 || elapsed >= m.cooldown+time.Microsecond) && !time.Now().Before(m.cdHold) {
			switch m.cleaner {
			case "unset", "default":
				if tgt := m.defaultTarget(m.base); tgt != m.base {
					m.fail("C04/prefix-not-freed", "%v after the last change (cooldown %v) %d fully consumed values are still buffered (base %d, every open consumer committed past %d)", elapsed, m.cooldown, tgt-m.base, m.base, tgt)
				}
			case "fixed":
				if m.fixTgt <= m.fixMax && size > m.fixMax {
					m.fail("C04/fixed-over-max", "quiescent buffer holds %d > max %d (target %d)", size, m.fixMax, m.fixTgt)
				}
			}
		}
	}
	if nb > oldBase && m.winChg {
		m.inWindowChange = true
		m.winChg = false
	}
	if m.fixedBad != "" {
		m.fail("C03/fixed-callback", "FixedBufferCleaner(%d,%d) notification inconsistent: %s", m.fixMax, m.fixTgt, m.fixedBad)
	}
	// Diff
	for _, c := range m.cons {
		if c.busy() {
			continue
		}
		if !m.on("C03", "C12", "C05") {
			break
		}
		d, ok := m.b.Diff(c.c)
		if ok != c.open && m.on("C03", "C12") {
			m.fail("C03+C12/diff-registered", "Diff(c%d) ok=%v, consumer open=%v", c.id, ok, c.open)
		}
		if c.open && m.on("C03", "C05") {
			if want := len(m.G) - c.pos(); d != want && c.afterFailedGet && m.on("C05") {
				m.fail("C05+C03/diff-after-failed-get", "Diff(c%d)=%d, expected %d: the failed Get must not have advanced the consumer", c.id, d, want)
			}
			if want := len(m.G) - c.pos(); d != want && m.on("C03") {
				m.fail("C03/diff-value", "Diff(c%d)=%d, expected %d (= %d put - read position %d)", c.id, d, want, len(m.G), c.pos())
			}
			if (d > size) != (c.pos() < m.base) && m.on("C03") {
				m.fail("C03/diff-vs-size", "Diff(c%d)=%d Size=%d but lagging=%v", c.id, d, size, c.pos() < m.base)
			}
			if c.pos() < m.base {
				m.laggingSeen = true
			}
		}
	}
	alive := 0
	for _, c := range m.cons {
		if c.open {
			alive++
		}
	}
	if alive > m.maxAlive {
		m.maxAlive = alive
	}
}

func (m *bsMachine) changed() {
	// a state change: if it lands strictly inside a cooldown window, remember it (C04 non-trivial rule)
	if m.cooldown > 0 {
		if e := time.Since(m.lastChg); e > 0 && e < m.cooldown {
			m.winChg = true
		}
	}
	m.lastChg = time.Now()
	m.cfgDirty = false
}

// noteIntermediate records the base the default cleaner may reach from an intermediate model state
// of a compound step (several library calls before the next quiescent observation).
func (m *bsMachine) noteIntermediate() {
	if m.allowed == nil {
		m.allowed = map[int]bool{}
	}
	m.allowed[m.defaultTarget(m.base)] = true
	for b := range m.allowed {
		m.allowed[m.defaultTarget(b)] = true
	}
}

// ---- rules

func (m *bsMachine) pickCons(label string, pred func(*bsCons) bool) *bsCons {
	var cand []*bsCons
	for _, c := range m.cons {
		if pred(c) {
			cand = append(cand, c)
		}
	}
	if len(cand) == 0 {
		return nil
	}
	return cand[rapid.IntRange(0, len(cand)-1).Draw(m.t, label)]
}

func (m *bsMachine) rulePut(t *rapid.T) {
	k := rapid.IntRange(0, 4).Draw(t, "k")
	if rapid.IntRange(0, 39).Draw(t, "largeBatch") == 0 {
		k = rapid.SampledFrom([]int{16, 63, 64, 65, 100, 300}).Draw(t, "largeK") // batch sizes are not limited by the library
	}
	ctxKind := rapid.SampledFrom([]string{"nil", "bg", "bg", "cancelled"}).Draw(t, "putCtx")
	var ctx context.Context
	switch ctxKind {
	case "bg":
		ctx = context.Background()
	case "cancelled":
		c, cancel := context.WithCancel(context.Background())
		cancel()
		ctx = c
	}
	vals := m.nextTokens(k)
	args := make([]any, k)
	for i, v := range vals {
		args[i] = bsPayload(v)
	}
	for _, c := range m.cons {
		if c.getOp != nil {
			if done, _, _ := m.getOutcome(c, c.getCtxErr); !done && k > 0 && ctxKind != "cancelled" && !m.closed {
				m.wokeBlockedGet = true
			}
		}
	}
	err := m.b.Put(ctx, args...)
	for i := range args {
		args[i] = -7 // the argument slice belongs to the caller again once Put has returned
	}
	wantErr := ctxKind == "cancelled" || m.closed
	if wantErr != (err != nil) {
		if err != nil {
			m.fail("C01/put-error", "Put(%s, %v) failed: %v", ctxKind, vals, err)
		}
		m.fail("C12+C01/put-accepted", "Put(%s) returned nil although closed=%v ctx=%s", ctxKind, m.closed, ctxKind)
	}
	if err == nil {
		m.G = append(m.G, vals...)
		if k >= 2 {
			m.bigBatch = true
		}
		m.changed()
		if len(vals) > 6 {
			m.tr("put(%d..%d)", vals[0], vals[len(vals)-1])
		} else {
			m.tr("put(%v)", vals)
		}
	} else {
		m.next -= k
		m.tr("put(%s)=err", ctxKind)
	}
	m.simple = true
	m.settle()
}

func (m *bsMachine) ruleNewConsumer(t *rapid.T) {
	n := 0
	for _, c := range m.cons {
		if c.open {
			n++
		}
	}
	if n >= 4 || len(m.cons) >= 7 {
		t.Skip("enough consumers")
	}
	c, err := m.b.NewConsumer()
	if m.closed {
		if err == nil {
			m.fail("C12/newconsumer-after-close", "NewConsumer succeeded on a closed buffer")
		}
		m.tr("newConsumer=err")
		m.simple = true
		m.settle()
		return
	}
	if err != nil {
		m.fail("C01/newconsumer-error", "NewConsumer failed: %v", err)
	}
	mc := &bsCons{id: len(m.cons), c: c, start: m.base, committed: m.base, open: true, highRead: m.base}
	m.cons = append(m.cons, mc)
	m.changed()
	m.tr("c%d=newConsumer@%d", mc.id, m.base)
	m.simple = true
	m.settle()
}

func (m *bsMachine) ruleGet(t *rapid.T) {
	c := m.pickCons("getCons", func(c *bsCons) bool { return !c.busy() })
	if c == nil {
		t.Skip("no consumer")
	}
	kind := rapid.SampledFrom([]string{"nil", "bg", "cancellable", "cancellable", "cancelled", "selfcancel"}).Draw(t, "getCtx")
	var ctx context.Context
	var cancel context.CancelFunc
	switch kind {
	case "selfcancel":
		// cancelled the moment after Get's entry check found it live: a value that is there is returned, a Get that
		// would have to wait returns the context's error at once
		inner, cn := context.WithCancel(context.Background())
		w := &csSelfCancelCtx{Context: inner, cancel: cn}
		w.armed.Store(true)
		ctx, cancel = w, cn
	case "bg":
		ctx = context.Background()
	case "cancellable":
		ctx, cancel = context.WithCancel(context.Background())
	case "cancelled":
		var cn context.CancelFunc
		ctx, cn = context.WithCancel(context.Background())
		cn()
	}
	cc := c.c
	c.getOp = vkit.Launch("get", func() any {
		v, err := cc.Get(ctx)
		return bsGetRes{v, err}
	})
	c.getCancel = cancel
	c.getCtxErr = kind == "cancelled"
	if kind == "selfcancel" {
		if avail, _, wantErr := m.getOutcome(c, false); !avail {
			c.getCtxErr = true
		} else if !wantErr {
			c.getEither = true
		}
	}
	if done, _, _ := m.getOutcome(c, c.getCtxErr); !done {
		m.tr("get(c%d,%s)...", c.id, kind)
	}
	m.simple = true
	m.settle()
}

func (m *bsMachine) ruleCancelGet(t *rapid.T) {
	c := m.pickCons("cancelCons", func(c *bsCons) bool { return c.getOp != nil && c.getCancel != nil && !c.getCtxErr })
	if c == nil {
		t.Skip("no cancellable pending get")
	}
	m.wokeBlockedGet = true
	c.getCtxErr = true
	c.getCancel()
	m.tr("cancelGet(c%d)", c.id)
	m.simple = true
	m.settle()
}

// ruleCancelRetry: a Get blocks at the end of the buffer, its context is cancelled, and the same goroutine retries at
// once with a live context (no quiescent point, not even a goroutine switch, in between); then a value is put. The
// first Get returns its context's error and consumes nothing, the retry is a Get like any other: it returns the value.
func (m *bsMachine) ruleCancelRetry(t *rapid.T) {
	c := m.pickCons("retryCons", func(c *bsCons) bool {
		return !c.busy() && c.open && c.pos() >= len(m.G) && c.pos() >= m.base
	})
	if c == nil || m.closed || m.cleaner == "fixed" || m.cleaner == "script" {
		t.Skip("no idle consumer at the end of the buffer")
	}
	for _, o := range m.cons {
		if o.getOp != nil {
			t.Skip("a get is pending")
		}
	}
	cc := c.c
	ctx1, cancel1 := context.WithCancel(context.Background())
	ctx2, cancel2 := context.WithCancel(context.Background())
	defer cancel2()
	type both struct{ first, second bsGetRes }
	op := vkit.Launch("get+retry", func() any {
		v1, e1 := cc.Get(ctx1)
		v2, e2 := cc.Get(ctx2)
		return both{bsGetRes{v1, e1}, bsGetRes{v2, e2}}
	})
	synctest.Wait() // the first Get is parked
	if op.Finished() {
		m.fail("C01/get-invented", "two Gets in a row on c%d returned %v although nothing is available", c.id, op.Res)
	}
	cancel1()
	yields := rapid.SampledFrom([]int{0, 5, 50, 300}).Draw(t, "retryYields")
	for i := 0; i < yields; i++ {
		runtime.Gosched()
	}
	k := rapid.IntRange(1, 2).Draw(t, "retryPutK")
	vals := m.nextTokens(k)
	args := make([]any, k)
	for i, v := range vals {
		args[i] = bsPayload(v)
	}
	if err := m.b.Put(context.Background(), args...); err != nil {
		m.fail("C01/put-error", "Put failed: %v", err)
	}
	m.G = append(m.G, vals...)
	m.changed()
	m.wokeBlockedGet = true
	m.tr("cancelRetry(c%d,put%v)", c.id, vals)
	synctest.Wait()
	pendingRetry := false
	if !op.Finished() {
		// legitimate only if the Put overtook the cancellation (the first Get took the value) and nothing is left
		// for the retry: end the retry and look
		pendingRetry = true
		cancel2()
		synctest.Wait()
		if !op.Finished() {
			m.fail("C05/get-lost-wakeup", "Get(c%d), retried after its first attempt was cancelled, is still blocked at quiescence although its own context was cancelled too", c.id)
		}
	}
	if op.Panic != nil {
		m.fail("C01+C02+C03+C05+C12/get-panic", "Get(c%d) panicked: %v", c.id, op.Panic)
	}
	r := op.Res.(both)
	want := bsPayload(m.G[c.pos()])
	switch {
	case r.first.err == nil:
		if r.first.v != want {
			m.fail("C01+C03/get-value", "Get(c%d) returned %v, expected %v", c.id, r.first.v, want)
		}
		c.delta++ // the Put overtook the cancellation
		switch {
		case k >= 2 && !pendingRetry && r.second.err == nil && r.second.v == bsPayload(m.G[c.pos()]):
			c.delta++
			m.tr("=both")
		case k == 1 && pendingRetry && r.second.err != nil:
			m.tr("=first only")
		case pendingRetry:
			m.fail("C05/get-lost-wakeup", "the retried Get(c%d) stayed blocked although %d values were put and only one was taken", c.id, k)
		default:
			m.fail("C03+C05/get-spurious-error", "the first Get(c%d) took the value; the retry (live context, %d value(s) put) returned (%v,%v)", c.id, k, r.second.v, r.second.err)
		}
	case pendingRetry:
		m.fail("C05/get-lost-wakeup", "Get(c%d) was cancelled (%v) and retried at once with a live context; the retry stayed blocked at quiescence although a value was put", c.id, r.first.err)
	case r.second.err != nil:
		m.fail("C03+C05/get-spurious-error", "Get(c%d) was cancelled (%v) and retried at once with a live context; the retry returned the error %v although a value was put and nothing is closed", c.id, r.first.err, r.second.err)
	case r.second.v != want:
		m.fail("C05+C01/value-after-failed-get", "Get(c%d) was cancelled and retried: the retry returned %v, the value put is %v (a failed Get consumes nothing)", c.id, r.second.v, want)
	default:
		c.delta++
		m.tr("=retry got it")
	}
	m.simple = false // a compound step: the cleaner may have looked at the state before the Put
	m.settle()
}

// ruleRaceWake makes a value available AND cancels the blocked Get's context within one step (no quiescent
// point in between, drawn order). Either outcome is allowed — the value, or the context's error — but a Get that
// fails must not have consumed anything: the model adopts what was observed and the following reads verify it.
func (m *bsMachine) ruleRaceWake(t *rapid.T) {
	c := m.pickCons("raceCons", func(c *bsCons) bool {
		return c.getOp != nil && c.getCancel != nil && !c.getCtxErr && c.open && c.pos() >= len(m.G) && c.pos() >= m.base
	})
	if c == nil || m.closed || m.cleaner == "fixed" || m.cleaner == "script" {
		t.Skip("no blocked cancellable get")
	}
	for _, o := range m.cons {
		if o != c && o.getOp != nil {
			t.Skip("another get is pending")
		}
	}
	k := rapid.IntRange(1, 3).Draw(t, "raceK")
	cancelFirst := rapid.Bool().Draw(t, "cancelFirst")
	yields := rapid.SampledFrom([]int{0, 0, 1, 5}).Draw(t, "raceYields")
	vals := m.nextTokens(k)
	args := make([]any, k)
	for i, v := range vals {
		args[i] = bsPayload(v)
	}
	put := func() {
		if err := m.b.Put(context.Background(), args...); err != nil {
			m.fail("C01/put-error", "Put failed: %v", err)
		}
	}
	if cancelFirst {
		c.getCancel()
		for i := 0; i < yields; i++ {
			runtime.Gosched()
		}
		put()
	} else {
		put()
		for i := 0; i < yields; i++ {
			runtime.Gosched()
		}
		c.getCancel()
	}
	m.G = append(m.G, vals...)
	m.changed()
	m.wokeBlockedGet = true
	synctest.Wait()
	op := c.getOp
	if !op.Finished() {
		m.fail("C05/get-lost-wakeup", "Get(c%d) still blocked at quiescence although a value was put AND its context was cancelled", c.id)
	}
	if op.Panic != nil {
		m.fail("C01+C02+C03+C05+C12/get-panic", "Get(c%d) panicked: %v", c.id, op.Panic)
	}
	r := op.Res.(bsGetRes)
	m.tr("race(c%d,put%v,cancelFirst=%v)=%v", c.id, vals, cancelFirst, r.err == nil)
	m.finishGet(c, m.G[c.pos()], r.err != nil)
	m.simple = false
	m.settle()
}

// ruleDiffDuringGet: somebody asks for Diff(c) while c's Get is blocked at the end of the buffer, then a value is put.
// The Diff may wait for the Get (it needs the consumer) but must not stand in the way of the Put that ends the wait:
// at quiescence the Put has returned, the Get has its value and the Diff has answered. (A wedge here parks goroutines
// on mutexes, which never lets the bubble go quiet: the stall watchdog reports it.)
func (m *bsMachine) ruleDiffDuringGet(t *rapid.T) {
	c := m.pickCons("diffCons", func(c *bsCons) bool {
		return c.getOp != nil && c.open && c.pos() >= len(m.G) && c.pos() >= m.base
	})
	if c == nil || m.closed || m.cleaner == "fixed" || m.cleaner == "script" {
		t.Skip("no blocked get")
	}
	for _, o := range m.cons {
		if o != c && o.getOp != nil {
			t.Skip("another get is pending")
		}
	}
	k := rapid.IntRange(1, 3).Draw(t, "diffPutK")
	vals := m.nextTokens(k)
	args := make([]any, k)
	for i, v := range vals {
		args[i] = bsPayload(v)
	}
	b, cc := m.b, c.c
	type diffRes struct {
		d  int
		ok bool
	}
	diffOp := vkit.Launch("Buffer.Diff", func() any { d, ok := b.Diff(cc); return diffRes{d, ok} })
	bsSpin()
	putOp := vkit.Launch("Buffer.Put", func() any { return b.Put(context.Background(), args...) })
	m.G = append(m.G, vals...)
	m.changed()
	m.wokeBlockedGet = true
	synctest.Wait()
	m.tr("diffDuringGet(c%d,put%v)", c.id, vals)
	if !putOp.Finished() || putOp.Panic != nil || putOp.Res != nil {
		m.fail("C05+C01/put-blocked", "Put issued while a Get of c%d was blocked and a Diff of c%d was waiting: finished=%v result=%v panic=%v", c.id, c.id, putOp.Finished(), putOp.Res, putOp.Panic)
	}
	op := c.getOp
	if !op.Finished() {
		m.fail("C05/get-lost-wakeup", "Get(c%d) still blocked at quiescence although a value was put (a Diff of the same consumer was waiting meanwhile)", c.id)
	}
	if op.Panic != nil {
		m.fail("C01+C02+C03+C05+C12/get-panic", "Get(c%d) panicked: %v", c.id, op.Panic)
	}
	if !diffOp.Finished() || diffOp.Panic != nil {
		m.fail("C05+C03/diff-stuck", "Diff(c%d) issued while its Get was blocked has not answered at quiescence (finished=%v panic=%v)", c.id, diffOp.Finished(), diffOp.Panic)
	}
	if dr := diffOp.Res.(diffRes); !dr.ok || dr.d < 0 || dr.d > k {
		m.fail("C03/diff-value", "Diff(c%d) issued around a Put of %d values onto a drained consumer answered (%d,%v)", c.id, k, dr.d, dr.ok)
	}
	r := op.Res.(bsGetRes)
	m.finishGet(c, m.G[c.pos()], r.err != nil)
	m.simple = false
	m.settle()
}

func (m *bsMachine) ruleCommit(t *rapid.T) {
	c := m.pickCons("commitCons", func(c *bsCons) bool { return !c.busy() })
	if c == nil {
		t.Skip("no consumer")
	}
	err := c.c.Commit()
	if c.delta == 0 {
		if err == nil {
			if c.afterFailedGet {
				m.fail("C05+C02/commit-after-failed-get", "Commit(c%d) returned nil although nothing is pending: the preceding failed Get must not have consumed anything", c.id)
			}
			m.fail("C02/commit-nothing", "Commit(c%d) with nothing pending returned nil", c.id)
		}
		m.tr("commit(c%d)=err", c.id)
	} else {
		if err != nil {
			m.fail("C02/commit-error", "Commit(c%d) with %d pending reads failed: %v", c.id, c.delta, err)
		}
		c.committed += c.delta
		c.delta = 0
		c.afterCommit = true
		m.changed()
		m.tr("commit(c%d)->%d", c.id, c.committed)
	}
	m.simple = true
	m.settle()
}

func (m *bsMachine) ruleRollback(t *rapid.T) {
	c := m.pickCons("rbCons", func(c *bsCons) bool { return !c.busy() })
	if c == nil {
		t.Skip("no consumer")
	}
	err := c.c.Rollback()
	if c.delta == 0 {
		if err == nil {
			if c.afterFailedGet {
				m.fail("C05+C02/rollback-after-failed-get", "Rollback(c%d) returned nil although nothing is pending: the preceding failed Get must not have consumed anything", c.id)
			}
			m.fail("C02/rollback-nothing", "Rollback(c%d) with nothing pending returned nil", c.id)
		}
		m.tr("rollback(c%d)=err", c.id)
	} else {
		if err != nil {
			m.fail("C02/rollback-error", "Rollback(c%d) with %d pending reads failed: %v", c.id, c.delta, err)
		}
		if c.delta >= 2 {
			m.rbMulti = true
			m.lastRbCons = c.id
		}
		m.tr("rollback(c%d,%d)", c.id, c.delta)
		c.delta = 0
	}
	m.simple = true
	m.settle()
}

// bsPayload is the value put for token v: nil is a legal value like any other (every seventh token is put as nil)
func bsPayload(v int) any {
	if v%7 == 3 {
		return nil
	}
	return v
}

// spin gives other goroutines ample opportunity to run without declaring quiescence
// (used only while a goroutine is known to be parked on a sync.Mutex, where synctest.Wait would stall).
func bsSpin() {
	for i := 0; i < 200; i++ {
		runtime.Gosched()
	}
}

func (m *bsMachine) ruleCloseConsumer(t *rapid.T) {
	c := m.pickCons("closeCons", func(c *bsCons) bool { return !c.busy() })
	if c == nil {
		t.Skip("no consumer")
	}
	cc := c.c
	op := vkit.Launch("close", func() any { return cc.Close() })
	if !c.open {
		m.settleOp(op)
		if op.Res == nil {
			m.fail("C12/second-close-nil", "second Close(c%d) returned nil", c.id)
		}
		m.tr("close(c%d)=err", c.id)
		m.simple = true
		m.settle()
		return
	}
	if c.delta > 0 {
		// Close must wait for the uncommitted reads (statement's proviso). The consumer's own
		// watcher goroutine parks on the sync.Once mutex meanwhile, so no settle here.
		m.closeInFlight = true
		bsSpin()
		if op.Finished() {
			m.fail("C12/close-ignored-uncommitted", "Close(c%d) returned %v while %d reads are uncommitted", c.id, op.Res, c.delta)
		}
		if rapid.Bool().Draw(t, "resolveByCommit") {
			if err := cc.Commit(); err != nil {
				m.fail("C02/commit-error", "Commit(c%d) during Close failed: %v", c.id, err)
			}
			c.committed += c.delta
			c.delta = 0
			m.noteIntermediate()
			m.tr("close(c%d)+commit", c.id)
		} else {
			if err := cc.Rollback(); err != nil {
				m.fail("C02/rollback-error", "Rollback(c%d) during Close failed: %v", c.id, err)
			}
			m.tr("close(c%d)+rollback", c.id)
		}
		c.delta = 0
		m.simple = false
	} else {
		m.tr("close(c%d)", c.id)
		m.simple = true
	}
	wasSlowest := m.isSlowest(c)
	prevBase := m.base
	m.settleOp(op)
	if op.Panic != nil {
		m.fail("C12/close-panic", "Close(c%d) panicked: %v", c.id, op.Panic)
	}
	if op.Res != nil {
		m.fail("C12/close-error", "first Close(c%d) returned %v", c.id, op.Res)
	}
	select {
	case <-cc.Done():
	default:
		m.fail("C12/done-not-closed", "Done() of c%d is not closed after Close returned", c.id)
	}
	c.open = false
	m.closeOrder = append(m.closeOrder, c.id)
	m.changed()
	m.settle()
	if wasSlowest && m.base > prevBase {
		m.closeUnpin = true
	}
}

func (m *bsMachine) isSlowest(c *bsCons) bool {
	others := false
	for _, o := range m.cons {
		if o != c && o.open {
			others = true
			if o.committed <= c.committed {
				return false
			}
		}
	}
	return others
}

// settleOp waits for quiescence and requires op to have completed.
func (m *bsMachine) settleOp(op *vkit.Op) {
	synctest.Wait()
	if !op.Finished() {
		m.fail("C12/close-hang", "%s still blocked at quiescence although nothing is uncommitted and no Get is blocked", op.Name)
	}
}

func (m *bsMachine) ruleCloseBuffer(t *rapid.T) {
	if m.closed {
		// second close
		res, pv := vkit.Call(func() any { return m.b.Close() })
		if pv != nil {
			m.fail("C12/close-panic", "second Buffer.Close panicked: %v", pv)
		}
		if res == nil {
			m.fail("C12/second-close-nil", "second Buffer.Close returned nil")
		}
		m.tr("closeBuffer=err")
		m.simple = true
		m.settle()
		return
	}
	if rapid.IntRange(0, 3).Draw(t, "reallyClose") != 0 {
		t.Skip("not closing the buffer yet")
	}
	m.doCloseBuffer(t)
}

func (m *bsMachine) doCloseBuffer(t *rapid.T) {
	pre := m.b.Slice()
	op := vkit.Launch("Buffer.Close", func() any { return m.b.Close() })
	var blockers []*bsCons
	for _, c := range m.cons {
		if c.open && c.delta > 0 {
			blockers = append(blockers, c)
		}
		if c.getOp != nil {
			m.wokeBlockedGet = true
			m.closeInFlight = true
		}
	}
	m.tr("closeBuffer(blockers=%d)", len(blockers))
	if len(blockers) > 0 {
		m.closeInFlight = true
		// Buffer.Close must wait until every consumer has no uncommitted reads. A blocked Get on
		// a blocker returns (with an error) once the buffer context is cancelled; wait for those first.
		for _, c := range blockers {
			if c.getOp != nil {
				c.getOp.Wait()
			}
		}
		order := rapid.Permutation(blockers).Draw(t, "resolveOrder")
		for _, c := range order {
			bsSpin()
			if op.Finished() {
				m.fail("C12/close-ignored-uncommitted", "Buffer.Close returned while c%d still holds %d uncommitted reads", c.id, c.delta)
			}
			if c.getOp != nil {
				m.closed = true
				m.finishGet(c, 0, true)
			}
			if rapid.Bool().Draw(t, "resolveByCommit") {
				if err := c.c.Commit(); err != nil {
					// (C12 as well: Close waits for exactly this commit; if it is refused the Close cannot terminate
					// although the program does resolve its reads)
					m.fail("C02+C12/commit-error-while-closing", "Commit(c%d) while the buffer is closing failed: %v", c.id, err)
				}
				c.committed += c.delta
				c.delta = 0
				m.noteIntermediate()
			} else {
				if err := c.c.Rollback(); err != nil {
					m.fail("C02/rollback-error", "Rollback(c%d) while the buffer is closing failed: %v", c.id, err)
				}
			}
			c.delta = 0
		}
	}
	m.closed = true
	m.settleOp(op)
	if op.Panic != nil {
		m.fail("C12/close-panic", "Buffer.Close panicked: %v", op.Panic)
	}
	if op.Res != nil {
		m.fail("C12/close-error", "first Buffer.Close returned %v", op.Res)
	}
	select {
	case <-m.b.Done():
	default:
		m.fail("C12/done-not-closed", "Buffer.Done() is not closed after Close returned")
	}
	for _, c := range m.cons {
		if c.open {
			c.open = false
			m.closeOrder = append(m.closeOrder, c.id)
			if !c.busy() {
				select {
				case <-c.c.Done():
				default:
					m.fail("C12/consumer-not-closed", "Buffer.Close returned but consumer c%d is not done", c.id)
				}
			}
		}
	}
	// contents stay readable: what is there after Close is what was there before, minus at most a
	// prefix that the cleaner removed before the close took effect (commits made while resolving blockers)
	post := m.b.Slice()
	if len(post) > len(pre) || fmt.Sprint(pre[len(pre)-len(post):]) != fmt.Sprint(post) {
		m.fail("C12/contents-after-close", "Slice changed across Close: %v -> %v", pre, post)
	}
	if len(blockers) == 0 && len(post) != len(pre) {
		m.fail("C12/contents-after-close", "Slice shrank across Close although nothing was committed meanwhile: %v -> %v", pre, post)
	}
	m.simple = false
	m.settle()
}

func (m *bsMachine) ruleAdvance(t *rapid.T) {
	unit := m.cooldown
	if unit == 0 {
		unit = time.Millisecond
	}
	frac := rapid.SampledFrom([]int{1, 3, 5, 9, 10, 11, 15, 30}).Draw(t, "advTenths")
	d := unit * time.Duration(frac) / 10
	if d <= 0 {
		d = 1
	}
	time.Sleep(d)
	m.tr("advance(%v)", d)
	m.simple = true
	m.settle()
}

func (m *bsMachine) ruleSetCleaner(t *rapid.T) {
	if !m.logOn {
		t.Skip("default-config case")
	}
	m.drawCleaner(t)
	if rapid.Bool().Draw(t, "newCooldown") {
		// a different cooldown: a window that is pending right now still runs its old length; everything after it
		// is governed by the new value
		old := m.cooldown
		m.cooldown = rapid.SampledFrom([]time.Duration{0, time.Microsecond, time.Millisecond, 10 * time.Millisecond, time.Second}).Draw(t, "cooldown")
		if m.cooldown != old {
			if h := time.Now().Add(old + time.Microsecond); h.After(m.cdHold) {
				m.cdHold = h
			}
			m.cdChanged = true
		}
	}
	err := m.b.SetCleanerConfig(bigbuff.CleanerConfig{Cleaner: m.makeCleaner(), Cooldown: m.cooldown})
	if err != nil {
		m.fail("C03/setcleaner-error", "SetCleanerConfig failed: %v", err)
	}
	m.cfgDirty = true // SetCleanerConfig does not itself trigger a cleaner pass
	m.tr("setCleaner(%s)", m.cleanerDesc())
	m.simple = true
	m.settle()
}

func (m *bsMachine) cleanerDesc() string {
	switch m.cleaner {
	case "fixed":
		return fmt.Sprintf("fixed(%d,%d) cd=%v", m.fixMax, m.fixTgt, m.cooldown)
	case "script":
		return fmt.Sprintf("script%v cd=%v", m.script, m.cooldown)
	}
	return fmt.Sprintf("%s cd=%v", m.cleaner, m.cooldown)
}

func (m *bsMachine) drawCleaner(t *rapid.T) {
	prof := os.Getenv("VKIT_PROFILE")
	kinds := []string{"default", "default", "default", "fixed", "never", "script"}
	if prof == "C03" {
		kinds = []string{"default", "fixed", "fixed", "script", "script", "never"}
	}
	if prof == "C04" {
		kinds = []string{"default", "default", "default", "fixed"}
	}
	m.cleaner = rapid.SampledFrom(kinds).Draw(t, "cleaner")
	switch m.cleaner {
	case "fixed":
		m.fixMax = rapid.IntRange(0, 6).Draw(t, "fixMax")
		if prof == "C04" {
			m.fixTgt = rapid.IntRange(0, m.fixMax).Draw(t, "fixTgt")
		} else {
			m.fixTgt = rapid.IntRange(-1, 7).Draw(t, "fixTgt")
		}
	case "script":
		n := rapid.IntRange(1, 4).Draw(t, "scriptLen")
		m.script = make([]int, n)
		for i := range m.script {
			m.script[i] = rapid.SampledFrom([]int{-2, 0, 0, 1, 1, 2, 3, 100}).Draw(t, "scriptV")
		}
		m.scriptAt = 0
	}
}

// rangeScript actions per callback index
type bsRangeAct struct {
	kind string // "cont" | "stop" | "panic" | "put" | "cancel" | "steal" (another reader Gets from the same consumer during the callback)
	k    int
}

func (m *bsMachine) drawRangeScript(t *rapid.T) []bsRangeAct {
	n := rapid.IntRange(1, 5).Draw(t, "rangeLen")
	out := make([]bsRangeAct, n)
	for i := range out {
		kind := rapid.SampledFrom([]string{"cont", "cont", "cont", "put", "stop", "panic", "cancel", "steal", "steal"}).Draw(t, "rangeAct")
		out[i] = bsRangeAct{kind: kind}
		if kind == "put" {
			out[i].k = rapid.IntRange(1, 2).Draw(t, "rangePutK")
		}
	}
	// the last entry always ends the iteration
	if k := out[n-1].kind; k == "cont" || k == "put" || k == "steal" {
		out[n-1].kind = rapid.SampledFrom([]string{"stop", "panic", "cancel"}).Draw(t, "rangeEnd")
	}
	return out
}

type bsRangeCall struct {
	index int
	value any
}

func (m *bsMachine) rangeForbidden() bool {
	// under a forcing cleaner the consumer could be trimmed past between two iterations by the
	// concurrently running cleaner: not predictable, excluded by construction
	return m.cleaner == "fixed" || m.cleaner == "script"
}

func (m *bsMachine) ruleRange(t *rapid.T) {
	if m.rangeForbidden() {
		m.st.Exclude("range-under-forcing-cleaner")
		t.Skip("range under forcing cleaner")
	}
	c := m.pickCons("rangeCons", func(c *bsCons) bool { return !c.busy() && c.open && c.pos() >= m.base })
	if c == nil || m.closed {
		t.Skip("no consumer for range")
	}
	pkg := rapid.Bool().Draw(t, "rangePkg")
	script := m.drawRangeScript(t)
	ctx, cancel := context.WithCancel(context.Background())
	defer cancel()
	var calls []bsRangeCall
	var stolen []any
	readPos := c.pos() // harness-side read position of this consumer while the range runs
	sentinel := fmt.Sprintf("range-panic-%d", len(m.trace))
	fn := func(index int, value any) bool {
		calls = append(calls, bsRangeCall{index, value})
		readPos++
		i := len(calls) - 1
		if i >= len(script) {
			return true
		}
		switch a := script[i]; a.kind {
		case "stop":
			return false
		case "panic":
			panic(sentinel)
		case "cancel":
			cancel()
		case "steal":
			// the consumer is shared: somebody else reads its next value while this callback is running
			// (only when one is available, so that the extra Get cannot block)
			if readPos < len(m.G) {
				v, err := c.c.Get(context.Background())
				if err != nil {
					v = fmt.Sprintf("error: %v", err)
				}
				stolen = append(stolen, v)
				readPos++
			}
		case "put":
			vals := m.nextTokens(a.k)
			args := make([]any, a.k)
			for j, v := range vals {
				args[j] = bsPayload(v)
			}
			if err := m.b.Put(nil, args...); err != nil {
				panic(fmt.Sprintf("harness: put inside range failed: %v", err))
			}
			m.G = append(m.G, vals...) // callback runs on the Range goroutine while the driver waits
		}
		return true
	}
	cc := c.c
	g0, next0 := len(m.G), m.next
	var op *vkit.Op
	if pkg {
		op = vkit.Launch("Range", func() any { return bigbuff.Range(ctx, cc, fn) })
	} else {
		op = vkit.Launch("Buffer.Range", func() any { return m.b.Range(ctx, cc, fn) })
	}
	synctest.Wait()

	// ---- model: simulate the documented loop sequentially
	var (
		want       []bsRangeCall
		wantRes    string // "nil" | "ctx" | "panic" | "blocked"
		simG       = append([]int(nil), m.G[:g0]...)
		simNext    = next0
		committed  = c.committed
		delta      = c.delta
		cancelled  = false
		putTotal   = 0
		wantStolen []any
	)
	if !pkg && len(simG)-(committed+delta) <= 0 {
		wantRes = "nil"
	}
	for idx := 0; wantRes == ""; idx++ {
		if cancelled {
			wantRes = "ctx"
			break
		}
		pos := committed + delta
		if pos >= len(simG) {
			wantRes = "blocked" // only the package-level Range can get here
			break
		}
		want = append(want, bsRangeCall{idx, bsPayload(simG[pos])})
		delta++
		act := bsRangeAct{kind: "cont"}
		if idx < len(script) {
			act = script[idx]
		}
		if act.kind == "panic" {
			delta = 0 // rolled back
			wantRes = "panic"
			break
		}
		if act.kind == "put" {
			for j := 0; j < act.k; j++ {
				simNext++
				simG = append(simG, simNext)
			}
			putTotal += act.k
		}
		if act.kind == "cancel" {
			cancelled = true
		}
		if act.kind == "steal" && committed+delta < len(simG) {
			wantStolen = append(wantStolen, bsPayload(simG[committed+delta]))
			delta++ // read by the other reader; covered by the same Commit
		}
		committed += delta // committed only after the callback returned
		delta = 0
		{
			sc, sd, sg := c.committed, c.delta, m.G
			c.committed, c.delta, m.G = committed, delta, simG
			m.noteIntermediate()
			c.committed, c.delta, m.G = sc, sd, sg
		}
		if act.kind == "stop" {
			wantRes = "nil"
			break
		}
		if !pkg && len(simG)-committed <= 0 {
			wantRes = "nil" // Buffer.Range: end of the buffer reached
			break
		}
	}
	desc := fmt.Sprintf("range(c%d,pkg=%v,%v)", c.id, pkg, script)
	if len(calls) != len(want) {
		m.tr("%s", desc)
		m.fail("C02/range-callbacks", "Range invoked the callback %d times (%v), expected %d (%v)", len(calls), calls, len(want), want)
	}
	for i := range want {
		if calls[i].index != want[i].index || calls[i].value != want[i].value {
			m.tr("%s", desc)
			m.fail("C02+C01/range-callbacks", "callback %d got (index %d, value %v), expected (index %d, value %v)", i, calls[i].index, calls[i].value, want[i].index, want[i].value)
		}
	}
	if fmt.Sprint(stolen) != fmt.Sprint(wantStolen) && len(calls) == len(want) {
		m.tr("%s", desc)
		m.fail("C02/range-shared-reader", "the reader sharing the consumer during the callbacks got %v, expected %v", stolen, wantStolen)
	}
	if fmt.Sprint(m.G) != fmt.Sprint(simG) {
		panic(fmt.Sprintf("harness: range model inconsistent: G=%v sim=%v", m.G, simG))
	}
	if wantRes == "blocked" {
		if op.Finished() {
			m.tr("%s", desc)
			m.fail("C02/range-returned-early", "package Range returned (%v / panic %v) although it must block waiting for the next value", op.Res, op.Panic)
		}
		// release it by cancelling its context
		cancel()
		synctest.Wait()
		if !op.Finished() {
			m.tr("%s", desc)
			m.fail("C05/get-lost-wakeup", "Range blocked in Get did not return after its context was cancelled")
		}
		wantRes = "ctx"
		delta = 0 // Get failed: Range rolls back (everything uncommitted on this consumer)
		m.wokeBlockedGet = true
		desc += "+cancelled"
	} else if !op.Finished() {
		m.tr("%s", desc)
		if !pkg {
			m.fail("C02/buffer-range-blocked", "Buffer.Range is blocked at quiescence: it must stop at the end of the buffer instead of blocking")
		}
		m.fail("C02/range-hang", "Range still running at quiescence, expected result %s", wantRes)
	}
	switch wantRes {
	case "nil":
		if op.Panic != nil || op.Res != nil {
			m.tr("%s", desc)
			m.fail("C02/range-result", "Range returned %v (panic %v), expected nil", op.Res, op.Panic)
		}
	case "ctx":
		if op.Panic != nil || op.Res == nil {
			m.tr("%s", desc)
			m.fail("C02/range-result", "Range returned %v (panic %v), expected the context's error", op.Res, op.Panic)
		}
	case "panic":
		m.rangeFail = true
		if op.Panic != any(sentinel) {
			m.tr("%s", desc)
			m.fail("C02/range-result", "Range returned %v / panic %v, expected the callback's panic to propagate", op.Res, op.Panic)
		}
	}
	didCommit := committed != c.committed
	c.committed, c.delta = committed, delta
	if hr := committed + delta; hr > c.highRead {
		c.highRead = hr
	}
	if wantRes == "panic" && len(want) > 0 {
		// the in-flight value was read once (then rolled back)
		if hr := committed + 1; hr > c.highRead {
			c.highRead = hr
		}
	}
	if putTotal > 0 || didCommit {
		m.changed()
	}
	m.tr("%s=%s/%d", desc, wantRes, len(want))
	m.simple = false
	m.settle()
	// in-flight value rolled back: it is the first value the next read returns (checked by the
	// generic Get oracle: a re-read position must yield the previously read value, sig C02/replay-value)
	if wantRes == "panic" && !m.closed {
		c.getOp = vkit.Launch("get", func() any {
			v, err := cc.Get(context.Background())
			return bsGetRes{v, err}
		})
		m.simple = true
		m.settle()
	}
}

// ---- case driver

func bsWeights(prof string) map[string]int {
	w := map[string]int{
		"put": 5, "newConsumer": 2, "get": 7, "cancelGet": 2, "commit": 4, "rollback": 2,
		"closeConsumer": 1, "closeBuffer": 1, "advance": 2, "setCleaner": 1, "range": 2, "raceWake": 1,
	}
	switch prof {
	case "C02":
		w["rollback"], w["commit"], w["range"], w["get"] = 5, 4, 4, 9
	case "C03":
		w["put"], w["setCleaner"], w["commit"] = 7, 2, 5
	case "C04":
		w["advance"], w["commit"], w["closeConsumer"] = 6, 6, 2
	case "C05":
		w["get"], w["cancelGet"], w["put"], w["raceWake"] = 9, 4, 4, 4
	case "C12":
		w["closeConsumer"], w["closeBuffer"], w["newConsumer"] = 4, 2, 3
	}
	return w
}

func bsRun(t *rapid.T, st *vkit.Stats, prof string) {
	m := &bsMachine{prof: prof, t: t, st: st, b: new(bigbuff.Buffer)}
	defer func() {
		if r := recover(); r != nil {
			if _, ok := r.(bsAbort); ok {
				return
			}
			panic(r)
		}
	}()
	vkit.CaseStart(func() string { return strings.Join(m.trace, " ; ") })
	m.lastChg = time.Now()
	// configuration
	if rapid.IntRange(0, 4).Draw(t, "configure") == 0 {
		m.cleaner, m.cooldown, m.logOn = "unset", bigbuff.DefaultCleanerCooldown, false
		m.tr("config(defaults)")
	} else {
		m.logOn = true
		cds := []time.Duration{0, 0, time.Microsecond, time.Millisecond, 10 * time.Millisecond, time.Second}
		m.cooldown = rapid.SampledFrom(cds).Draw(t, "cooldown")
		m.drawCleaner(t)
		if err := m.b.SetCleanerConfig(bigbuff.CleanerConfig{Cleaner: m.makeCleaner(), Cooldown: m.cooldown}); err != nil {
			m.fail("C03/setcleaner-error", "SetCleanerConfig failed: %v", err)
		}
		m.tr("config(%s)", m.cleanerDesc())
	}
	// the cleanup goroutine's very first pass may have armed a timer with the *default* cooldown
	// before the configuration above was applied: let it expire so that the case's own cooldown governs
	synctest.Wait()
	time.Sleep(bigbuff.DefaultCleanerCooldown + time.Millisecond)
	m.lastChg = time.Now()
	m.simple = false
	m.settle()

	actions := map[string]func(*rapid.T){}
	add := func(name string, w int, f func(*rapid.T)) {
		for i := 0; i < w; i++ {
			actions[fmt.Sprintf("%s~%d", name, i)] = f
		}
	}
	w := bsWeights(prof)
	add("put", w["put"], m.rulePut)
	add("newConsumer", w["newConsumer"], m.ruleNewConsumer)
	add("get", w["get"], m.ruleGet)
	add("cancelGet", w["cancelGet"], m.ruleCancelGet)
	add("raceWake", w["raceWake"], m.ruleRaceWake)
	add("diffDuringGet", w["raceWake"], m.ruleDiffDuringGet)
	add("cancelRetry", w["raceWake"], m.ruleCancelRetry)
	add("commit", w["commit"], m.ruleCommit)
	add("rollback", w["rollback"], m.ruleRollback)
	add("closeConsumer", w["closeConsumer"], m.ruleCloseConsumer)
	add("closeBuffer", w["closeBuffer"], m.ruleCloseBuffer)
	add("advance", w["advance"], m.ruleAdvance)
	add("setCleaner", w["setCleaner"], m.ruleSetCleaner)
	add("range", w["range"], m.ruleRange)
	t.Repeat(vkit.NoStarve(actions, nil))

	// ---- teardown in a drawn order, then the leak oracle
	m.tr("teardown")
	for _, c := range m.cons {
		if c.getOp != nil && c.getCancel != nil && !c.getCtxErr {
			c.getCtxErr = true
			c.getCancel()
		}
	}
	m.simple = false
	m.settle()
	if !m.closed {
		if rapid.Bool().Draw(t, "closeConsumersFirst") {
			var open []*bsCons
			for _, c := range m.cons {
				if c.open && !c.busy() {
					open = append(open, c)
				}
			}
			for _, c := range rapid.Permutation(open).Draw(t, "closeOrder") {
				if c.delta > 0 {
					_ = c.c.Rollback()
					c.delta = 0
				}
				if err := c.c.Close(); err != nil {
					m.fail("C12/close-error", "Close(c%d) at teardown returned %v", c.id, err)
				}
				c.open = false
				m.closeOrder = append(m.closeOrder, c.id)
				m.changed()
				m.tr("close(c%d)", c.id)
				m.settle()
			}
		}
		m.doCloseBuffer(t)
	}
	for _, c := range m.cons {
		if c.busy() {
			m.fail("C05+C12/get-lost-wakeup", "Get(c%d) still pending after the buffer was closed", c.id)
		}
		// later calls fail cleanly
		if v, err := c.c.Get(context.Background()); err == nil {
			m.fail("C12/get-after-close", "Get(c%d) after close returned %v", c.id, v)
		}
		if err := c.c.Commit(); err == nil {
			m.fail("C12/commit-after-close", "Commit(c%d) after close returned nil", c.id)
		}
		if err := c.c.Close(); err == nil {
			m.fail("C12/second-close-nil", "Close(c%d) after close returned nil", c.id)
		}
	}
	if err := m.b.Put(context.Background(), 1); err == nil {
		m.fail("C12+C01/put-accepted", "Put after Close returned nil")
	}
	if _, err := m.b.NewConsumer(); err == nil {
		m.fail("C12/newconsumer-after-close", "NewConsumer after Close succeeded")
	}
	// drain library timers (cooldown timer goroutine), then nothing of this bubble may remain
	time.Sleep(time.Hour)
	synctest.Wait()
	if left := vkit.BubbleOthers(); len(left) != 0 {
		m.fail("C12/goroutine-leak", "%d goroutine(s) still alive after every handle was closed:\n%s", len(left), vkit.DescribeGoroutines(left))
	}

	// ---- classification
	nonCreation := false
	for i := 1; i < len(m.closeOrder); i++ {
		if m.closeOrder[i] < m.closeOrder[i-1] {
			nonCreation = true
		}
	}
	var nt bool
	switch prof {
	case "C01":
		nt = m.maxAlive >= 2 && m.nEvictOpen >= 1 && m.bigBatch
	case "C02":
		nt = (m.rbMulti && m.rbReread) || m.rangeFail
	case "C03":
		nt = m.nEvictOpen >= 1 && (m.laggingSeen || m.evictWhileUnc)
	case "C04":
		nt = m.inWindowChange || m.closeUnpin
	case "C05":
		nt = m.wokeBlockedGet
	case "C12":
		nt = m.closeInFlight && nonCreation && len(m.closeOrder) >= 2
	default:
		nt = len(m.trace) > 5
	}
	cls := []string{"cleaner:" + m.cleaner, "cooldown:" + m.cooldown.String()}
	flag := func(b bool, n string) {
		if b {
			cls = append(cls, n)
		}
	}
	flag(m.maxAlive >= 2, "multi-consumer")
	flag(m.nEvictOpen >= 1, "evicted-while-open")
	flag(m.rbMulti && m.rbReread, "rollback-multi-reread")
	flag(m.rangeFail, "range-failed")
	flag(m.laggingSeen, "lagging-consumer")
	flag(m.evictWhileUnc, "evict-with-uncommitted")
	flag(m.inWindowChange, "change-inside-cooldown-window")
	flag(m.cdChanged, "cooldown-reconfigured")
	flag(m.closeUnpin, "close-unpinned")
	flag(m.wokeBlockedGet, "woke-blocked-get")
	flag(m.closeInFlight, "close-with-op-in-flight")
	flag(nonCreation, "non-creation-close-order")
	flag(m.getErrNoAdv, "get-error-seen")
	st.Case(m.trace, nt, cls...)
}

func TestBufStep(t *testing.T) {
	prof := os.Getenv("VKIT_PROFILE")
	st := vkit.For("bufstep_" + prof)
	rapid.Check(t, func(t *rapid.T) {
		rapid.SyncTest(t, func(t *rapid.T) {
			bsRun(t, st, prof)
		})
	})
}
