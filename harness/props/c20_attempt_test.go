//go:build go1.25

package props

// c20_attempt — model-based stepper for bigbuff.LinearAttempt inside a synctest bubble (property C20).
//
// One case = one LinearAttempt(ctx, rate, count) call plus a generated schedule of virtual-time advances,
// receives (non-blocking from the driver, or a parked receiver goroutine), and cancellations (explicit, a
// deadline context, or an armed timer — the latter two can fire at *exactly* the virtual instant of a tick).
//
// Reference model (written from the doc comment and the property statement): the call happens at T0; the
// first value (T0) is in the channel on return; tick k happens at T0+k*rate; while the channel is open a tick
// is published iff the single buffer slot is free (or a receiver is parked), otherwise it is dropped; the
// channel is closed right after the count-th value is published, or at the instant of cancellation. The
// only outcome the statement leaves open is a cancellation at the very instant of a tick: the tick may or
// may not be forwarded (at most one); the model adopts what it observes. The same rule covers a context whose
// Done channel never fires and that reports the cancellation through Err() only (c20ErrOnlyCtx): the producer
// can notice it at its next tick at the earliest, may forward at most that tick, and must be gone right after it.
//
// Closedness is observed three ways: a non-blocking receive when the buffer is empty, the result of a parked
// receiver, and (buffer full) the absence of the producing goroutine from the bubble. Timestamps are compared
// exactly (virtual time): first value = call time, later values = scheduled time of the publishing tick.
//
// Not covered here: the real-time hook-delay plan (T-real / AttemptAfterTick) of the design.
//
// All driver actions happen at settled instants: every time.Sleep is followed by synctest.Wait, which only
// returns after every timer of that virtual instant has fired and every goroutine is durably blocked again.

import (
	"bytes"
	"context"
	"fmt"
	"math"
	"os"
	"runtime"
	"strings"
	"testing"
	"testing/synctest"
	"time"

	bigbuff "github.com/joeycumines/go-bigbuff"
	"pgregory.net/rapid"

	"verif/harness/vkit"
)

const (
	c20ExpBlocked = iota // the parked receiver must stay parked
	c20ExpValue          // it must have received pendVal
	c20ExpClosed         // it must have observed the close
	c20ExpTie            // either tieTick or the close
)

type c20Recv struct {
	v  time.Time
	ok bool
}

// c20ErrOnlyCtx reports a cancellation through Err() only; its Done channel never closes (the shape the
// library's own "at most one tick after cancel" example uses). The producer can then notice the cancellation
// at its next tick at the earliest, and may forward at most that one tick.
type c20ErrOnlyCtx struct {
	context.Context
	never chan struct{}
}

func (c c20ErrOnlyCtx) Done() <-chan struct{} { return c.never }

type c20CallRes struct {
	ch  <-chan time.Time
	len int
}

type c20Machine struct {
	t  *rapid.T
	st *vkit.Stats

	count  int
	rate   time.Duration
	kind   string
	policy string
	polK   int

	ctx     context.Context
	cancel  context.CancelFunc
	timer   *time.Timer
	ch      <-chan time.Time
	t0      time.Time
	quit    chan struct{}
	quitCl  bool
	never   chan struct{}
	cleaned bool

	// model
	sent, received int
	buf            []time.Time
	closed         bool
	closedBy       string
	closedVerified bool
	cancelled      bool
	hasCancelAt    bool
	errOnly        bool // Done never fires, only Err() reports the cancellation
	lazy           bool // errOnly cancellation issued, takes effect at the next tick
	issued         bool // a cancellation has happened (explicit, timer, or before the call)
	cancelAt       time.Time
	nextK          int64
	tiePending     bool
	tieToPend      bool
	tieTick        time.Time
	pend           *vkit.Op
	pendExp        int
	pendVal        time.Time
	last           time.Time
	haveLast       bool
	sawClosed      bool

	recvAfterCancel int
	ticksSinceRecv  int
	dropped         int
	ticksSeen       int

	// classification
	cancelOpen     bool
	slowAtCancel   bool
	absentAtCancel bool
	pendAtCancel   bool
	cancelClass    string
	tieClass       string
	usedPend       bool

	trace []string
}

func (m *c20Machine) tr(format string, args ...any) {
	m.trace = append(m.trace, fmt.Sprintf(format, args...))
	if os.Getenv("VKIT_DEBUG") != "" {
		fmt.Println("TRACE", m.trace[len(m.trace)-1])
	}
}

// rel renders a virtual instant relative to the call, in ticks.
func (m *c20Machine) rel(x time.Time) string {
	d := x.Sub(m.t0)
	if m.rate <= 0 {
		return d.String()
	}
	k, rem := d/m.rate, d%m.rate
	if rem == 0 {
		return fmt.Sprintf("T%d", k)
	}
	if rem > m.rate/2 {
		return fmt.Sprintf("T%d-%v", k+1, m.rate-rem)
	}
	return fmt.Sprintf("T%d+%v", k, rem)
}

func (m *c20Machine) fail(sig string, format string, args ...any) {
	m.t.Helper()
	now := ""
	if !m.t0.IsZero() {
		now = " at " + m.rel(time.Now())
	}
	msg := fmt.Sprintf("%s%s\nmodel: sent=%d received=%d buffered=%d closed=%v(%s) cancelled=%v\ntrace: %s",
		fmt.Sprintf(format, args...), now, m.sent, m.received, len(m.buf), m.closed, m.closedBy, m.cancelled, strings.Join(m.trace, " ; "))
	vkit.Announce(sig, "%s", msg)
	m.cleanup()
	m.t.Fatalf("[%s] %s", sig, msg)
}

// cleanup is best effort: end every goroutine of the bubble so that the failure is not masked by a deadlock panic.
func (m *c20Machine) cleanup() {
	if m.cleaned {
		return
	}
	m.cleaned = true
	if m.never != nil {
		close(m.never) // last resort for a producer that only listens to Done
	}
	if m.timer != nil {
		m.timer.Stop()
	}
	if m.cancel != nil {
		m.cancel()
	}
	if m.quit != nil && !m.quitCl {
		m.quitCl = true
		close(m.quit)
	}
	if m.ch == nil {
		return
	}
	rounds := 3
	if m.cancel == nil {
		rounds = m.count + 3
	}
	for i := 0; i < rounds; i++ {
		synctest.Wait()
		closed := false
	drain:
		for j := 0; j < 4; j++ {
			select {
			case _, ok := <-m.ch:
				if !ok {
					closed = true
					break drain
				}
			default:
				break drain
			}
		}
		if closed {
			return
		}
		if m.cancel == nil || i > 0 {
			time.Sleep(m.rate)
		}
	}
}

// c20StackBuf is reused by c20BubbleOthers (engines run one case at a time per process).
var c20StackBuf = make([]byte, 256<<10)

// c20BubbleOthers is vkit.BubbleOthers without the megabyte allocation per call (it is used several times per
// case): the other goroutines of the caller's bubble, from one runtime.Stack dump into a reused buffer.
func c20BubbleOthers() []vkit.Goroutine {
	var dump []byte
	for {
		n := runtime.Stack(c20StackBuf, true)
		if n < len(c20StackBuf) {
			dump = c20StackBuf[:n]
			break
		}
		c20StackBuf = make([]byte, 2*len(c20StackBuf))
	}
	const marker = "synctest bubble "
	bubbleOf := func(hdr string) string {
		i := strings.Index(hdr, marker)
		if i < 0 {
			return ""
		}
		rest := hdr[i+len(marker):]
		j := 0
		for j < len(rest) && rest[j] >= '0' && rest[j] <= '9' {
			j++
		}
		return rest[:j]
	}
	var out []vkit.Goroutine
	me := ""
	for i, blk := range bytes.Split(dump, []byte("\n\n")) {
		if !bytes.HasPrefix(blk, []byte("goroutine ")) {
			continue
		}
		hdr := blk
		if k := bytes.IndexByte(blk, '\n'); k >= 0 {
			hdr = blk[:k]
		}
		b := bubbleOf(string(hdr))
		if i == 0 {
			// the first entry of a runtime.Stack(all) dump is the calling goroutine
			if me = b; me == "" {
				return nil
			}
			continue
		}
		if b != me {
			continue
		}
		stack := string(blk)
		if strings.Contains(stack, "internal/synctest.Run") || strings.Contains(stack, "synctest.testingSynctestTest") {
			continue
		}
		g := vkit.Goroutine{Bubble: b, Stack: stack}
		if f := strings.Fields(string(hdr)); len(f) > 1 {
			g.ID = f[1]
		}
		if a, z := bytes.IndexByte(hdr, '['), bytes.LastIndexByte(hdr, ']'); a >= 0 && z > a {
			g.State = string(hdr[a+1 : z])
		}
		out = append(out, g)
	}
	return out
}

func (m *c20Machine) libAlive() []vkit.Goroutine {
	var out []vkit.Goroutine
	for _, g := range c20BubbleOthers() {
		if g.LibFrames() {
			out = append(out, g)
		}
	}
	return out
}

func (m *c20Machine) notClosedSig() string {
	if m.closedBy == "count" {
		return "C20/not-closed-after-count"
	}
	return "C20/not-closed-after-cancel"
}

func (m *c20Machine) extraValueSig() string {
	switch {
	case m.cancelled && m.closedBy != "count":
		return "C20/tick-after-cancel"
	case m.closed:
		return "C20/more-than-count"
	}
	return "C20/value-off-tick"
}

// ---- model

func (m *c20Machine) proximity(at time.Time) string {
	rem := at.Sub(m.t0) % m.rate
	switch {
	case rem == 0:
		return "on-tick-instant"
	case rem <= time.Nanosecond:
		return "just-after-tick"
	case m.rate-rem <= time.Nanosecond:
		return "just-before-tick"
	}
	return "mid"
}

func (m *c20Machine) modelCancel(at time.Time, class string) {
	m.hasCancelAt = false
	if m.cancelled {
		return
	}
	m.cancelled, m.issued = true, true
	if m.closed {
		m.cancelClass = "after-closed"
		return
	}
	m.cancelOpen = true
	m.cancelClass = class
	m.slowAtCancel = len(m.buf) > 0
	m.absentAtCancel = m.received == 0 && m.pend == nil
	m.pendAtCancel = m.pend != nil && m.pendExp == c20ExpBlocked
	m.closed, m.closedBy = true, "cancel"
	if m.pendAtCancel {
		m.pendExp = c20ExpClosed
	}
}

func (m *c20Machine) modelTick(tk time.Time) {
	m.nextK++
	m.ticksSeen++
	m.ticksSinceRecv++
	if len(m.buf) > 0 {
		m.dropped++
		return
	}
	m.sent++
	if m.pend != nil && m.pendExp == c20ExpBlocked {
		m.pendExp, m.pendVal = c20ExpValue, tk
	} else {
		m.buf = []time.Time{tk}
	}
	if m.sent == m.count {
		m.closed, m.closedBy = true, "count"
	}
}

// advanceModel replays, in order, every tick and scheduled cancellation in (now, target].
func (m *c20Machine) advanceModel(target time.Time) {
	for !m.closed {
		tk := m.t0.Add(time.Duration(m.nextK) * m.rate)
		haveT := !tk.After(target)
		haveC := m.hasCancelAt && !m.cancelAt.After(target)
		switch {
		case !haveT && !haveC:
			return
		case haveC && (!haveT || m.cancelAt.Before(tk)):
			m.modelCancel(m.cancelAt, "timer-"+m.proximity(m.cancelAt))
		case haveC && m.cancelAt.Equal(tk):
			// both timers fire at the same virtual instant: at most this one tick may still be forwarded
			eligible := len(m.buf) == 0
			if m.lazy {
				m.modelCancel(tk, "erronly-next-tick")
			} else {
				m.modelCancel(tk, "timer-tie")
			}
			m.ticksSeen++
			if !eligible {
				m.tieClass = "tie-buffer-full"
				m.dropped++
				break
			}
			m.tiePending, m.tieTick = true, tk
			if m.pendAtCancel {
				m.pendExp, m.tieToPend = c20ExpTie, true
			}
		default:
			m.modelTick(tk)
		}
	}
	if m.hasCancelAt && !m.cancelAt.After(target) {
		m.modelCancel(m.cancelAt, "")
	}
}

// ---- observation

func (m *c20Machine) gotValue(v, exp time.Time) {
	m.received++
	if m.issued {
		m.recvAfterCancel++
	}
	m.tr("got(%s)", m.rel(v))
	if m.received > m.count {
		m.fail("C20/more-than-count", "value #%d received, count is %d", m.received, m.count)
	}
	if m.haveLast && v.Before(m.last) {
		m.fail("C20/timestamp-decreasing", "received %s after %s", m.rel(v), m.rel(m.last))
	}
	if !v.Equal(exp) {
		m.fail("C20/timestamp-unexpected", "received timestamp %s (%v), expected %s: the first value is the call time, every later one the scheduled time of the tick that published it", m.rel(v), v, m.rel(exp))
	}
	m.last, m.haveLast = v, true
	m.ticksSinceRecv = 0
}

func (m *c20Machine) settle() {
	synctest.Wait()
	m.check()
}

func (m *c20Machine) check() {
	n := len(m.ch)
	if n > 1 {
		m.fail("C20/buffer-overfull", "len(ch)=%d: more than one value buffered", n)
	}
	if m.tiePending && !m.tieToPend {
		m.tiePending = false
		if n == 1 && len(m.buf) == 0 {
			m.buf = []time.Time{m.tieTick}
			m.sent++
			m.tieClass = "tie-forwarded"
		} else {
			m.tieClass = "tie-not-forwarded"
		}
	}
	if m.pend != nil {
		fin := m.pend.Finished()
		var r c20Recv
		if fin {
			if m.pend.Panic != nil {
				panic(m.pend.Panic)
			}
			r = m.pend.Res.(c20Recv)
		}
		switch m.pendExp {
		case c20ExpBlocked:
			if fin {
				m.pend = nil
				if r.ok {
					m.fail(m.extraValueSig(), "the parked receiver got %s although no tick happened since it parked", m.rel(r.v))
				}
				m.fail("C20/closed-early", "the parked receiver saw the channel closed: %d of %d values published, context not cancelled", m.sent, m.count)
			}
		case c20ExpValue:
			if !fin {
				m.fail("C20/tick-not-forwarded", "a receiver is parked on the channel, tick %s has passed, and it was not served", m.rel(m.pendVal))
			}
			m.pend = nil
			if !r.ok {
				m.fail("C20/closed-early", "the parked receiver saw the channel closed instead of the value of tick %s", m.rel(m.pendVal))
			}
			m.gotValue(r.v, m.pendVal)
		case c20ExpClosed:
			if !fin {
				m.fail("C20/not-closed-after-cancel", "a receiver parked on the channel is still blocked at quiescence after the cancellation")
			}
			m.pend = nil
			if r.ok {
				m.fail("C20/tick-after-cancel", "the parked receiver got %s after the cancellation (no tick coincides with it)", m.rel(r.v))
			}
			m.sawClosed = true
			m.tr("pend=closed")
		case c20ExpTie:
			if !fin {
				m.fail("C20/not-closed-after-cancel", "a receiver parked on the channel is still blocked at quiescence after the cancellation (coinciding with tick %s)", m.rel(m.tieTick))
			}
			m.pend, m.tiePending, m.tieToPend = nil, false, false
			if r.ok {
				m.sent++
				m.tieClass = "tie-forwarded"
				m.gotValue(r.v, m.tieTick)
			} else {
				m.tieClass = "tie-not-forwarded"
				m.sawClosed = true
				m.tr("pend=closed")
			}
		}
	}
	switch {
	case n > len(m.buf):
		m.fail(m.extraValueSig(), "a value is buffered although the model has none: nothing may be published between ticks, after the count-th value, or after the cancellation")
	case n < len(m.buf):
		m.fail("C20/tick-not-forwarded", "the channel is empty although tick %s happened with the buffer free (published %d of %d, context live)", m.rel(m.buf[0]), m.sent-1, m.count)
	}
	if m.closed && !m.closedVerified {
		m.closedVerified = true
		if left := m.libAlive(); len(left) != 0 {
			m.fail(m.notClosedSig(), "the producing goroutine is still running at quiescence although the channel must be closed (by %s):\n%s", m.closedBy, vkit.DescribeGoroutines(left))
		}
	}
	if n == 0 && m.pend == nil {
		select {
		case v, ok := <-m.ch:
			if ok {
				m.fail(m.extraValueSig(), "unexpected value %s from an empty channel at quiescence", m.rel(v))
			}
			if !m.closed {
				m.fail("C20/closed-early", "the channel is closed: %d of %d values published, context not cancelled", m.sent, m.count)
			}
			m.sawClosed = true
		default:
			if m.closed {
				m.fail(m.notClosedSig(), "the channel is empty and still open at quiescence; it must be closed (by %s)", m.closedBy)
			}
		}
	}
}

// ---- driver operations

func (m *c20Machine) recvNow() {
	select {
	case v, ok := <-m.ch:
		if !ok {
			if !m.closed || len(m.buf) > 0 {
				m.fail("C20/closed-early", "receive saw the channel closed (model: open=%v, buffered=%d)", !m.closed, len(m.buf))
			}
			m.sawClosed = true
			m.tr("recv=closed")
			break
		}
		if len(m.buf) == 0 {
			m.fail(m.extraValueSig(), "received %s although the model has nothing buffered", m.rel(v))
		}
		exp := m.buf[0]
		m.buf = nil
		m.gotValue(v, exp)
	default:
		if len(m.buf) > 0 {
			m.fail("C20/tick-not-forwarded", "nothing to receive although %s must be buffered", m.rel(m.buf[0]))
		}
		if m.closed {
			m.fail(m.notClosedSig(), "the channel is empty and still open; it must be closed (by %s)", m.closedBy)
		}
		m.tr("recv=empty")
	}
	m.settle()
}

func (m *c20Machine) recvPark() {
	if m.pend != nil {
		return
	}
	if len(m.buf) > 0 || m.closed {
		m.recvNow()
		return
	}
	ch, quit := m.ch, m.quit
	m.pend = vkit.Launch("recv", func() any {
		select {
		case v, ok := <-ch:
			return c20Recv{v, ok}
		case <-quit:
			return c20Recv{}
		}
	})
	m.pendExp = c20ExpBlocked
	m.usedPend = true
	m.tr("park")
	m.settle()
}

func (m *c20Machine) cancelNow() {
	m.tr("cancel")
	if m.errOnly && !m.closed {
		// only Err() changes: the producer notices at its next tick, which is the last one it may forward
		m.issued, m.lazy = true, true
		m.cancelAt, m.hasCancelAt = time.Now().Add(m.toNextTick()), true
	} else {
		m.modelCancel(time.Now(), "explicit-"+m.proximity(time.Now()))
	}
	m.cancel()
	m.settle()
}

func (m *c20Machine) sleep(d time.Duration, label string) {
	target := time.Now().Add(d)
	m.tr("%s->%s", label, m.rel(target))
	time.Sleep(d)
	synctest.Wait()
	m.advanceModel(target)
	m.check()
}

func (m *c20Machine) toNextTick() time.Duration {
	return m.rate - time.Since(m.t0)%m.rate
}

// policyStep is the receiver script, run after every rule.
func (m *c20Machine) policyStep() {
	switch m.policy {
	case "prompt":
		for len(m.buf) > 0 {
			m.recvNow()
		}
	case "stop-after":
		for len(m.buf) > 0 && m.received < m.polK {
			m.recvNow()
		}
	case "every":
		if m.ticksSinceRecv >= m.polK && len(m.buf) > 0 {
			m.recvNow()
		}
	case "parked":
		for i := 0; m.pend == nil && !m.sawClosed && i < 4; i++ {
			m.recvPark()
		}
	}
}

// ---- rules

func (m *c20Machine) ruleAdvance(t *rapid.T) {
	next := m.toNextTick()
	kind := rapid.SampledFrom([]string{"tick", "tick", "pre", "post", "half", "multi"}).Draw(t, "adv")
	d := next
	switch kind {
	case "pre":
		if next > 1 {
			d = next - 1
		}
	case "post":
		d = next + 1
	case "half":
		if m.rate >= 2 {
			d = m.rate / 2
		}
	case "multi":
		d = time.Duration(rapid.IntRange(2, 4).Draw(t, "k")) * m.rate
	}
	m.sleep(d, kind)
	m.policyStep()
}

func (m *c20Machine) ruleRecv(t *rapid.T) {
	if m.sawClosed || m.pend != nil {
		t.Skip("nothing to receive from")
	}
	m.recvNow()
}

func (m *c20Machine) rulePark(t *rapid.T) {
	if m.sawClosed || m.pend != nil {
		t.Skip("nothing to receive from")
	}
	m.recvPark()
}

func (m *c20Machine) ruleCancel(t *rapid.T) {
	if m.cancel == nil || m.issued {
		t.Skip("not cancellable")
	}
	if m.closed && rapid.IntRange(0, 3).Draw(t, "lateCancel") != 0 {
		t.Skip("already closed")
	}
	m.cancelNow()
	m.policyStep()
}

func (m *c20Machine) ruleArm(t *rapid.T) {
	if m.cancel == nil || m.errOnly || m.issued || m.hasCancelAt || m.closed {
		t.Skip("cannot arm")
	}
	j := rapid.SampledFrom([]int{0, 0, 0, 1, 2}).Draw(t, "armTick")
	off := c20Offset(t, m.rate)
	d := m.toNextTick() + time.Duration(j)*m.rate + off
	if d <= 0 {
		d = m.toNextTick()
	}
	m.cancelAt, m.hasCancelAt = time.Now().Add(d), true
	m.timer = time.AfterFunc(d, m.cancel)
	m.tr("arm(%s)", m.rel(m.cancelAt))
}

// c20Offset draws the position of a scheduled cancellation relative to a tick; 0 = the same virtual instant.
func c20Offset(t *rapid.T, rate time.Duration) time.Duration {
	switch rapid.SampledFrom([]string{"tie", "tie", "tie", "before", "after", "half"}).Draw(t, "off") {
	case "before":
		return -time.Nanosecond
	case "after":
		return time.Nanosecond
	case "half":
		return rate / 2
	}
	return 0
}

// ---- invalid inputs

func c20RunInvalid(t *rapid.T, st *vkit.Stats) {
	bad := rapid.IntRange(1, 7).Draw(t, "bad")
	ctx, cancel := context.WithCancel(context.Background())
	defer cancel()
	ctxS := "live"
	if rapid.Bool().Draw(t, "preCancelled") {
		cancel()
		ctxS = "cancelled"
	}
	var arg context.Context = ctx
	rate := rapid.SampledFrom([]time.Duration{1, time.Millisecond, time.Second, math.MaxInt64}).Draw(t, "rate")
	count := rapid.SampledFrom([]int{1, 2, 6, math.MaxInt}).Draw(t, "count")
	if bad&1 != 0 {
		arg, ctxS = nil, "nil"
	}
	if bad&2 != 0 {
		rate = rapid.SampledFrom([]time.Duration{0, -1, -time.Second, math.MinInt64}).Draw(t, "badRate")
	}
	if bad&4 != 0 {
		count = rapid.SampledFrom([]int{0, -1, -6, math.MinInt}).Draw(t, "badCount")
	}
	trace := []string{fmt.Sprintf("LinearAttempt(ctx=%s, rate=%d, count=%d)", ctxS, int64(rate), count)}
	_, pv := vkit.Call(func() any { return bigbuff.LinearAttempt(arg, rate, count) })
	if pv == nil {
		vkit.Announce("C20/invalid-input-no-panic", "%s did not panic", trace[0])
		cancel()
		synctest.Wait()
		t.Fatalf("[C20/invalid-input-no-panic] %s did not panic", trace[0])
	}
	st.Case(trace, false, "invalid-input")
}

// ---- one case

func c20Run(t *rapid.T, st *vkit.Stats) {
	m := &c20Machine{t: t, st: st}
	vkit.CaseStart(func() string { return strings.Join(m.trace, " ; ") })
	defer func() {
		// any abnormal exit (a reported violation, rapid abandoning the case while shrinking): let the bubble end
		if r := recover(); r != nil {
			m.cleanup()
			panic(r)
		}
	}()
	if rapid.IntRange(0, 15).Draw(t, "invalid") == 11 {
		c20RunInvalid(t, st)
		return
	}
	m.count = rapid.SampledFrom([]int{1, 2, 3, 3, 4, 4, 5, 6}).Draw(t, "count")
	m.rate = rapid.SampledFrom([]time.Duration{time.Nanosecond, time.Millisecond, time.Millisecond, time.Second}).Draw(t, "rate")
	m.kind = rapid.SampledFrom([]string{"cancellable", "cancellable", "cancellable", "cancellable", "deadline", "deadline", "deadline", "err-only", "err-only", "background", "cancelled"}).Draw(t, "ctx")
	m.policy = rapid.SampledFrom([]string{"absent", "absent", "every", "every", "stop-after", "prompt", "parked", "free", "free"}).Draw(t, "policy")
	switch m.policy {
	case "every":
		m.polK = rapid.IntRange(2, 4).Draw(t, "everyK")
	case "stop-after":
		m.polK = rapid.IntRange(1, 3).Draw(t, "stopAfter")
	}
	m.quit = make(chan struct{})
	m.t0 = time.Now()
	pre := false
	ctxS := m.kind
	switch m.kind {
	case "background":
		m.ctx = context.Background()
	case "cancellable":
		m.ctx, m.cancel = context.WithCancel(context.Background())
	case "err-only":
		m.ctx, m.cancel = context.WithCancel(context.Background())
		m.never = make(chan struct{})
		m.ctx, m.errOnly = c20ErrOnlyCtx{m.ctx, m.never}, true
	case "cancelled":
		m.ctx, m.cancel = context.WithCancel(context.Background())
		if rapid.Bool().Draw(t, "errOnly") {
			m.never = make(chan struct{})
			m.ctx, m.errOnly = c20ErrOnlyCtx{m.ctx, m.never}, true
			ctxS = "cancelled(err-only)"
		}
		m.cancel()
		pre = true
	case "deadline":
		k := rapid.IntRange(0, m.count+1).Draw(t, "dlTick")
		dl := m.t0.Add(time.Duration(k)*m.rate + c20Offset(t, m.rate))
		m.ctx, m.cancel = context.WithDeadline(context.Background(), dl)
		if dl.After(m.t0) {
			m.cancelAt, m.hasCancelAt = dl, true
		} else {
			pre = true
		}
		ctxS = "deadline@" + m.rel(dl)
	}
	m.tr("LinearAttempt(ctx=%s, rate=%v, count=%d) recv=%s/%d", ctxS, m.rate, m.count, m.policy, m.polK)

	ctx, rate, count := m.ctx, m.rate, m.count
	op := vkit.Launch("LinearAttempt", func() any {
		ch := bigbuff.LinearAttempt(ctx, rate, count)
		return c20CallRes{ch, len(ch)}
	})
	synctest.Wait()
	if !op.Finished() {
		m.fail("C20/call-blocked", "LinearAttempt did not return: the initial publish must happen inline without blocking")
	}
	if op.Panic != nil {
		m.fail("C20/valid-input-panic", "LinearAttempt panicked on valid input: %v", op.Panic)
	}
	res := op.Res.(c20CallRes)
	if res.ch == nil {
		m.fail("C20/nil-channel", "LinearAttempt returned a nil channel")
	}
	m.ch = res.ch
	m.nextK = 1
	if pre {
		m.cancelled, m.issued, m.closed, m.closedBy, m.cancelClass = true, true, true, "cancel", "before-call"
		if res.len != 0 {
			m.fail("C20/precancelled-value-sent", "the context was cancelled before the call, yet the returned channel holds %d value(s)", res.len)
		}
	} else {
		if res.len != 1 {
			m.fail("C20/first-value-not-immediate", "len(ch)=%d on return: the first value must be available immediately", res.len)
		}
		m.sent = 1
		m.buf = []time.Time{m.t0}
		if m.count == 1 {
			m.closed, m.closedBy = true, "count"
		}
	}
	m.check()
	m.policyStep()

	w := map[string]int{"advance": 8, "cancel": 1, "arm": 3}
	if m.policy == "free" {
		w["recv"], w["park"] = 4, 2
	}
	actions := map[string]func(*rapid.T){}
	add := func(name string, f func(*rapid.T)) {
		for i := 0; i < w[name]; i++ {
			actions[fmt.Sprintf("%s~%d", name, i)] = f
		}
	}
	add("advance", m.ruleAdvance)
	add("cancel", m.ruleCancel)
	add("arm", m.ruleArm)
	add("recv", m.ruleRecv)
	add("park", m.rulePark)
	t.Repeat(vkit.NoStarve(actions, nil))

	// ---- teardown: bring the channel to its end (by count or by cancellation), then drain and audit
	m.tr("teardown")
	endMode := "already"
	if !m.closed {
		if left := m.libAlive(); len(left) == 0 {
			m.fail("C20/closed-early", "the producing goroutine is gone although only %d of %d values were published and the context is live", m.sent, m.count)
		}
		endMode = "drain"
		if m.cancel != nil && !m.hasCancelAt && rapid.Bool().Draw(t, "endByCancel") {
			endMode = "cancel"
		}
		if endMode == "cancel" {
			m.cancelNow()
			for i := 0; i < 2 && !m.closed; i++ {
				m.sleep(m.toNextTick(), "tick")
			}
			if !m.closed {
				panic("harness: model did not reach its end")
			}
		} else {
			for i := 0; i < m.count+2 && !m.closed; i++ {
				for len(m.buf) > 0 {
					m.recvNow()
				}
				if !m.closed {
					m.sleep(m.toNextTick(), "tick")
				}
			}
			if !m.closed {
				panic("harness: model did not reach its end")
			}
		}
	}
	if m.pend != nil {
		// only possible if the model expects it blocked although closed: cannot happen
		panic("harness: receiver still parked after the end")
	}
	for len(m.buf) > 0 {
		m.recvNow()
	}
	if !m.sawClosed {
		m.recvNow()
	}
	if !m.sawClosed {
		m.fail(m.notClosedSig(), "the drained channel is not closed")
	}
	if m.received > m.count {
		m.fail("C20/more-than-count", "%d values received, count is %d", m.received, m.count)
	}
	if m.closedBy == "count" && m.received != m.count {
		m.fail("C20/closed-early", "closed after %d values, count is %d, context not cancelled before the end", m.received, m.count)
	}
	if m.recvAfterCancel > 2 {
		m.fail("C20/tick-after-cancel", "%d values received after the cancellation", m.recvAfterCancel)
	}
	// leak oracle
	if m.timer != nil {
		m.timer.Stop()
	}
	if m.cancel != nil {
		m.cancel()
	}
	m.quitCl = true
	close(m.quit)
	synctest.Wait()
	if left := c20BubbleOthers(); len(left) != 0 {
		m.fail("C20/goroutine-leak", "%d goroutine(s) alive after the channel was closed and drained:\n%s", len(left), vkit.DescribeGoroutines(left))
	}
	time.Sleep(time.Hour)
	synctest.Wait()
	if left := vkit.BubbleOthers(); len(left) != 0 {
		m.fail("C20/goroutine-leak", "%d goroutine(s) alive an hour after the end:\n%s", len(left), vkit.DescribeGoroutines(left))
	}

	nt := m.count >= 3 && m.cancelOpen && m.slowAtCancel
	cls := []string{
		fmt.Sprintf("count:%d", m.count), "rate:" + m.rate.String(), "ctx:" + m.kind, "recv:" + m.policy,
		"end:" + m.closedBy, "teardown:" + endMode,
	}
	if m.cancelClass != "" {
		cls = append(cls, "cancel:"+m.cancelClass)
	} else {
		cls = append(cls, "cancel:never")
	}
	if m.cancelOpen {
		switch {
		case m.absentAtCancel:
			cls = append(cls, "at-cancel:receiver-absent")
		case m.slowAtCancel:
			cls = append(cls, "at-cancel:receiver-behind")
		case m.pendAtCancel:
			cls = append(cls, "at-cancel:receiver-parked")
		default:
			cls = append(cls, "at-cancel:buffer-empty")
		}
		if nt && m.cancelClass != "explicit-mid" && m.cancelClass != "timer-mid" {
			cls = append(cls, "nontrivial-within-1ns-of-tick")
		}
	}
	if m.tieClass != "" {
		cls = append(cls, m.tieClass)
	}
	if m.dropped > 0 {
		cls = append(cls, "ticks-dropped")
	}
	if m.usedPend {
		cls = append(cls, "used-parked-receiver")
	}
	if m.received == m.count {
		cls = append(cls, "all-values-received")
	}
	st.Case(m.trace, nt, cls...)
}

func TestC20Attempt(t *testing.T) {
	st := vkit.For("c20_attempt")
	rapid.Check(t, func(t *rapid.T) {
		rapid.SyncTest(t, func(t *rapid.T) {
			c20Run(t, st)
		})
	})
}
