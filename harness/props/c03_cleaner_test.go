package props

// C03 (pure part) — the exported cleaner functions against an independently written
// specification, over every size and every multiset of offsets (negative, zero, below size,
// equal to size, beyond size, huge) and every (max, target) pair.

import (
	"fmt"
	"math"
	"testing"

	bigbuff "github.com/joeycumines/go-bigbuff"
	"pgregory.net/rapid"

	"verif/harness/vkit"
)

func c03SpecDefault(size int, offsets []int) int {
	have := false
	lowest := 0
	for _, o := range offsets {
		if o < 0 {
			continue // not an active consumer
		}
		if !have || o < lowest {
			have, lowest = true, o
		}
	}
	if !have {
		return 0 // nobody active: nothing may be removed
	}
	if lowest > size {
		return size
	}
	return lowest
}

func c03DrawCase(t *rapid.T) (int, []int, string) {
	size := rapid.OneOf(rapid.IntRange(0, 12), rapid.IntRange(0, 12), rapid.IntRange(0, 1<<20)).Draw(t, "size")
	n := rapid.IntRange(0, 8).Draw(t, "n")
	offsets := make([]int, n)
	kinds := map[string]bool{}
	for i := range offsets {
		switch rapid.IntRange(0, 6).Draw(t, "kind") {
		case 0:
			offsets[i] = -rapid.IntRange(1, 5).Draw(t, "neg")
			kinds["neg"] = true
		case 1:
			offsets[i] = 0
			kinds["zero"] = true
		case 2:
			offsets[i] = size
			kinds["eq"] = true
		case 3:
			offsets[i] = size + rapid.IntRange(1, 5).Draw(t, "beyond")
			kinds["beyond"] = true
		case 4:
			offsets[i] = rapid.SampledFrom([]int{math.MaxInt32, math.MaxInt64, math.MinInt64, math.MinInt32}).Draw(t, "huge")
			kinds["huge"] = true
		default:
			if size > 0 {
				offsets[i] = rapid.IntRange(0, size).Draw(t, "below")
			}
			kinds["in"] = true
		}
	}
	ks := ""
	for _, k := range []string{"neg", "zero", "eq", "beyond", "huge", "in"} {
		if kinds[k] {
			ks += k + ","
		}
	}
	return size, offsets, ks
}

func TestC03CleanerPure(t *testing.T) {
	st := vkit.For("c03_cleaner_pure")
	rapid.Check(t, func(t *rapid.T) {
		size, offsets, kinds := c03DrawCase(t)
		orig := append([]int(nil), offsets...)
		trace := []string{fmt.Sprintf("size=%d offsets=%v", size, offsets)}
		got := bigbuff.DefaultCleaner(size, offsets)
		want := c03SpecDefault(size, orig)
		if got != want {
			vkit.Fail(t, "C03/default-cleaner-value", "DefaultCleaner(%d, %v) = %d, specification says %d (lowest non-negative offset, 0 when no consumer is active, capped at size)", size, orig, got, want)
		}
		if got < 0 || got > size {
			vkit.Fail(t, "C03/default-cleaner-range", "DefaultCleaner(%d, %v) = %d outside [0,size]", size, orig, got)
		}
		if fmt.Sprint(offsets) != fmt.Sprint(orig) {
			vkit.Fail(t, "C03/default-cleaner-mutates", "DefaultCleaner modified its offsets argument: %v -> %v", orig, offsets)
		}
		// metamorphic: permutation and added negative offsets do not matter
		if len(orig) > 1 {
			perm := rapid.Permutation(orig).Draw(t, "perm")
			if g2 := bigbuff.DefaultCleaner(size, perm); g2 != got {
				vkit.Fail(t, "C03/default-cleaner-order", "DefaultCleaner depends on the order of offsets: %v -> %d, %v -> %d", orig, got, perm, g2)
			}
		}
		withNeg := append(append([]int(nil), orig...), -1, math.MinInt64)
		if g3 := bigbuff.DefaultCleaner(size, withNeg); g3 != got {
			vkit.Fail(t, "C03/default-cleaner-negative", "adding inactive (negative) offsets changed the result: %d -> %d for %v", got, g3, withNeg)
		}

		// FixedBufferCleaner
		max := rapid.IntRange(-2, 14).Draw(t, "max")
		target := rapid.IntRange(-2, 16).Draw(t, "target")
		withCB := rapid.Bool().Draw(t, "withCB")
		var notes []bigbuff.FixedBufferCleanerNotification
		var cb func(bigbuff.FixedBufferCleanerNotification)
		if withCB {
			cb = func(n bigbuff.FixedBufferCleanerNotification) { notes = append(notes, n) }
		}
		trace = append(trace, fmt.Sprintf("fixed(max=%d,target=%d,cb=%v)", max, target, withCB))
		fc := bigbuff.FixedBufferCleaner(max, target, cb)
		in := append([]int(nil), orig...)
		res, pv := vkit.Call(func() any { return fc(size, in) })
		if pv != nil {
			vkit.Fail(t, "C03/fixed-cleaner-panic", "FixedBufferCleaner(%d,%d)(%d,%v) panicked: %v", max, target, size, orig, pv)
		}
		gotF := res.(int)
		if size > max {
			if gotF != size-target {
				vkit.Fail(t, "C03/fixed-cleaner-trim", "FixedBufferCleaner(%d,%d)(%d,%v) = %d, must trim size-target = %d", max, target, size, orig, gotF, size-target)
			}
			if withCB {
				if len(notes) != 1 {
					vkit.Fail(t, "C03/fixed-cleaner-callback", "forced trim called the callback %d times", len(notes))
				}
				n := notes[0]
				if n.Max != max || n.Target != target || n.Size != size || n.Trim != size-target || fmt.Sprint(n.Offsets) != fmt.Sprint(orig) {
					vkit.Fail(t, "C03/fixed-cleaner-callback", "notification %+v does not describe max=%d target=%d size=%d offsets=%v trim=%d", n, max, target, size, orig, size-target)
				}
			}
		} else {
			if gotF != want {
				vkit.Fail(t, "C03/fixed-cleaner-default", "FixedBufferCleaner(%d,%d)(%d,%v) = %d, below max it must behave as DefaultCleaner = %d", max, target, size, orig, gotF, want)
			}
			if len(notes) != 0 {
				vkit.Fail(t, "C03/fixed-cleaner-callback", "callback invoked without a forced trim")
			}
		}
		nKinds := 0
		for _, k := range []string{"neg", "zero", "eq", "beyond", "huge"} {
			if len(kinds) > 0 && containsTok(kinds, k) {
				nKinds++
			}
		}
		cls := []string{"kinds:" + kinds}
		if size > max {
			cls = append(cls, "forced-trim")
		}
		st.Case(trace, nKinds >= 2, cls...)
	})
}

func containsTok(list, tok string) bool {
	for len(list) > 0 {
		i := 0
		for i < len(list) && list[i] != ',' {
			i++
		}
		if list[:i] == tok {
			return true
		}
		if i < len(list) {
			i++
		}
		list = list[i:]
	}
	return false
}
