//go:build go1.25

package props

// chanlin — linearizability of bigbuff.Channel under concurrent Get/Commit/Rollback/Buffer/Close (C13) and of
// a Buffer consumer shared by several goroutines (C02), decided by porcupine over recorded histories.
//
// Programs run free in a synctest bubble (virtual poll time): 2-4 goroutines, each a drawn script; the source
// is fed by a feeder whose sends are operations of the history too. The sequential specification is the model
// of chanstep: (sent, taken, committed, replay, closed). An error from Get is admissible only when its own
// context had been cancelled by the time it returned, or the Channel is closed in the model.

import (
	"context"
	"fmt"
	"os"
	"runtime"
	"strings"
	"sync"
	"sync/atomic"
	"testing"
	"time"

	"github.com/anishathalye/porcupine"
	bigbuff "github.com/joeycumines/go-bigbuff"
	"pgregory.net/rapid"

	"verif/harness/vkit"
)

type clState struct {
	sent, k, c, r int
	closed        bool
}

type clIn struct {
	op        string // "send" | "get" | "commit" | "rollback" | "buffer" | "close"
	ctxCancel bool   // get: its context was cancelled before it returned
}

type clOut struct {
	val int   // get
	err bool  // get/commit/rollback/close
	buf []int // buffer
}

var clModel = porcupine.Model{
	Init: func() interface{} { return clState{} },
	Step: func(st, in, out interface{}) (bool, interface{}) {
		s, i, o := st.(clState), in.(clIn), out.(clOut)
		switch i.op {
		case "send":
			s.sent++
			return true, s
		case "get":
			if o.err {
				return s.closed || i.ctxCancel, s
			}
			if s.closed {
				return false, s
			}
			if s.r > 0 {
				ok := o.val == s.k-s.r+1
				s.r--
				return ok, s
			}
			if s.k >= s.sent {
				return false, s
			}
			s.k++
			return o.val == s.k, s
		case "commit":
			pend := (s.k - s.c) - s.r
			if s.closed || pend == 0 {
				return o.err, s
			}
			s.c += pend
			return !o.err, s
		case "rollback":
			pend := (s.k - s.c) - s.r
			if pend == 0 {
				return o.err, s
			}
			s.r += pend
			return !o.err, s
		case "buffer":
			if len(o.buf) != s.k-s.c {
				return false, s
			}
			for j, v := range o.buf {
				if v != s.c+j+1 {
					return false, s
				}
			}
			return true, s
		case "close":
			if s.closed {
				return o.err, s
			}
			s.closed = true
			return !o.err, s
		}
		return false, s
	},
	Equal: func(a, b interface{}) bool { return a.(clState) == b.(clState) },
	DescribeOperation: func(in, out interface{}) string {
		i, o := in.(clIn), out.(clOut)
		return fmt.Sprintf("%s(cancelled=%v)->{val=%d err=%v buf=%v}", i.op, i.ctxCancel, o.val, o.err, o.buf)
	},
}

func TestChanLin(t *testing.T) {
	prof := os.Getenv("VKIT_PROFILE")
	st := vkit.For("chanlin_" + prof)
	rapid.Check(t, func(t *rapid.T) {
		nG := rapid.IntRange(2, 4).Draw(t, "goroutines")
		capacity := rapid.SampledFrom([]int{0, 1, 4, 16}).Draw(t, "cap")
		prefill := 0
		if capacity > 0 {
			prefill = rapid.IntRange(0, capacity).Draw(t, "prefill")
		}
		feed := rapid.IntRange(0, 8).Draw(t, "feed")
		rate := rapid.SampledFrom([]time.Duration{50 * time.Microsecond, time.Millisecond}).Draw(t, "rate")
		scripts := make([][]string, nG)
		total := 0
		for g := range scripts {
			n := rapid.IntRange(1, 9).Draw(t, "len")
			for j := 0; j < n; j++ {
				scripts[g] = append(scripts[g], rapid.SampledFrom([]string{"get", "get", "get", "get", "commit", "rollback", "rollback", "buffer", "close", "yield"}).Draw(t, "op"))
			}
			total += n
		}
		// at most one Close in the first half of a program keeps most histories interesting
		trace := []string{fmt.Sprintf("cap=%d prefill=%d feed=%d rate=%v scripts=%v", capacity, prefill, feed, rate, scripts)}
		vkit.CaseStart(func() string { return strings.Join(trace, " ; ") })

		var (
			clock   atomic.Int64
			mu      sync.Mutex
			ops     []porcupine.Operation
			panics  []string
			closeOv atomic.Bool
		)
		record := func(client int, in clIn, call int64, out clOut) {
			ret := clock.Add(1)
			mu.Lock()
			ops = append(ops, porcupine.Operation{ClientId: client, Input: in, Call: call, Output: out, Return: ret})
			mu.Unlock()
		}
		rapid.SyncTest(t, func(t *rapid.T) {
			src := make(chan int, capacity)
			sent := 0
			for i := 0; i < prefill; i++ {
				sent++
				call := clock.Add(1)
				src <- sent
				record(100, clIn{op: "send"}, call, clOut{})
			}
			ch, err := bigbuff.NewChannel(nil, rate, src)
			if err != nil {
				t.Fatalf("harness: %v", err)
			}
			quit := make(chan struct{})
			var wg, fw sync.WaitGroup
			fw.Add(1)
			go func() {
				defer fw.Done()
				for i := 0; i < feed; i++ {
					sent++
					call := clock.Add(1)
					select {
					case src <- sent:
						record(100, clIn{op: "send"}, call, clOut{})
					case <-quit:
						return
					}
					runtime.Gosched()
				}
			}()
			var getsInFlight atomic.Int64
			for g := range scripts {
				wg.Add(1)
				go func(g int) {
					defer wg.Done()
					defer func() {
						if r := recover(); r != nil {
							mu.Lock()
							panics = append(panics, fmt.Sprint(r))
							mu.Unlock()
						}
					}()
					for _, op := range scripts[g] {
						switch op {
						case "yield":
							runtime.Gosched()
						case "get":
							ctx, cancel := context.WithTimeout(context.Background(), 3*rate)
							getsInFlight.Add(1)
							call := clock.Add(1)
							v, err := ch.Get(ctx)
							cancelled := ctx.Err() != nil
							getsInFlight.Add(-1)
							iv, _ := v.(int)
							record(g, clIn{op: "get", ctxCancel: cancelled}, call, clOut{val: iv, err: err != nil})
							cancel()
						case "commit":
							call := clock.Add(1)
							err := ch.Commit()
							record(g, clIn{op: "commit"}, call, clOut{err: err != nil})
						case "rollback":
							call := clock.Add(1)
							err := ch.Rollback()
							record(g, clIn{op: "rollback"}, call, clOut{err: err != nil})
						case "buffer":
							call := clock.Add(1)
							b := ch.Buffer()
							var ib []int
							for _, x := range b {
								iv, _ := x.(int)
								ib = append(ib, iv)
							}
							record(g, clIn{op: "buffer"}, call, clOut{buf: ib})
						case "close":
							if getsInFlight.Load() > 0 {
								closeOv.Store(true)
							}
							call := clock.Add(1)
							err := ch.Close()
							record(g, clIn{op: "close"}, call, clOut{err: err != nil})
						}
					}
				}(g)
			}
			wg.Wait()
			close(quit)
			fw.Wait()
			_ = ch.Close()
			time.Sleep(time.Second)
		})
		if len(panics) > 0 {
			vkit.Fail(t, "C13/panic", "panic in a concurrent Channel program: %v\ncase: %v", panics, trace)
		}
		res := porcupine.CheckOperationsTimeout(clModel, ops, 20*time.Second)
		if res == porcupine.Unknown {
			st.Exclude("porcupine-timeout")
			st.Case(trace, false, "checker-timeout")
			return
		}
		if res != porcupine.Ok {
			var hist []string
			for _, o := range ops {
				hist = append(hist, fmt.Sprintf("[%d..%d c%d %s]", o.Call, o.Return, o.ClientId, clModel.DescribeOperation(o.Input, o.Output)))
			}
			vkit.Fail(t, "C13/not-linearizable", "the recorded history of concurrent Get/Commit/Rollback/Buffer/Close calls has no sequential explanation consistent with real time\ncase: %v\nhistory: %s", trace, strings.Join(hist, " "))
		}
		overlap := false
		for i, a := range ops {
			for _, b := range ops[i+1:] {
				if a.ClientId != b.ClientId && a.ClientId != 100 && b.ClientId != 100 && a.Call < b.Return && b.Call < a.Return {
					overlap = true
				}
			}
		}
		cls := []string{fmt.Sprintf("goroutines:%d", nG)}
		if overlap {
			cls = append(cls, "ops-overlapped")
		}
		if closeOv.Load() {
			cls = append(cls, "close-overlapping-get")
		}
		st.Case(trace, overlap && len(ops) >= 6, cls...)
	})
}

// ---------------------------------------------------------------------------------------------
// A Buffer consumer shared by several goroutines (C02): linearizability of Get/Commit/Rollback/Diff
// against the sequential (put, committed, uncommitted) model, with concurrent Puts as operations.

type slState struct {
	n, committed, delta int
	closed              bool // Close has taken effect (it may still be waiting for uncommitted reads)
}

type slIn struct {
	op string // "put" | "get" | "commit" | "rollback" | "diff"
	k  int
}

type slOut struct {
	val int
	err bool
}

var slModel = porcupine.Model{
	Init: func() interface{} { return slState{} },
	Step: func(st, in, out interface{}) (bool, interface{}) {
		s, i, o := st.(slState), in.(slIn), out.(slOut)
		switch i.op {
		case "put":
			s.n += i.k
			return !o.err, s
		case "get":
			if o.err {
				return s.closed, s // a Get may only fail once the consumer is being closed
			}
			if s.closed || s.committed+s.delta >= s.n {
				return false, s
			}
			ok := o.val == s.committed+s.delta+1
			s.delta++
			return ok, s
		case "close-begin":
			// the instant at which a concurrent Close takes effect (reads fail from then on); Close itself returns
			// later, once nothing is uncommitted (checked outside the model)
			s.closed = true
			return true, s
		case "commit":
			if s.delta == 0 {
				return o.err, s
			}
			s.committed += s.delta
			s.delta = 0
			return !o.err, s
		case "rollback":
			if s.delta == 0 {
				return o.err, s
			}
			s.delta = 0
			return !o.err, s
		case "diff":
			if o.err {
				return s.closed, s // not registered any more: only after the close
			}
			return o.val == s.n-(s.committed+s.delta), s
		}
		return false, s
	},
	Equal: func(a, b interface{}) bool { return a.(slState) == b.(slState) },
	DescribeOperation: func(in, out interface{}) string {
		i, o := in.(slIn), out.(slOut)
		return fmt.Sprintf("%s(%d)->{val=%d err=%v}", i.op, i.k, o.val, o.err)
	},
}

func TestConsLin(t *testing.T) {
	st := vkit.For("conslin")
	rapid.Check(t, func(t *rapid.T) {
		nG := rapid.IntRange(2, 3).Draw(t, "goroutines")
		scripts := make([][]string, nG)
		gets := 0
		for g := range scripts {
			n := rapid.IntRange(1, 8).Draw(t, "len")
			for j := 0; j < n; j++ {
				op := rapid.SampledFrom([]string{"get", "get", "get", "commit", "rollback", "rollback", "diff", "yield"}).Draw(t, "op")
				if op == "get" {
					gets++
				}
				scripts[g] = append(scripts[g], op)
			}
		}
		// the producer puts at least as many values as there are Gets, so no Get can block forever
		// (a blocked Get holds the consumer's lock; everybody else on that consumer waits behind it)
		var batches []int
		for left := gets; left > 0 || len(batches) == 0; {
			k := rapid.IntRange(1, 3).Draw(t, "batch")
			batches = append(batches, k)
			left -= k
		}
		cooldown := rapid.SampledFrom([]time.Duration{0, 50 * time.Microsecond}).Draw(t, "cooldown")
		prodYield := rapid.IntRange(0, 3).Draw(t, "prodYield")
		// in a third of the cases the consumer is closed by yet another goroutine while the scripts are running
		closeAfter := -1
		if rapid.IntRange(0, 2).Draw(t, "withClose") == 0 {
			closeAfter = rapid.IntRange(0, 12).Draw(t, "closeAfterYields")
		}
		trace := []string{fmt.Sprintf("scripts=%v batches=%v cooldown=%v prodYield=%d closeAfter=%d", scripts, batches, cooldown, prodYield, closeAfter)}
		vkit.CaseStart(func() string { return strings.Join(trace, " ; ") })
		var (
			clock    atomic.Int64
			mu       sync.Mutex
			ops      []porcupine.Operation
			panics   []string
			closeErr string
		)
		record := func(client int, in slIn, call int64, out slOut) {
			ret := clock.Add(1)
			mu.Lock()
			ops = append(ops, porcupine.Operation{ClientId: client, Input: in, Call: call, Output: out, Return: ret})
			mu.Unlock()
		}
		rapid.SyncTest(t, func(t *rapid.T) {
			b := new(bigbuff.Buffer)
			_ = b.SetCleanerConfig(bigbuff.CleanerConfig{Cleaner: bigbuff.DefaultCleaner, Cooldown: cooldown})
			c, err := b.NewConsumer()
			if err != nil {
				t.Fatalf("harness: %v", err)
			}
			var wg sync.WaitGroup
			guard := func() {
				if r := recover(); r != nil {
					mu.Lock()
					panics = append(panics, fmt.Sprint(r))
					mu.Unlock()
				}
			}
			wg.Add(1)
			go func() {
				defer wg.Done()
				defer guard()
				next := 0
				for _, k := range batches {
					for i := 0; i < prodYield; i++ {
						runtime.Gosched()
					}
					vals := make([]any, k)
					for i := range vals {
						next++
						vals[i] = next
					}
					call := clock.Add(1)
					err := b.Put(context.Background(), vals...)
					record(100, slIn{op: "put", k: k}, call, slOut{err: err != nil})
				}
			}()
			for g := range scripts {
				wg.Add(1)
				go func(g int) {
					defer wg.Done()
					defer guard()
					for _, op := range scripts[g] {
						call := clock.Add(1)
						switch op {
						case "yield":
							runtime.Gosched()
						case "get":
							v, err := c.Get(context.Background())
							iv, _ := v.(int)
							record(g, slIn{op: "get"}, call, slOut{val: iv, err: err != nil})
						case "commit":
							err := c.Commit()
							record(g, slIn{op: "commit"}, call, slOut{err: err != nil})
						case "rollback":
							err := c.Rollback()
							record(g, slIn{op: "rollback"}, call, slOut{err: err != nil})
						case "diff":
							d, ok := b.Diff(c)
							record(g, slIn{op: "diff"}, call, slOut{val: d, err: !ok})
						}
					}
				}(g)
			}
			closeDone := make(chan error, 1)
			if closeAfter >= 0 {
				go func() {
					defer guard()
					for i := 0; i < closeAfter; i++ {
						runtime.Gosched()
					}
					call := clock.Add(1)
					err := c.Close() // waits until nothing is uncommitted
					record(200, slIn{op: "close-begin"}, call, slOut{})
					closeDone <- err
				}()
			}
			wg.Wait()
			_ = c.Rollback() // releases a Close that waits for uncommitted reads
			if closeAfter >= 0 {
				if err := <-closeDone; err != nil {
					closeErr = fmt.Sprintf("the only Close call returned %v", err)
				}
				select {
				case <-c.Done():
				default:
					closeErr = "Done is not closed after Close returned"
				}
				if _, ok := b.Diff(c); ok {
					closeErr = "Diff still reports the consumer as registered after Close returned"
				}
			} else {
				_ = c.Close()
			}
			_ = b.Close()
			time.Sleep(time.Hour)
		})
		if closeErr != "" {
			vkit.Fail(t, "C12/shared-consumer-close", "%s\ncase: %v", closeErr, trace)
		}
		if len(panics) > 0 {
			vkit.Fail(t, "C02/panic", "panic while several goroutines share one consumer: %v\ncase: %v", panics, trace)
		}
		// C01 on a shared consumer: no value is skipped — a Get may return v only if some Get that could have come
		// before it (called before this one returned) returned v-1
		for _, g := range ops {
			in, out := g.Input.(slIn), g.Output.(slOut)
			if in.op != "get" || out.err || out.val <= 1 {
				continue
			}
			ok := false
			for _, h := range ops {
				hi, ho := h.Input.(slIn), h.Output.(slOut)
				if hi.op == "get" && !ho.err && ho.val == out.val-1 && h.Call < g.Return {
					ok = true
					break
				}
			}
			if !ok {
				var hist []string
				for _, o := range ops {
					hist = append(hist, fmt.Sprintf("[%d..%d c%d %s]", o.Call, o.Return, o.ClientId, slModel.DescribeOperation(o.Input, o.Output)))
				}
				vkit.Fail(t, "C01+C02/shared-consumer-gap", "a Get on the shared consumer returned %d although no Get had returned %d before: a value of the put order was skipped\ncase: %v\nhistory: %s", out.val, out.val-1, trace, strings.Join(hist, " "))
			}
		}
		res := porcupine.CheckOperationsTimeout(slModel, ops, 20*time.Second)
		if res == porcupine.Unknown {
			st.Exclude("porcupine-timeout")
			st.Case(trace, false, "checker-timeout")
			return
		}
		if res != porcupine.Ok {
			var hist []string
			for _, o := range ops {
				hist = append(hist, fmt.Sprintf("[%d..%d c%d %s]", o.Call, o.Return, o.ClientId, slModel.DescribeOperation(o.Input, o.Output)))
			}
			vkit.Fail(t, "C02/shared-consumer-not-linearizable", "the history of Get/Commit/Rollback/Diff calls by several goroutines on one consumer (plus concurrent Puts) has no sequential explanation consistent with real time\ncase: %v\nhistory: %s", trace, strings.Join(hist, " "))
		}
		overlap := false
		for i, a := range ops {
			for _, b := range ops[i+1:] {
				if a.ClientId != b.ClientId && a.ClientId != 100 && b.ClientId != 100 && a.Call < b.Return && b.Call < a.Return {
					overlap = true
				}
			}
		}
		cls := []string{fmt.Sprintf("goroutines:%d", nG)}
		if overlap {
			cls = append(cls, "ops-overlapped")
		}
		if closeAfter >= 0 {
			cls = append(cls, "concurrent-close")
		}
		st.Case(trace, overlap, cls...)
	})
}
