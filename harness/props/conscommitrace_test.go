package props

// conscommitrace — a race lane for two resolutions of the same uncommitted reads (C02, C12): a consumer has read k
// values; two goroutines, released by one spin barrier with sweeping offsets, call Commit and Commit (or Commit and
// Rollback) on it, while the Buffer's lock is kept busy (a cleaner that spins for a drawn while inside its pass, an
// observer polling Size/Slice). In every order of the two calls exactly one of them finds something to resolve: one
// returns nil, the other the "nothing to …" error. Afterwards the consumer continues at the right place (Commit won:
// the next value; Rollback won: the first of the k again), Close of the consumer and of the Buffer return, and a
// second Close fails. A Close that never returns is the stall watchdog's business.

import (
	"context"
	"fmt"
	"runtime"
	"strings"
	"sync"
	"sync/atomic"
	"testing"

	bigbuff "github.com/joeycumines/go-bigbuff"
	"pgregory.net/rapid"

	"verif/harness/vkit"
)

func TestConsCommitRace(t *testing.T) {
	st := vkit.For("conscommitrace")
	rapid.Check(t, func(t *rapid.T) {
		rounds := rapid.SampledFrom([]int{40, 120, 300}).Draw(t, "rounds")
		k := rapid.IntRange(1, 4).Draw(t, "uncommitted")
		second := rapid.SampledFrom([]string{"commit", "commit", "rollback"}).Draw(t, "second")
		cleanerSpin := rapid.SampledFrom([]int{0, 50, 500, 5000}).Draw(t, "cleanerSpin")
		observer := rapid.Bool().Draw(t, "observer")
		offA := rapid.IntRange(0, 127).Draw(t, "offA")
		offB := rapid.IntRange(0, 127).Draw(t, "offB")
		trace := []string{fmt.Sprintf("rounds=%d uncommitted=%d second=%s cleanerSpin=%d observer=%v offsets=%d/%d", rounds, k, second, cleanerSpin, observer, offA, offB)}
		vkit.CaseStart(func() string { return strings.Join(trace, " ; ") })
		ctx := context.Background()
		var dummy atomic.Int64
		spin := func(n int) {
			for i := 0; i < n; i++ {
				_ = dummy.Load()
			}
		}
		b := new(bigbuff.Buffer)
		if err := b.SetCleanerConfig(bigbuff.CleanerConfig{Cooldown: 0, Cleaner: func(size int, offsets []int) int {
			spin(cleanerSpin) // (called with the Buffer's write lock held)
			return bigbuff.DefaultCleaner(size, offsets)
		}}); err != nil {
			t.Fatalf("harness: %v", err)
		}
		var stop atomic.Bool
		var ow sync.WaitGroup
		if observer {
			ow.Add(1)
			go func() {
				defer ow.Done()
				for !stop.Load() {
					_ = b.Size()
					_ = b.Slice()
					runtime.Gosched()
				}
			}()
		}
		finish := func() {
			stop.Store(true)
			ow.Wait()
		}
		c, err := b.NewConsumer()
		if err != nil {
			finish()
			t.Fatalf("harness: %v", err)
		}
		next := 0 // the next value the consumer has not resolved as committed
		put := 0
		fail := func(sig, f string, a ...any) {
			finish()
			vkit.Fail(t, sig, "%s\ncase: %v", fmt.Sprintf(f, a...), trace)
		}
		for r := 0; r < rounds; r++ {
			for put < next+k {
				if err := b.Put(ctx, put); err != nil {
					fail("C01/put-error", "Put failed: %v", err)
				}
				put++
			}
			for i := 0; i < k; i++ {
				if v, err := c.Get(ctx); err != nil || v != any(next+i) {
					fail("C01+C02/get-value", "round %d: Get returned (%v,%v), expected %d", r, v, err, next+i)
				}
			}
			var goNow atomic.Bool
			var ready, wg sync.WaitGroup
			var errA, errB error
			party := func(off int, f func()) {
				ready.Add(1)
				wg.Add(1)
				go func() {
					defer wg.Done()
					ready.Done()
					for n := 1; !goNow.Load(); n++ {
						if n&0x3fff == 0 {
							runtime.Gosched()
						}
					}
					spin(off)
					f()
				}()
			}
			party((offA+r*7)%128, func() { errA = c.Commit() })
			if second == "commit" {
				party((offB+r*13)%128, func() { errB = c.Commit() })
			} else {
				party((offB+r*13)%128, func() { errB = c.Rollback() })
			}
			ready.Wait()
			goNow.Store(true)
			wg.Wait()
			switch {
			case errA == nil && errB == nil:
				fail("C02+C12/double-resolution", "round %d: %d uncommitted reads were resolved twice: Commit returned nil and the concurrent %s returned nil too (whichever ran second had nothing left to resolve)", r, k, second)
			case errA != nil && errB != nil:
				fail("C02/commit-error", "round %d: %d uncommitted reads, yet Commit returned %v and the concurrent %s returned %v", r, k, errA, second, errB)
			}
			if second == "commit" || errA == nil {
				next += k // committed
			}
			if second == "rollback" && errB == nil {
				// rolled back: the same values come again (checked by the Gets of the next round)
			}
		}
		if err := c.Close(); err != nil {
			fail("C12/close-error", "consumer Close returned %v", err)
		}
		if err := b.Close(); err != nil {
			fail("C12/close-error", "Buffer Close returned %v", err)
		}
		<-b.Done()
		if b.Close() == nil {
			fail("C12/second-close-nil", "the second Close returned nil")
		}
		finish()
		st.Case(trace, cleanerSpin > 0, "second:"+second)
	})
}
