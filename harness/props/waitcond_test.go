//go:build go1.25

package props

// waitcondstep — bigbuff.WaitCond driven directly (C05: never a lost wake-up, nil only after the predicate
// held under the lock, ctx error otherwise even if nobody broadcasts; C12: its watcher goroutine never
// outlives the call, whatever context it was given).

import (
	"context"
	"errors"
	"fmt"
	"os"
	"runtime"
	"strings"
	"sync"
	"sync/atomic"
	"testing"
	"testing/synctest"
	"time"

	bigbuff "github.com/joeycumines/go-bigbuff"
	"pgregory.net/rapid"

	"verif/harness/vkit"
)

type wcWaiter struct {
	id         int
	kind       string
	ctx        context.Context
	op         *vkit.Op
	cancel     context.CancelFunc
	deadline   time.Time
	hasDL      bool
	ctxDone    bool // model: ctx cancelled / expired
	lastEval   int  // -1 none, 0 false, 1 true (written by the predicate, under the lock)
	evals      int
	unlocked   bool // predicate observed the lock not held
	done       bool
	watcher    bool        // started with a live, non-nil context: a watcher goroutine exists while the call runs
	fresh      bool        // started in the current step
	cancelInFn atomic.Bool // the next evaluation of the predicate cancels the waiter's context itself
}

func TestWaitCondStep(t *testing.T) {
	prof := os.Getenv("VKIT_PROFILE")
	st := vkit.For("waitcond_" + prof)
	rapid.Check(t, func(t *rapid.T) {
		rapid.SyncTest(t, func(t *rapid.T) {
			var (
				mu      sync.Mutex
				cond    = sync.NewCond(&mu)
				ready   bool
				waiters []*wcWaiter
				trace   []string
				// classification
				wokeBlocked  bool
				silentCancel bool
				bgWaiter     bool
			)
			vkit.CaseStart(func() string { return strings.Join(trace, " ; ") })
			tr := func(f string, a ...any) { trace = append(trace, fmt.Sprintf(f, a...)) }
			release := func() {
				for _, w := range waiters {
					if w.cancel != nil {
						w.cancel()
					}
				}
				mu.Lock()
				ready = true
				cond.Broadcast()
				mu.Unlock()
			}
			fail := func(sig, f string, a ...any) {
				t.Helper()
				msg := fmt.Sprintf("%s\ntrace: %s", fmt.Sprintf(f, a...), strings.Join(trace, " ; "))
				vkit.Announce(sig, "%s", msg)
				release()
				t.Fatalf("[%s] %s", sig, msg)
			}
			defer func() {
				if r := recover(); r != nil {
					release()
					panic(r)
				}
			}()
			// every parked waiter re-evaluates the predicate after a broadcast
			var check func(broadcast bool)
			check = func(broadcast bool) {
				synctest.Wait()
				now := time.Now()
				for _, w := range waiters {
					if w.done {
						continue
					}
					if w.hasDL && !now.Before(w.deadline) {
						w.ctxDone = true
					}
				}
				// a context ending broadcasts to everybody
				for _, w := range waiters {
					if !w.done && w.ctxDone && w.watcher {
						broadcast = true
					}
				}
				for _, w := range waiters {
					if w.done {
						continue
					}
					if w.unlocked {
						fail("C05/predicate-without-lock", "the predicate of waiter %d ran without the cond's lock held", w.id)
					}
					mustReturn := w.ctxDone || (broadcast && ready) || (w.fresh && ready) || w.lastEval == 1
					w.fresh = false
					if w.op.Finished() {
						if w.op.Panic != nil {
							fail("C05/waitcond-panic", "WaitCond (waiter %d) panicked: %v", w.id, w.op.Panic)
						}
						w.done = true
						err, _ := w.op.Res.(error)
						if err == nil {
							if w.lastEval != 1 {
								fail("C05/nil-without-predicate", "WaitCond (waiter %d, ctx %s) returned nil although its predicate never returned true (last evaluation %d)", w.id, w.kind, w.lastEval)
							}
						} else {
							if !w.ctxDone {
								fail("C05/error-without-cancel", "WaitCond (waiter %d, ctx %s) returned %v although its context is live", w.id, w.kind, err)
							}
							if w.ctx != nil && err != w.ctx.Err() {
								fail("C05/not-the-contexts-error", "WaitCond (waiter %d, ctx %s) returned %v; the context's error is %v", w.id, w.kind, err, w.ctx.Err())
							}
						}
						tr("w%d=%v", w.id, err)
						continue
					}
					if mustReturn {
						sig := "C05/waitcond-lost-wakeup"
						if w.ctxDone {
							sig = "C05+C12/waitcond-lost-wakeup" // a cancellation that does not end the call (and its goroutines)
						}
						fail(sig, "WaitCond (waiter %d, ctx %s) still blocked at quiescence: ctxDone=%v ready=%v broadcast=%v", w.id, w.kind, w.ctxDone, ready, broadcast)
					}
				}
			}
			start := func(kind string, d time.Duration, withCause bool) {
				w := &wcWaiter{id: len(waiters), kind: kind, lastEval: -1}
				var ctx context.Context
				switch kind {
				case "nil":
				case "background":
					ctx = context.Background()
					bgWaiter = true
				case "cancellable":
					if withCause {
						c, cf := context.WithCancelCause(context.Background())
						ctx, w.cancel = c, func() { cf(errors.New("waitcond: a cause, not the context's error")) }
					} else {
						ctx, w.cancel = context.WithCancel(context.Background())
					}
				case "cancelled":
					var c context.CancelFunc
					ctx, c = context.WithCancel(context.Background())
					c()
					w.ctxDone = true
				case "deadline":
					if withCause {
						ctx, w.cancel = context.WithTimeoutCause(context.Background(), d, errors.New("waitcond: the deadline's cause, not the context's error"))
					} else {
						ctx, w.cancel = context.WithTimeout(context.Background(), d)
					}
					w.deadline, w.hasDL = time.Now().Add(d), true
				}
				w.ctx = ctx
				w.watcher = kind == "background" || kind == "cancellable" || kind == "deadline"
				w.fresh = true
				waiters = append(waiters, w)
				w.op = vkit.Launch("WaitCond", func() any {
					mu.Lock()
					defer mu.Unlock()
					return bigbuff.WaitCond(ctx, cond, func() bool {
						if mu.TryLock() {
							mu.Unlock()
							w.unlocked = true
						}
						w.evals++
						if w.cancelInFn.CompareAndSwap(true, false) {
							// the cancellation lands while the predicate runs (the lock is held): its wake-up must not be
							// spent before this call parks
							w.cancel()
							for i := 0; i < 50; i++ {
								runtime.Gosched()
							}
						}
						if ready {
							w.lastEval = 1
						} else {
							w.lastEval = 0
						}
						return ready
					})
				})
				tr("w%d:start(%s)", w.id, kind)
				check(false)
			}
			t.Repeat(vkit.NoStarve(map[string]func(*rapid.T){
				"start": func(t *rapid.T) {
					if len(waiters) >= 5 {
						t.Skip("enough")
					}
					kind := rapid.SampledFrom([]string{"nil", "background", "cancellable", "cancellable", "cancelled", "deadline"}).Draw(t, "kind")
					start(kind, time.Duration(rapid.IntRange(1, 5).Draw(t, "dl"))*time.Millisecond, rapid.IntRange(0, 2).Draw(t, "withCause") == 0)
				},
				"set": func(t *rapid.T) {
					v := rapid.Bool().Draw(t, "v")
					b := rapid.Bool().Draw(t, "bcast")
					parked := 0
					for _, w := range waiters {
						if !w.done {
							parked++
						}
					}
					mu.Lock()
					ready = v
					if b {
						cond.Broadcast()
					}
					mu.Unlock()
					if b && v && parked > 0 {
						wokeBlocked = true
					}
					tr("set(%v,bcast=%v)", v, b)
					check(b)
				},
				"cancel": func(t *rapid.T) {
					var c []*wcWaiter
					for _, w := range waiters {
						if !w.done && w.cancel != nil && !w.ctxDone {
							c = append(c, w)
						}
					}
					if len(c) == 0 {
						t.Skip("nothing to cancel")
					}
					w := c[rapid.IntRange(0, len(c)-1).Draw(t, "which")]
					w.ctxDone = true
					w.cancel()
					wokeBlocked = true
					silentCancel = true
					tr("cancel(w%d)", w.id)
					check(false)
				},
				"cancelInPredicate": func(t *rapid.T) {
					var c []*wcWaiter
					for _, w := range waiters {
						if !w.done && w.cancel != nil && !w.ctxDone {
							c = append(c, w)
						}
					}
					if len(c) == 0 || ready {
						t.Skip("nobody to cancel from inside the predicate")
					}
					w := c[rapid.IntRange(0, len(c)-1).Draw(t, "which")]
					w.ctxDone = true
					w.cancelInFn.Store(true)
					wokeBlocked = true
					mu.Lock()
					cond.Broadcast() // every parked waiter evaluates its predicate again (still false)
					mu.Unlock()
					tr("cancelInPredicate(w%d)", w.id)
					check(false)
					if w.cancelInFn.Load() {
						fail("C05/predicate-not-reevaluated", "waiter %d did not evaluate its predicate after a broadcast", w.id)
					}
				},
				"advance": func(t *rapid.T) {
					d := time.Duration(rapid.IntRange(1, 3).Draw(t, "ms")) * time.Millisecond
					time.Sleep(d)
					tr("advance(%v)", d)
					check(false)
				},
			}, nil))
			// argument validation never blocks or panics
			if err := bigbuff.WaitCond(context.Background(), nil, func() bool { return true }); err == nil {
				fail("C05/nil-cond", "WaitCond(nil cond) returned nil")
			}
			if err := bigbuff.WaitCond(context.Background(), &sync.Cond{}, func() bool { return true }); err == nil {
				fail("C05/nil-locker", "WaitCond(cond without locker) returned nil")
			}
			if err := bigbuff.WaitCond(context.Background(), cond, nil); err == nil {
				fail("C05/nil-fn", "WaitCond(nil fn) returned nil")
			}
			// teardown: everybody returns; contexts are cancelled only AFTER the calls returned where possible,
			// so that a watcher that outlives its call (waiting for a context nobody cancels) is exposed
			mu.Lock()
			ready = true
			cond.Broadcast()
			mu.Unlock()
			tr("teardown")
			check(true)
			for _, w := range waiters {
				if !w.done {
					fail("C05/waitcond-lost-wakeup", "waiter %d still blocked after ready+broadcast", w.id)
				}
			}
			synctest.Wait()
			if left := vkit.BubbleOthers(); len(left) != 0 {
				fail("C12+C05/waitcond-goroutine-leak", "%d goroutine(s) outlive their WaitCond call (contexts not yet cancelled):\n%s", len(left), vkit.DescribeGoroutines(left))
			}
			for _, w := range waiters {
				if w.cancel != nil {
					w.cancel()
				}
			}
			time.Sleep(time.Second)
			synctest.Wait()
			nt := wokeBlocked
			if prof == "C12" {
				nt = bgWaiter && len(waiters) >= 2
			}
			var cls []string
			if silentCancel {
				cls = append(cls, "cancel-without-broadcast")
			}
			if bgWaiter {
				cls = append(cls, "background-ctx-waiter")
			}
			st.Case(trace, nt, cls...)
		})
	})
}
