//go:build go1.25

package props

// Two more concurrent engines for bigbuff.Channel (C13):
//
// TestChanRace — a barrier-synchronised race lane: many rounds in which exactly two operations (drawn from Get,
// Rollback, Commit, Buffer) are released together by a spin barrier with sweeping spin offsets, separated by
// sequential probes (Buffer, a few Gets). The whole recorded history (mostly sequential, pairs overlapping) is
// checked for linearizability by porcupine against the sequential Channel model, so a window of a few instructions
// between two critical sections gets hundreds of precise attempts per case.
//
// TestChanBulk — large pending buffers: one goroutine takes values in big batches and commits them while others call
// Buffer() continuously; every snapshot must be a contiguous run of the source stream (committed ++ Buffer() is the
// taken prefix, so Buffer() can never contain a gap, a nil or a value twice).

import (
	"context"
	"fmt"
	"runtime"
	"strings"
	"sync"
	"sync/atomic"
	"testing"
	"time"

	"github.com/anishathalye/porcupine"
	bigbuff "github.com/joeycumines/go-bigbuff"
	"pgregory.net/rapid"

	"verif/harness/vkit"
)

func TestChanRace(t *testing.T) {
	st := vkit.For("chanrace")
	rapid.Check(t, func(t *rapid.T) {
		rounds := rapid.SampledFrom([]int{40, 120, 300}).Draw(t, "rounds")
		pairKinds := [][2]string{{"get", "rollback"}, {"get", "rollback"}, {"get", "commit"}, {"get", "buffer"}, {"rollback", "commit"}, {"buffer", "commit"}, {"get", "get"}, {"rollback", "buffer"}}
		pairs := make([][2]string, rounds)
		pre := make([]int, rounds)
		for i := range pairs {
			pairs[i] = pairKinds[rapid.IntRange(0, len(pairKinds)-1).Draw(t, "pair")]
			pre[i] = rapid.IntRange(0, 2).Draw(t, "preGets")
		}
		spinA := rapid.IntRange(0, 40).Draw(t, "spinA")
		spinB := rapid.IntRange(0, 40).Draw(t, "spinB")
		trace := []string{fmt.Sprintf("rounds=%d spin=%d/%d pairs=%v", rounds, spinA, spinB, pairs[:min(len(pairs), 12)])}
		vkit.CaseStart(func() string { return strings.Join(trace, " ; ") })
		var (
			clock  atomic.Int64
			mu     sync.Mutex
			ops    []porcupine.Operation
			panics []string
		)
		record := func(client int, in clIn, call int64, out clOut) {
			ret := clock.Add(1)
			mu.Lock()
			ops = append(ops, porcupine.Operation{ClientId: client, Input: in, Call: call, Output: out, Return: ret})
			mu.Unlock()
		}
		rapid.SyncTest(t, func(t *rapid.T) {
			total := rounds*5 + 8
			src := make(chan int, total)
			for i := 1; i <= total; i++ {
				call := clock.Add(1)
				src <- i
				record(100, clIn{op: "send"}, call, clOut{})
			}
			ch, err := bigbuff.NewChannel(nil, time.Millisecond, src)
			if err != nil {
				t.Fatalf("harness: %v", err)
			}
			do := func(client int, op string) {
				call := clock.Add(1)
				switch op {
				case "get":
					ctx, cancel := context.WithCancel(context.Background())
					v, err := ch.Get(ctx)
					cancel()
					iv, _ := v.(int)
					record(client, clIn{op: "get"}, call, clOut{val: iv, err: err != nil})
				case "commit":
					record(client, clIn{op: "commit"}, call, clOut{err: ch.Commit() != nil})
				case "rollback":
					record(client, clIn{op: "rollback"}, call, clOut{err: ch.Rollback() != nil})
				case "buffer":
					var ib []int
					for _, x := range ch.Buffer() {
						iv, _ := x.(int)
						ib = append(ib, iv)
					}
					record(client, clIn{op: "buffer"}, call, clOut{buf: ib})
				}
			}
			var phase atomic.Int64
			spin := func(n int) {
				for i := 0; i < n; i++ {
					_ = phase.Load()
				}
			}
			wait := func(v int64) { // phases only grow: wait until the phase has been reached (it may already be past)
				for n := 1; phase.Load() < v; n++ {
					if n&0x3fff == 0 {
						runtime.Gosched()
					}
				}
			}
			var wg sync.WaitGroup
			guard := func() {
				if r := recover(); r != nil {
					mu.Lock()
					panics = append(panics, fmt.Sprint(r))
					mu.Unlock()
				}
			}
			wg.Add(2)
			go func() { // party A also runs the sequential part of every round
				defer wg.Done()
				defer guard()
				for i := 0; i < rounds; i++ {
					for k := 0; k < pre[i]; k++ {
						do(1, "get")
					}
					phase.Store(int64(3*i + 1))
					wait(int64(3*i + 2))
					spin((spinA + i*7) % 48)
					do(1, pairs[i][0])
					wait(int64(3*i + 3))
					do(1, "buffer")
					if i%5 == 4 {
						do(1, "commit")
					}
				}
			}()
			go func() {
				defer wg.Done()
				defer guard()
				for i := 0; i < rounds; i++ {
					wait(int64(3*i + 1))
					phase.Store(int64(3*i + 2))
					spin((spinB + i*13) % 48)
					do(2, pairs[i][1])
					phase.Store(int64(3*i + 3))
				}
			}()
			wg.Wait()
			_ = ch.Close()
			time.Sleep(time.Second)
		})
		if len(panics) > 0 {
			vkit.Fail(t, "C13/panic", "panic in the Channel race lane: %v\ncase: %v", panics, trace)
		}
		res := porcupine.CheckOperationsTimeout(clModel, ops, 30*time.Second)
		if res == porcupine.Unknown {
			st.Exclude("porcupine-timeout")
			st.Case(trace, false, "checker-timeout")
			return
		}
		if res != porcupine.Ok {
			// locate the first prefix that is not linearizable to keep the report short
			lo, hi := 0, len(ops)
			for lo < hi {
				mid := (lo + hi) / 2
				if porcupine.CheckOperations(clModel, ops[:mid]) {
					lo = mid + 1
				} else {
					hi = mid
				}
			}
			from := max(0, lo-14)
			var hist []string
			for _, o := range ops[from:min(lo, len(ops))] {
				if o.ClientId == 100 {
					continue
				}
				hist = append(hist, fmt.Sprintf("[%d..%d c%d %s]", o.Call, o.Return, o.ClientId, clModel.DescribeOperation(o.Input, o.Output)))
			}
			vkit.Fail(t, "C13/not-linearizable", "two Channel operations released together by a barrier produced results that no sequential order explains (history prefix of %d operations; last ones shown)\ncase: %v\nhistory tail: %s", lo, trace, strings.Join(hist, " "))
		}
		st.Case(trace, true, fmt.Sprintf("rounds:%d", rounds))
	})
}

func TestChanBulk(t *testing.T) {
	st := vkit.For("chanbulk")
	rapid.Check(t, func(t *rapid.T) {
		total := rapid.SampledFrom([]int{2000, 6000}).Draw(t, "values")
		batch := rapid.SampledFrom([]int{64, 256, 700}).Draw(t, "batch")
		nObs := rapid.IntRange(1, 3).Draw(t, "observers")
		pattern := rapid.SliceOfN(rapid.IntRange(0, 3), 1, 5).Draw(t, "pattern") // 0 commit, 1 full replay, 2 half replay, 3 small replay
		trace := []string{fmt.Sprintf("values=%d batch=%d observers=%d pattern=%v", total, batch, nObs, pattern)}
		vkit.CaseStart(func() string { return strings.Join(trace, " ; ") })
		var (
			mu    sync.Mutex
			bad   string
			snaps atomic.Int64
		)
		rapid.SyncTest(t, func(t *rapid.T) {
			src := make(chan int, total)
			for i := 1; i <= total; i++ {
				src <- i
			}
			ch, err := bigbuff.NewChannel(nil, time.Millisecond, src)
			if err != nil {
				t.Fatalf("harness: %v", err)
			}
			var done atomic.Bool
			var wg sync.WaitGroup
			var failed atomic.Bool
			note := func(s string) {
				mu.Lock()
				if bad == "" {
					bad = s
				}
				mu.Unlock()
				failed.Store(true)
			}
			for o := 0; o < nObs; o++ {
				wg.Add(1)
				go func() {
					defer wg.Done()
					defer func() {
						if r := recover(); r != nil {
							note(fmt.Sprintf("Buffer panicked: %v", r))
						}
					}()
					for !done.Load() {
						buf := ch.Buffer()
						snaps.Add(1)
						for i, x := range buf {
							v, ok := x.(int)
							if !ok || v <= 0 || (i > 0 && v != buf[i-1].(int)+1) {
								lo, hi := max(0, i-2), min(len(buf), i+3)
								note(fmt.Sprintf("Buffer() snapshot of %d entries is not a contiguous run of the source stream around index %d: %v", len(buf), i, buf[lo:hi]))
								return
							}
						}
						runtime.Gosched()
					}
				}()
			}
			// the driver: big Gets, rollbacks, PARTIAL re-reads and commits in a drawn pattern
			committed, pos := 0, 0 // values committed so far; values handed out so far (committed + delivered since)
			get := func(n int, what string) bool {
				for i := 0; i < n && pos < total; i++ {
					v, err := ch.Get(context.Background())
					if err != nil || v != any(pos+1) {
						note(fmt.Sprintf("%s returned (%v,%v), expected %d (committed %d)", what, v, err, pos+1, committed))
						return false
					}
					pos++
				}
				return true
			}
			for step := 0; committed < total && !failed.Load(); step++ {
				n := min(batch, total-pos)
				if !get(n, "Get") {
					break
				}
				switch pattern[step%len(pattern)] {
				case 1: // replay the whole batch once before committing it
					if pos > committed {
						_ = ch.Rollback()
						k := pos - committed
						pos = committed
						if !get(k, "replayed Get") {
							break
						}
					}
				case 2, 3: // roll back, re-read only a part (a small one for 3), commit that part: the rest stays rolled back
					if pos > committed {
						_ = ch.Rollback()
						k := pos - committed
						part := k / 2
						if pattern[step%len(pattern)] == 3 {
							part = min(k, 16+step%5)
						}
						part = max(1, part)
						pos = committed
						if !get(part, "partially replayed Get") {
							break
						}
					}
				}
				if pos > committed {
					if err := ch.Commit(); err != nil {
						note(fmt.Sprintf("Commit failed: %v", err))
					}
					committed = pos
				}
			}
			done.Store(true)
			wg.Wait()
			_ = ch.Close()
			time.Sleep(time.Second)
		})
		if bad != "" {
			vkit.Fail(t, "C13/buffer-snapshot", "%s\ncase: %v", bad, trace)
		}
		st.Metric("buffer-snapshots", int(snaps.Load()))
		st.Case(trace, snaps.Load() > 10, fmt.Sprintf("batch:%d", batch))
	})
}

// TestChanDoneLane — "once Done is closed nothing more is taken from the source" (C13), as a race lane: many
// short-lived Channels over one well-filled buffered source, each closed by cancelling the context it was built on
// (or by Close) at a sweeping offset while another goroutine loops Get. An observer waits for Done, notes how many
// values are left in the source, and after the getter has stopped the count must be the same.
func TestChanDoneLane(t *testing.T) {
	st := vkit.For("chandone")
	rapid.Check(t, func(t *rapid.T) {
		rounds := rapid.SampledFrom([]int{60, 200, 500}).Draw(t, "rounds")
		off := rapid.IntRange(0, 299).Draw(t, "offset")
		byClose := rapid.IntRange(0, 3).Draw(t, "byClose") == 0
		commitEvery := rapid.SampledFrom([]int{0, 1, 8}).Draw(t, "commitEvery")
		trace := []string{fmt.Sprintf("rounds=%d offset=%d byClose=%v commitEvery=%d", rounds, off, byClose, commitEvery)}
		vkit.CaseStart(func() string { return strings.Join(trace, " ; ") })
		src := make(chan int, 256)
		var dummy atomic.Int64
		next := 0
		for r := 0; r < rounds; r++ {
			for len(src) < 128 {
				next++
				src <- next
			}
			ctx, cancel := context.WithCancel(context.Background())
			ch, err := bigbuff.NewChannel(ctx, 20*time.Microsecond, src)
			if err != nil {
				t.Fatalf("harness: %v", err)
			}
			var wg sync.WaitGroup
			wg.Add(1)
			go func() {
				defer wg.Done()
				for i := 1; ; i++ {
					if _, err := ch.Get(context.Background()); err != nil {
						return
					}
					if commitEvery > 0 && i%commitEvery == 0 {
						_ = ch.Commit()
					}
				}
			}()
			for i := (off + r*7) % 300; i > 0; i-- {
				_ = dummy.Load()
			}
			if byClose {
				_ = ch.Close()
			} else {
				cancel()
			}
			// busy-wait for Done (no wake-up latency: the count is taken within nanoseconds of the close)
			done := ch.Done()
			for spins := 1; ; spins++ {
				select {
				case <-done:
				default:
					if spins&0xfffff == 0 {
						runtime.Gosched()
					}
					continue
				}
				break
			}
			left := len(src)
			wg.Wait()
			if now := len(src); now != left {
				vkit.Fail(t, "C13+C12/taken-after-done", "round %d: %d values were left in the source when Done was seen closed, %d after the last Get had returned: %d value(s) were taken from the source after Done was closed\ncase: %v", r, left, now, left-now, trace)
			}
			cancel()
			_ = ch.Close()
		}
		st.Case(trace, true, map[bool]string{true: "by-close", false: "by-parent-cancel"}[byClose])
	})
}
