package props

// C02 (package-level Range over ANY Consumer): bigbuff.Range driven over a scripted faulty Consumer — a harness
// type implementing the interface over a trivially correct in-memory log, with a drawn fault sequence (Get fails at
// call i, Commit fails at call j, Rollback fails), a drawn callback script (continue / stop / panic) and a drawn
// context (nil, live, cancelled before, cancelled by the k-th callback).
//
// Oracle: the recorded call order is exactly Get, fn, Commit per item with increasing indexes starting at 0; the
// callback sees the log's values in order; Commit is called only after the callback returned; Rollback is called
// exactly when Get failed, Commit failed or the callback panicked (and never otherwise), so that the in-flight
// value is what the next Get returns; the context is checked before every Get and passed to Get as-is; Range's
// return value is the first failure (or nil after a stop, or the context's error); a callback panic propagates.

import (
	"context"
	"errors"
	"fmt"
	"runtime"
	"strings"
	"testing"

	bigbuff "github.com/joeycumines/go-bigbuff"
	"pgregory.net/rapid"

	"verif/harness/vkit"
)

type rfConsumer struct {
	log        []int
	committed  int
	delta      int
	getFailAt  int // 1-based call number at which Get fails (0 = never)
	comFailAt  int
	rbFails    bool
	gets, coms int
	events     []string
	lastCtx    context.Context
	errGet     error
	errCommit  error
	done       chan struct{}
}

func (c *rfConsumer) Close() error          { c.events = append(c.events, "close"); return nil }
func (c *rfConsumer) Done() <-chan struct{} { return c.done }
func (c *rfConsumer) Get(ctx context.Context) (interface{}, error) {
	c.gets++
	c.lastCtx = ctx
	if c.gets == c.getFailAt {
		c.events = append(c.events, "get=err")
		return nil, c.errGet
	}
	pos := c.committed + c.delta
	if pos >= len(c.log) {
		c.events = append(c.events, "get=exhausted")
		return nil, c.errGet
	}
	c.delta++
	c.events = append(c.events, fmt.Sprintf("get=%d", c.log[pos]))
	return c.log[pos], nil
}
func (c *rfConsumer) Commit() error {
	c.coms++
	if c.coms == c.comFailAt {
		c.events = append(c.events, "commit=err")
		return c.errCommit
	}
	if c.delta == 0 {
		c.events = append(c.events, "commit=nothing")
		return errors.New("nothing to commit")
	}
	c.committed += c.delta
	c.delta = 0
	c.events = append(c.events, "commit")
	return nil
}
func (c *rfConsumer) Rollback() error {
	c.events = append(c.events, "rollback")
	c.delta = 0
	if c.rbFails {
		return errors.New("rollback failed")
	}
	return nil
}

func TestC02RangeFaulty(t *testing.T) {
	st := vkit.For("c02_range_faulty")
	rapid.Check(t, func(t *rapid.T) {
		n := rapid.IntRange(0, 6).Draw(t, "values")
		c := &rfConsumer{done: make(chan struct{}), errGet: errors.New("get failed"), errCommit: errors.New("commit failed")}
		for i := 0; i < n; i++ {
			c.log = append(c.log, 100+i)
		}
		c.getFailAt = rapid.SampledFrom([]int{0, 0, 1, 2, 3, 5}).Draw(t, "getFailAt")
		c.comFailAt = rapid.SampledFrom([]int{0, 0, 1, 2, 4}).Draw(t, "commitFailAt")
		c.rbFails = rapid.IntRange(0, 4).Draw(t, "rollbackFails") == 0
		c.delta = 0
		stopAt := rapid.SampledFrom([]int{-1, -1, 0, 1, 3}).Draw(t, "stopAt")
		panicAt := rapid.SampledFrom([]int{-1, -1, -1, 0, 1, 2, 4}).Draw(t, "panicAt")
		// the callback may also unwind without a panic value: runtime.Goexit (what t.FailNow does) — the in-flight
		// value is not committed then either, so it has to be rolled back just the same
		byGoexit := panicAt >= 0 && rapid.IntRange(0, 2).Draw(t, "byGoexit") == 0
		cancelAt := rapid.SampledFrom([]int{-1, -1, 0, 1, 2}).Draw(t, "cancelAt")
		ctxKind := rapid.SampledFrom([]string{"nil", "live", "live", "cancelled"}).Draw(t, "ctx")
		var ctx context.Context
		cancel := func() {}
		switch ctxKind {
		case "live":
			ctx, cancel = context.WithCancel(context.Background())
		case "cancelled":
			ctx, cancel = context.WithCancel(context.Background())
			cancel()
		}
		defer cancel()
		trace := []string{fmt.Sprintf("values=%d getFailAt=%d commitFailAt=%d rollbackFails=%v stopAt=%d panicAt=%d byGoexit=%v cancelAt=%d ctx=%s", n, c.getFailAt, c.comFailAt, c.rbFails, stopAt, panicAt, byGoexit, cancelAt, ctxKind)}
		type call struct {
			index int
			value any
		}
		var calls []call
		sentinel := "range faulty panic"
		fn := func(index int, value any) bool {
			calls = append(calls, call{index, value})
			c.events = append(c.events, fmt.Sprintf("fn(%d,%v)", index, value))
			i := len(calls) - 1
			if i == cancelAt {
				cancel()
			}
			if i == panicAt {
				if byGoexit {
					runtime.Goexit()
				}
				panic(sentinel)
			}
			return i != stopAt
		}
		var res, pv any
		exited := true
		done := make(chan struct{})
		go func() { // its own goroutine: the callback may end it with Goexit
			defer close(done)
			res, pv = vkit.Call(func() any { return bigbuff.Range(ctx, c, fn) })
			exited = false
		}()
		<-done

		// ---- the sequential specification
		var want []string
		wantRes := "" // "nil" | "ctx" | "get" | "commit" | "panic"
		pos, gets, coms := 0, 0, 0
		cancelled := ctxKind == "cancelled"
		for idx := 0; wantRes == ""; idx++ {
			if ctx != nil && cancelled {
				wantRes = "ctx"
				break
			}
			gets++
			if gets == c.getFailAt {
				want = append(want, "get=err", "rollback")
				wantRes = "get"
				break
			}
			if pos >= n {
				want = append(want, "get=exhausted", "rollback")
				wantRes = "get"
				break
			}
			want = append(want, fmt.Sprintf("get=%d", 100+pos), fmt.Sprintf("fn(%d,%d)", idx, 100+pos))
			if idx == cancelAt && ctxKind == "live" {
				cancelled = true
			}
			if idx == panicAt {
				want = append(want, "rollback")
				wantRes = "panic"
				break
			}
			coms++
			if coms == c.comFailAt {
				want = append(want, "commit=err", "rollback")
				wantRes = "commit"
				break
			}
			want = append(want, "commit")
			pos++
			if idx == stopAt {
				wantRes = "nil"
				break
			}
		}
		trace = append(trace, "events="+strings.Join(c.events, ","), "expected="+strings.Join(want, ","), fmt.Sprintf("result=%v panic=%v expectedResult=%s", res, pv, wantRes))
		if strings.Join(c.events, ",") != strings.Join(want, ",") {
			sig := "C02/range-call-order"
			if strings.Count(strings.Join(c.events, ","), "rollback") != strings.Count(strings.Join(want, ","), "rollback") {
				sig = "C02/range-rollback"
			}
			vkit.Fail(t, sig, "Range over a scripted consumer performed %v, the documented loop performs %v\ncase: %v", c.events, want, trace)
		}
		if c.gets > 0 && c.lastCtx != ctx {
			vkit.Fail(t, "C02/range-ctx-passed", "Range did not pass its ctx to Get as-is\ncase: %v", trace)
		}
		var err error
		if res != nil {
			err = res.(error)
		}
		switch wantRes {
		case "nil":
			if pv != nil || err != nil {
				vkit.Fail(t, "C02/range-result", "Range returned %v / panic %v, expected nil\ncase: %v", err, pv, trace)
			}
		case "ctx":
			if pv != nil || err == nil || !errors.Is(err, context.Canceled) {
				vkit.Fail(t, "C02/range-result", "Range returned %v / panic %v, expected the context's error\ncase: %v", err, pv, trace)
			}
		case "get":
			if pv != nil || err != c.errGet {
				vkit.Fail(t, "C02/range-result", "Range returned %v / panic %v, expected Get's error\ncase: %v", err, pv, trace)
			}
		case "commit":
			if pv != nil || err != c.errCommit {
				vkit.Fail(t, "C02/range-result", "Range returned %v / panic %v, expected Commit's error\ncase: %v", err, pv, trace)
			}
		case "panic":
			if byGoexit {
				if !exited {
					vkit.Fail(t, "C02/range-result", "the callback ended its goroutine with runtime.Goexit, yet Range returned %v / panic %v\ncase: %v", err, pv, trace)
				}
			} else if pv != any(sentinel) {
				vkit.Fail(t, "C02/range-result", "Range returned %v / panic %v, expected the callback's panic to propagate\ncase: %v", err, pv, trace)
			}
		}
		// the in-flight value is the first value the next read returns
		if wantRes == "panic" || wantRes == "commit" {
			if v, err := (&rfConsumer{log: c.log, committed: c.committed, delta: c.delta, done: c.done}).Get(nil); err != nil || v != any(100+pos) {
				vkit.Fail(t, "C02/range-inflight-rollback", "after a failed iteration the next Get yields (%v,%v), expected the in-flight value %d\ncase: %v", v, err, 100+pos, trace)
			}
		}
		// argument validation
		if bigbuff.Range(ctx, nil, fn) == nil || bigbuff.Range(ctx, c, nil) == nil {
			vkit.Fail(t, "C02/range-nil-args", "Range accepted a nil consumer or a nil fn")
		}
		st.Case(trace, wantRes == "panic" || wantRes == "commit" || wantRes == "get", "end:"+wantRes)
	})
}
