//go:build verif && go1.25

package props

// pubsubchurn — a barrier-synchronised race lane for ChanPubSub (C06, C07): many rounds in which the few-instruction
// windows around "the last counted subscriber leaves in the middle of a Send" get precise attempts.
//
// One round: k subscriptions exist and never receive; sender A starts a Send and blocks in its delivery phase (the
// round waits for the instrumentation point "caster armed"); then one spin barrier releases, with sweeping spin
// offsets, the k leavers (each Add(-1), or one Add(-k)), 0-3 further senders B and optionally a newcomer N that
// subscribes and then follows the contract (receive, Wait, … leave when told). Everything must terminate (bubble
// deadlock detection / stall watchdog), nothing may panic, and the token accounting must hold: every Send's return
// value equals the number of receipts of its token (A's is 0: everybody it counted left without receiving; the
// newcomer subscribed after A began, so it may only receive tokens of the B senders), and the count is 0 at the end
// of every round.

import (
	"fmt"
	"os"
	"runtime"
	"strings"
	"sync"
	"sync/atomic"
	"testing"

	bigbuff "github.com/joeycumines/go-bigbuff"
	"pgregory.net/rapid"

	"verif/harness/vkit"
)

func TestPubSubChurn(t *testing.T) {
	prof := os.Getenv("VKIT_PROFILE")
	st := vkit.For("pubsubchurn_" + prof)
	defer bigbuff.VerifSetHook(nil)
	rapid.Check(t, func(t *rapid.T) {
		rounds := rapid.SampledFrom([]int{30, 80, 200}).Draw(t, "rounds")
		k := rapid.IntRange(1, 3).Draw(t, "leavers")
		bulk := k > 1 && rapid.IntRange(0, 3).Draw(t, "bulkLeave") == 0
		nB := rapid.IntRange(0, 3).Draw(t, "extraSenders")
		joiner := rapid.Bool().Draw(t, "joiner")
		inspectors := rapid.SampledFrom([]int{0, 0, 1, 3}).Draw(t, "inspectors") // goroutines polling Add(0) throughout
		offL := rapid.IntRange(0, 63).Draw(t, "offLeavers")
		offB := rapid.IntRange(0, 63).Draw(t, "offSenders")
		offN := rapid.IntRange(0, 63).Draw(t, "offJoiner")
		// early: sender A is not given a head start; it is released by the same barrier as the leavers, so that the
		// leavers meet it anywhere between "took the send locks" and "delivering"
		early := rapid.IntRange(0, 2).Draw(t, "earlyLeave") == 0
		offA := rapid.IntRange(0, 63).Draw(t, "offSenderA")
		viaUnsub := rapid.Bool().Draw(t, "viaUnsubscribe")
		trace := []string{fmt.Sprintf("rounds=%d leavers=%d bulk=%v extraSenders=%d joiner=%v inspectors=%d offsets=%d/%d/%d early=%v(offA=%d) viaUnsubscribe=%v", rounds, k, bulk, nB, joiner, inspectors, offL, offB, offN, early, offA, viaUnsub)}
		vkit.CaseStart(func() string { return strings.Join(trace, " ; ") })
		var (
			mu       sync.Mutex
			panics   []string
			returned = map[int]int{}
			received = map[int]int{}
			badCount string
			armed    atomic.Pointer[chan struct{}]
		)
		bigbuff.VerifSetHook(func(p int) {
			if p == bigbuff.VerifCasterArmed {
				if c := armed.Swap(nil); c != nil {
					close(*c)
				}
			}
		})
		guard := func(who string) {
			if r := recover(); r != nil {
				mu.Lock()
				panics = append(panics, fmt.Sprintf("%s: %v", who, r))
				mu.Unlock()
			}
		}
		k0 := k
		rapid.SyncTest(t, func(t *rapid.T) {
			defer guard("round driver") // its own Add calls hit a broken instance first
			x := bigbuff.NewChanPubSub(make(chan int))
			var dummy atomic.Int64
			spin := func(n int) {
				for i := 0; i < n; i++ {
					_ = dummy.Load()
				}
			}
			var stopInspect atomic.Bool
			var iw sync.WaitGroup
			for k := 0; k < inspectors; k++ {
				iw.Add(1)
				go func() {
					defer iw.Done()
					defer guard("inspector (Add(0))")
					for !stopInspect.Load() {
						if n := x.Add(0); n < 0 || n > k0+1 {
							panic(fmt.Sprintf("Add(0)=%d with at most %d subscriptions ever registered at once", n, k0+1))
						}
						runtime.Gosched()
					}
				}()
			}
			defer func() { stopInspect.Store(true); iw.Wait() }()
			for i := 0; i < rounds && len(panics) == 0; i++ {
				tokA := 1000*i + 1
				x.Add(k)
				var wg sync.WaitGroup
				sendA := func() {
					n := x.Send(tokA)
					mu.Lock()
					returned[tokA] = n
					mu.Unlock()
				}
				if !early {
					ch := make(chan struct{})
					armed.Store(&ch)
					wg.Add(1)
					go func() {
						defer wg.Done()
						defer guard(fmt.Sprintf("round %d sender A", i))
						sendA()
					}()
					<-ch // A has counted the k subscriptions and is delivering
				}
				var goNow atomic.Bool
				var ready sync.WaitGroup
				party := func(who string, off int, f func()) {
					ready.Add(1)
					wg.Add(1)
					go func() {
						defer wg.Done()
						defer guard(fmt.Sprintf("round %d %s", i, who))
						ready.Done()
						for n := 1; !goNow.Load(); n++ {
							if n&0x3fff == 0 {
								runtime.Gosched()
							}
						}
						spin(off)
						f()
					}()
				}
				if early {
					party("sender A", (offA+i*3)%64, sendA)
				}
				leave := func() { x.Add(-1) }
				if viaUnsub {
					leave = x.Unsubscribe
				}
				if bulk {
					party("bulk leaver", (offL+i*7)%64, func() { x.Add(-k) })
				} else {
					for l := 0; l < k; l++ {
						party(fmt.Sprintf("leaver %d", l), (offL+i*7+l*5)%64, leave)
					}
				}
				for b := 0; b < nB; b++ {
					tok := 1000*i + 10 + b
					party(fmt.Sprintf("sender B%d", b), (offB+i*13+b*3)%64, func() {
						n := x.Send(tok)
						mu.Lock()
						returned[tok] = n
						mu.Unlock()
					})
				}
				quit := make(chan struct{})
				nDone := make(chan struct{})
				if joiner {
					ready.Add(1)
					go func() {
						defer close(nDone)
						defer guard(fmt.Sprintf("round %d joiner", i))
						ready.Done()
						for n := 1; !goNow.Load(); n++ {
							if n&0x3fff == 0 {
								runtime.Gosched()
							}
						}
						spin((offN + i*11) % 64)
						x.Add(1)
						for {
							select {
							case v := <-x.C():
								x.Wait()
								mu.Lock()
								received[v]++
								mu.Unlock()
							case <-quit:
								x.Add(-1)
								return
							}
						}
					}()
				} else {
					close(nDone)
				}
				ready.Wait()
				goNow.Store(true)
				wg.Wait() // every Send and every unsubscribe has returned
				close(quit)
				<-nDone
				if n := x.Add(0); n != 0 && badCount == "" {
					badCount = fmt.Sprintf("round %d: Add(0)=%d after every subscription was withdrawn", i, n)
					break
				}
			}
		})
		bigbuff.VerifSetHook(nil)
		if len(panics) > 0 {
			vkit.Fail(t, psfPanicSig(panics), "panic(s) although every party followed the contract: %v\ncase: %v", panics, trace)
		}
		if badCount != "" {
			vkit.Fail(t, "C07/final-count", "%s\ncase: %v", badCount, trace)
		}
		for tok, n := range returned {
			if received[tok] != n {
				vkit.Fail(t, "C06/send-count", "Send(%d) returned %d but the value was received %d times (tokens …1 belong to the sender whose counted subscribers all left without receiving; tokens …10+ to the other senders)\ncase: %v", tok, n, received[tok], trace)
			}
		}
		for tok, n := range received {
			if _, ok := returned[tok]; !ok {
				vkit.Fail(t, "C06/invented", "value %d received %d times but no Send of it returned\ncase: %v", tok, n, trace)
			}
		}
		cls := []string{fmt.Sprintf("leavers:%d", k), fmt.Sprintf("extra-senders:%d", nB)}
		if joiner {
			cls = append(cls, "joiner")
		}
		if early {
			cls = append(cls, "early-leave")
		}
		st.Case(trace, nB > 0 || joiner, cls...)
	})
}
