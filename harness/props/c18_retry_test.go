//go:build go1.25

package props

// C18 — bigbuff.ExponentialRetry / bigbuff.FatalError: stops on success, fatal error or cancellation;
// bounded back-off.
//
// Stepper inside a synctest bubble (virtual time). The operation handed to ExponentialRetry is a harness
// callback that stamps virtual time at entry and exit and (unless fast-forwarded) parks on a gate, so that
// the driver decides, at quiescent points (synctest.Wait), what happens while a call is in flight (advance
// time, cancel the context, let the call itself cancel the context, release it with a scripted outcome) and
// what happens while the library waits between two calls (run to the next call, advance part of the wait,
// cancel). One case = one ExponentialRetry closure invoked 1..3 times in sequence on one context.
//
// Oracle (written from the doc comment / property statement, never from the code):
//   - calls stop at the first success (its result, nil), at the first FatalError (that call's result and the
//     innermost error, identical to the value that was wrapped 1..4 times), or once the context is cancelled
//     (nil, ctx.Err()); a plain error never ends the loop by itself;
//   - no call starts while ctx.Err() != nil (the callback reads ctx.Err() at entry);
//   - a wait never survives a cancelled context at quiescence, and the closure returns at the very virtual
//     instant of the cancellation (or of the end of the call in flight);
//   - the gap between exit of call k and entry of call k+1 is m*rate with integer 0 <= m <= 2^min(k,31)-1
//     (rate <= 0 means 300ms), the first call is immediate, and a wait still pending at quiescence has not
//     outlived that bound;
//   - ExponentialRetry(ctx, rate, nil) panics, a nil ctx does not, the constructor does not call value.
//
// The library's back-off delay comes from math/rand and is not under rapid's control: only support and
// granularity are checked. The single probabilistic check ("C18/backoff-degenerate": a round with >= 11
// retries whose gaps are ALL zero) has a false-alarm probability <= 2^-66 per qualifying round.

import (
	"context"
	"errors"
	"fmt"
	"math"
	"os"
	"runtime"
	"strings"
	"sync"
	"testing"
	"testing/synctest"
	"time"

	bigbuff "github.com/joeycumines/go-bigbuff"
	"pgregory.net/rapid"

	"verif/harness/vkit"
)

const (
	c18Plain = iota
	c18Success
	c18Fatal
	c18Forever // terminal only: plain errors until the planned cancellation ends the loop
)

const (
	c18InCall = iota
	c18InWait
	c18Finished
)

const (
	c18DefaultRate = 300 * time.Millisecond // documented default for rate <= 0
	c18RoundBudget = int64(1) << 60         // worst-case virtual nanoseconds one round may consume
	c18MaxFailures = 40
)

type (
	c18Err    struct{ s string }
	c18ValErr struct{ id int }
	c18Res    struct{ round, call int }
)

func (e *c18Err) Error() string   { return e.s }
func (e c18ValErr) Error() string { return fmt.Sprintf("c18ValErr(%d)", e.id) }

// c18Directive is what the driver hands to a gated call: its outcome.
type c18Directive struct {
	kind       int
	depth      int    // fatal: number of FatalError wrappers
	sentinel   string // fatal: flavour of the innermost error
	plainKind  string // plain: flavour of the error
	withRes    bool
	selfCancel bool // the call cancels the context itself just before returning
}

type c18Call struct {
	entry, exit time.Time
	exited      bool
	auto        bool
	ctxErrEntry bool // ctx.Err() != nil observed by the callback at entry
	lateEntry   bool // the closure had already returned when the call started
	dir         c18Directive
	res         any
	err         error
	inner       error // fatal: the innermost error
}

type c18Round struct {
	n          int
	nFail      int
	terminal   int
	depth      int
	cancelKind string // never | call | self | wait
	cancelAtN  int    // call number (call/self) or failure number (wait)
	cancelFrac string // wait: now | later
	preCancel  bool

	invokeAt time.Time
	gate     chan c18Directive
	op       *vkit.Op

	// shared with the library goroutine, guarded by c18Machine.mu
	calls          []c18Call
	auto           int
	finished       bool
	finishAt       time.Time
	res            any
	err            error
	ctxErrAtFinish error

	checked      int
	finalChecked bool
	sleptInCall  int // call number in which the driver already slept
	sleptInWait  int
	ffUsed       bool
	cancelWhere  string // "", before, in-call, in-call-self, in-wait, deadline-in-call, deadline-in-wait
	callsAtCanc  int
	endClass     string
}

type c18Machine struct {
	t  *rapid.T
	st *vkit.Stats

	rateArg  time.Duration
	rate     time.Duration // effective slot
	maxFail  int
	ctxKind  string
	ctx      context.Context // what the library got (may be nil)
	obsCtx   context.Context // what the oracle reads (nil when the library got nil/Background)
	cancel   context.CancelFunc
	deadline time.Time
	cancelAt time.Time // virtual instant of the cancellation, zero if not cancelled
	fn       func() (any, error)

	mu        sync.Mutex
	rd        *c18Round
	quit      chan struct{}
	quitCalls int
	stray     int // calls of value outside any invocation
	wake      chan struct{}
	cleaned   bool
	ended     bool

	rounds []*c18Round
	trace  []string
}

func (m *c18Machine) tr(format string, args ...any) {
	m.trace = append(m.trace, fmt.Sprintf(format, args...))
	if os.Getenv("VKIT_DEBUG") != "" {
		fmt.Println("TRACE", m.trace[len(m.trace)-1])
	}
}

func c18MaxSlots(k int) int64 {
	if k > 31 {
		k = 31
	}
	if k < 0 {
		k = 0
	}
	return int64(1)<<uint(k) - 1
}

// c18FailureCap is the largest number of plain failures of one round whose worst-case waits fit the budget.
func c18FailureCap(rate time.Duration) int {
	var sum int64
	for k := 1; k <= c18MaxFailures; k++ {
		w := c18MaxSlots(k)
		if w > (c18RoundBudget-sum)/int64(rate) {
			return k - 1
		}
		sum += w * int64(rate)
	}
	return c18MaxFailures
}

// c18MultiErr: an error type that is not comparable (a slice)
type c18MultiErr []string

func (e c18MultiErr) Error() string { return strings.Join(e, "; ") }

func c18Cancellable(withCause bool) (context.Context, context.CancelFunc) {
	if !withCause {
		return context.WithCancel(context.Background())
	}
	ctx, cancel := context.WithCancelCause(context.Background())
	return ctx, func() { cancel(errors.New("c18: the cancellation's cause, not the context's error")) }
}

func (m *c18Machine) signal() {
	select {
	case m.wake <- struct{}{}:
	default:
	}
}

func (m *c18Machine) ctxErr() error {
	if m.obsCtx == nil {
		return nil
	}
	return m.obsCtx.Err()
}

func (m *c18Machine) strayCalls() int {
	m.mu.Lock()
	defer m.mu.Unlock()
	return m.stray
}

func (m *c18Machine) cancellable() bool { return m.cancel != nil && m.ctxErr() == nil }

// slots renders a duration in slots of the effective rate.
func (m *c18Machine) slots(d time.Duration) string {
	if d%m.rate == 0 {
		return fmt.Sprintf("%d slots", int64(d/m.rate))
	}
	return fmt.Sprintf("%v (= %d slots + %v)", d, int64(d/m.rate), d%m.rate)
}

func (m *c18Machine) renderRound(rd *c18Round) string {
	m.mu.Lock()
	defer m.mu.Unlock()
	var sb strings.Builder
	fmt.Fprintf(&sb, "round %d (rate=%v): ", rd.n, m.rate)
	prev := rd.invokeAt
	for i, c := range rd.calls {
		fmt.Fprintf(&sb, "[+%s] call%d", m.slots(c.entry.Sub(prev)), i+1)
		if c.ctxErrEntry {
			sb.WriteString("(ctx already cancelled)")
		}
		if !c.exited {
			sb.WriteString(" in flight")
			break
		}
		fmt.Fprintf(&sb, "=%s ", c18DirString(c.dir))
		prev = c.exit
	}
	if rd.finished {
		fmt.Fprintf(&sb, "[+%s] returned (%v, %v)", m.slots(rd.finishAt.Sub(prev)), rd.res, rd.err)
	}
	if !m.cancelAt.IsZero() {
		fmt.Fprintf(&sb, " ; ctx cancelled %v after the invocation", m.cancelAt.Sub(rd.invokeAt))
	}
	return sb.String()
}

func c18DirString(d c18Directive) string {
	s := ""
	switch d.kind {
	case c18Plain:
		s = "plain:" + d.plainKind
	case c18Success:
		s = "success"
	case c18Fatal:
		s = fmt.Sprintf("fatal^%d:%s", d.depth, d.sentinel)
	}
	if d.withRes {
		s += "+res"
	}
	if d.selfCancel {
		s += "+selfCancel"
	}
	return s
}

func (m *c18Machine) fail(sig string, format string, args ...any) {
	m.t.Helper()
	msg := fmt.Sprintf(format, args...)
	if m.rd != nil {
		msg += "\n" + m.renderRound(m.rd)
	}
	msg += "\ntrace: " + strings.Join(m.trace, " ; ")
	vkit.Announce(sig, "%s", msg)
	m.cleanup()
	m.t.Fatalf("[%s] %s", sig, msg)
}

// cleanup lets the bubble end whatever state the case is in: gates open (every further call succeeds),
// context cancelled, pending library timers drained in virtual time.
func (m *c18Machine) cleanup() {
	if m.cleaned {
		return
	}
	m.cleaned = true
	close(m.quit)
	if m.cancel != nil {
		m.cancel()
	}
	if m.ended {
		return // normal end: the leak oracle has already seen an empty bubble
	}
	if rd := m.rd; rd != nil {
		m.mu.Lock()
		rd.auto = 0
		m.mu.Unlock()
	}
	// drain whatever still sleeps in the bubble (library waits, leaked helpers) in growing virtual steps,
	// without ever pushing the bubble clock beyond one more round budget
	spent := int64(0)
	for step := int64(m.rate); ; step *= 4 {
		synctest.Wait()
		if len(vkit.BubbleOthers()) == 0 {
			return
		}
		if step <= 0 || step > c18RoundBudget-spent {
			return
		}
		time.Sleep(time.Duration(step))
		spent += step
	}
}

// value is the operation handed to ExponentialRetry.
func (m *c18Machine) value() (any, error) {
	m.mu.Lock()
	rd := m.rd
	if rd == nil {
		m.stray++
		m.mu.Unlock()
		return nil, nil
	}
	select {
	case <-m.quit:
		m.quitCalls++
		n := m.quitCalls
		m.mu.Unlock()
		if n > 3 {
			runtime.Goexit() // a library that ignores success must not keep the bubble alive
		}
		return nil, nil
	default:
	}
	idx := len(rd.calls)
	c := c18Call{entry: time.Now(), ctxErrEntry: m.ctxErr() != nil, lateEntry: rd.finished}
	var d c18Directive
	if rd.auto > 0 {
		rd.auto--
		c.auto = true
		d = c18Directive{kind: c18Plain, plainKind: "ptr", withRes: idx%2 == 1}
	}
	rd.calls = append(rd.calls, c)
	gate := rd.gate
	m.mu.Unlock()
	if !c.auto {
		m.signal()
		select {
		case d = <-gate:
		case <-m.quit:
			d = c18Directive{kind: c18Success}
		}
	}
	var (
		res   any
		err   error
		inner error
	)
	if d.withRes {
		res = &c18Res{rd.n, idx + 1}
	}
	switch d.kind {
	case c18Plain:
		switch d.plainKind {
		case "canceled":
			err = context.Canceled
		case "deadline":
			err = context.DeadlineExceeded
		case "wraps-canceled":
			err = fmt.Errorf("op %d: %w", idx+1, context.Canceled)
		case "wraps-fatal":
			// a plain error (not wrapped by FatalError) that has a fatal error further down its chain
			err = fmt.Errorf("op %d: %w", idx+1, bigbuff.FatalError(&c18Err{fmt.Sprintf("deep#%d", idx+1)}))
		case "value":
			err = c18ValErr{idx + 1}
		case "uncomparable":
			err = c18MultiErr{fmt.Sprintf("plain#%d", idx+1), "and another"} // a plain error whose dynamic type cannot be compared with ==
		default:
			err = &c18Err{fmt.Sprintf("plain#%d", idx+1)}
		}
	case c18Fatal:
		switch d.sentinel {
		case "errors.New":
			inner = errors.New("c18 sentinel")
		case "value":
			inner = c18ValErr{-(idx + 1)}
		case "wrapping":
			inner = fmt.Errorf("c18 outer: %w", &c18Err{"c18 wrapped base"})
		case "canceled":
			inner = context.Canceled
		default:
			inner = &c18Err{"c18 sentinel"}
		}
		err = inner
		for i := 0; i < d.depth; i++ {
			err = bigbuff.FatalError(err)
		}
	}
	var selfAt time.Time
	if d.selfCancel && m.cancel != nil {
		m.cancel()
		selfAt = time.Now()
	}
	m.mu.Lock()
	cc := &rd.calls[idx]
	cc.exit, cc.exited, cc.dir, cc.res, cc.err, cc.inner = time.Now(), true, d, res, err, inner
	if !selfAt.IsZero() && m.cancelAt.IsZero() {
		m.cancelAt = selfAt
	}
	m.mu.Unlock()
	return res, err
}

type c18Violation struct {
	sig, msg string
}

func c18V(sig, format string, args ...any) *c18Violation {
	return &c18Violation{sig, fmt.Sprintf(format, args...)}
}

// observe settles the bubble, validates everything that happened since the last quiescent point and
// returns where the library goroutine is.
func (m *c18Machine) observe() int {
	synctest.Wait()
	state, v := m.inspect()
	if v != nil {
		m.fail(v.sig, "%s", v.msg)
	}
	return state
}

func (m *c18Machine) inspect() (int, *c18Violation) {
	m.mu.Lock()
	defer m.mu.Unlock()
	rd := m.rd
	now := time.Now()
	cancelled := m.ctxErr() != nil
	if cancelled && m.cancelAt.IsZero() {
		// only the deadline cancels behind the driver's back
		if m.ctxKind != "deadline" || now.Before(m.deadline) {
			panic("c18 harness: context cancelled by nobody")
		}
		m.cancelAt = m.deadline
	}
	if cancelled && rd.cancelWhere == "" {
		// classify where the (deadline) cancellation landed
		rd.cancelWhere = "deadline-in-wait"
		rd.callsAtCanc = 0
		if !m.cancelAt.After(rd.invokeAt) {
			rd.cancelWhere = "before"
		}
		for _, c := range rd.calls {
			if c.entry.Before(m.cancelAt) {
				rd.callsAtCanc++
				if !c.exited || c.exit.After(m.cancelAt) {
					rd.cancelWhere = "deadline-in-call"
				}
			}
		}
	}
	// ---- calls that started since the last look
	for i := rd.checked; i < len(rd.calls); i++ {
		c := rd.calls[i]
		if c.lateEntry {
			return 0, c18V("C18/call-after-return", "call %d started after the closure had returned", i+1)
		}
		if c.ctxErrEntry {
			return 0, c18V("C18/call-after-cancel", "call %d started although the context was already cancelled (ctx.Err() != nil at entry)", i+1)
		}
		if i == 0 {
			if d := c.entry.Sub(rd.invokeAt); d != 0 {
				return 0, c18V("C18/first-call-delayed", "the first call started %v after the invocation, expected no delay", d)
			}
		} else {
			p := rd.calls[i-1]
			if !p.exited {
				return 0, c18V("C18/overlapping-calls", "call %d started while call %d was still in flight", i+1, i)
			}
			switch p.dir.kind {
			case c18Success:
				return 0, c18V("C18/call-after-success", "call %d started although call %d succeeded", i+1, i)
			case c18Fatal:
				return 0, c18V("C18/call-after-fatal", "call %d started although call %d returned a FatalError (depth %d)", i+1, i, p.dir.depth)
			}
			gap := c.entry.Sub(p.exit)
			if gap < 0 || gap%m.rate != 0 {
				return 0, c18V("C18/gap-not-slot-multiple", "delay before retry %d is %v, not a whole number of %v slots", i, gap, m.rate)
			}
			if s := int64(gap / m.rate); s > c18MaxSlots(i) {
				return 0, c18V("C18/gap-exceeds-range", "delay before retry %d is %d slots of %v, documented maximum is 2^min(%d,31)-1 = %d", i, s, m.rate, i, c18MaxSlots(i))
			}
		}
	}
	rd.checked = len(rd.calls)

	var last *c18Call
	if n := len(rd.calls); n > 0 {
		last = &rd.calls[n-1]
	}
	if rd.op.Finished() && !rd.finished {
		return 0, c18V("C18/retry-panic", "the closure panicked (or its goroutine exited): %v", rd.op.Panic)
	}
	switch {
	case rd.finished:
		if rd.finalChecked {
			return c18Finished, nil
		}
		rd.finalChecked = true
		if last != nil && !last.exited {
			return 0, c18V("C18/returned-during-call", "the closure returned while call %d was in flight", len(rd.calls))
		}
		kind := c18Plain
		if last != nil {
			kind = last.dir.kind
		}
		switch kind {
		case c18Success:
			rd.endClass = "success"
			if rd.err != nil {
				return 0, c18V("C18/success-with-error", "call %d succeeded but the closure returned error %v (ctx cancelled: %v)", len(rd.calls), rd.err, cancelled)
			}
			if rd.res != last.res {
				return 0, c18V("C18/success-result-lost", "call %d succeeded with result %v but the closure returned %v", len(rd.calls), last.res, rd.res)
			}
		case c18Fatal:
			rd.endClass = fmt.Sprintf("fatal-depth%d", last.dir.depth)
			if rd.err != last.inner {
				if rd.err != nil && strings.Contains(fmt.Sprintf("%T", rd.err), "fatalError") {
					return 0, c18V("C18/fatal-wrapper-returned", "call %d returned a sentinel wrapped %d times by FatalError; the closure returned an error that is still a fatal wrapper (%T), expected the sentinel itself", len(rd.calls), last.dir.depth, rd.err)
				}
				return 0, c18V("C18/fatal-wrong-error", "call %d returned FatalError^%d(%v); the closure returned error %v (%T), expected the wrapped value itself", len(rd.calls), last.dir.depth, last.inner, rd.err, rd.err)
			}
			if rd.res != last.res {
				return 0, c18V("C18/fatal-result-lost", "call %d failed fatally with result %v but the closure returned result %v", len(rd.calls), last.res, rd.res)
			}
		default:
			// no call at all, or the last call failed plainly: only a cancelled context ends the loop
			if rd.ctxErrAtFinish == nil && last != nil && last.dir.plainKind == "wraps-fatal" {
				// the library treats such an error as plain and goes on. Had it stopped here, that would only be
				// defensible as "this was a fatal error", and then the error it returns must not contain a fatal
				// wrapper at any depth and the call's result must come with it
				if c18ChainHasFatal(rd.err) {
					return 0, c18V("C18/fatal-wrapper-returned", "call %d returned a plain error whose chain contains a FatalError; the closure stopped and returned %v (%T), which still contains the fatal wrapper", len(rd.calls), rd.err, rd.err)
				}
				if rd.err == nil || rd.res != last.res {
					return 0, c18V("C18/gave-up-without-cause", "the closure returned (%v, %v) after call %d failed with a plain error wrapping a fatal one, although the context is not cancelled", rd.res, rd.err, len(rd.calls))
				}
				rd.endClass = "plain-wrapping-fatal-ended-the-loop"
				break
			}
			if rd.ctxErrAtFinish == nil {
				if last == nil {
					return 0, c18V("C18/gave-up-without-cause", "the closure returned (%v, %v) without calling the operation although the context is not cancelled", rd.res, rd.err)
				}
				return 0, c18V("C18/gave-up-without-cause", "the closure returned (%v, %v) after plain error %v of call %d although the context is not cancelled", rd.res, rd.err, last.err, len(rd.calls))
			}
			rd.endClass = "cancel:" + rd.cancelWhere
			if rd.err != rd.ctxErrAtFinish {
				return 0, c18V("C18/cancel-wrong-error", "context cancelled with %v but the closure returned error %v", rd.ctxErrAtFinish, rd.err)
			}
			if rd.res != nil {
				return 0, c18V("C18/cancel-result-not-nil", "the closure returned result %v together with the context error", rd.res)
			}
			want := rd.invokeAt
			if last != nil {
				want = last.exit
			}
			if m.cancelAt.After(want) {
				want = m.cancelAt
			}
			if !rd.finishAt.Equal(want) {
				return 0, c18V("C18/wait-not-cut-by-cancel", "the closure returned %v after the cancellation / end of the last call, expected at that very instant", rd.finishAt.Sub(want))
			}
		}
		// degenerate back-off: every gap zero over >= 64 bits of support
		if n := len(rd.calls); n >= 12 {
			bits, allZero := 0, true
			for i := 1; i < n; i++ {
				if !rd.calls[i].entry.Equal(rd.calls[i-1].exit) {
					allZero = false
					break
				}
				if i > 31 {
					bits += 31
				} else {
					bits += i
				}
			}
			if allZero && bits >= 64 {
				return 0, c18V("C18/backoff-degenerate", "all %d retries started with zero delay (probability 2^-%d for uniform slots)", n-1, bits)
			}
		}
		return c18Finished, nil
	case last != nil && !last.exited:
		return c18InCall, nil
	case last == nil:
		return 0, c18V("C18/first-call-delayed", "at quiescence after the invocation the closure has neither called the operation nor returned (ctx cancelled: %v)", cancelled)
	default:
		k := len(rd.calls)
		switch last.dir.kind {
		case c18Success:
			return 0, c18V("C18/not-returned-after-success", "call %d succeeded but the closure is still blocked at quiescence", k)
		case c18Fatal:
			return 0, c18V("C18/not-returned-after-fatal", "call %d returned a FatalError but the closure is still blocked at quiescence", k)
		}
		if cancelled {
			return 0, c18V("C18/wait-not-cut-by-cancel", "the closure is still waiting before retry %d at quiescence although the context is cancelled", k)
		}
		if el := now.Sub(last.exit); el >= time.Duration(c18MaxSlots(k))*m.rate {
			return 0, c18V("C18/gap-exceeds-range", "still waiting before retry %d after %s of %v, documented maximum is 2^min(%d,31)-1 = %d", k, m.slots(el), m.rate, k, c18MaxSlots(k))
		}
		return c18InWait, nil
	}
}

// remainingWait: virtual time until the documented bound of the current wait expires (state c18InWait).
func (m *c18Machine) remainingWait() (k int, rem time.Duration) {
	m.mu.Lock()
	defer m.mu.Unlock()
	rd := m.rd
	k = len(rd.calls)
	last := rd.calls[k-1]
	return k, last.exit.Add(time.Duration(c18MaxSlots(k)) * m.rate).Sub(time.Now())
}

func (m *c18Machine) runToNext() {
	select {
	case <-m.wake:
	default:
	}
	_, rem := m.remainingWait()
	tm := time.NewTimer(rem)
	select {
	case <-m.wake:
	case <-tm.C:
	}
	tm.Stop()
}

func (m *c18Machine) doCancel(where string) {
	rd := m.rd
	m.mu.Lock()
	m.cancelAt = time.Now()
	rd.cancelWhere = where
	rd.callsAtCanc = len(rd.calls)
	m.mu.Unlock()
	m.cancel()
	m.tr("cancel(%s)", where)
}

func (m *c18Machine) drawDirective(t *rapid.T, kind int, rd *c18Round) c18Directive {
	d := c18Directive{kind: kind, withRes: rapid.Bool().Draw(t, "withRes")}
	switch kind {
	case c18Plain:
		d.plainKind = rapid.SampledFrom([]string{"ptr", "ptr", "ptr", "ptr", "value", "canceled", "deadline", "wraps-canceled", "uncomparable", "wraps-fatal"}).Draw(t, "plainKind")
	case c18Fatal:
		d.depth = rd.depth
		d.sentinel = rapid.SampledFrom([]string{"ptr", "ptr", "errors.New", "value", "wrapping", "canceled"}).Draw(t, "sentinel")
	}
	return d
}

func (m *c18Machine) planRound(t *rapid.T, n int) *c18Round {
	rd := &c18Round{n: n, gate: make(chan c18Directive)}
	bucket := rapid.SampledFrom([]string{"0-3", "0-3", "0-3", "4-10", "4-10", "4-10", "11-25", "11-25", "31-40", "31-40"}).Draw(t, "failBucket")
	switch bucket {
	case "0-3":
		rd.nFail = rapid.IntRange(0, 3).Draw(t, "nFail")
	case "4-10":
		rd.nFail = rapid.IntRange(4, 10).Draw(t, "nFail")
	case "11-25":
		rd.nFail = rapid.IntRange(11, 25).Draw(t, "nFail")
	default:
		rd.nFail = rapid.IntRange(31, c18MaxFailures).Draw(t, "nFail")
	}
	if rd.nFail > m.maxFail {
		rd.nFail = m.maxFail
	}
	canCancel := m.cancel != nil
	terms := []int{c18Success, c18Success, c18Fatal, c18Fatal, c18Fatal}
	if canCancel {
		terms = append(terms, c18Forever, c18Forever, c18Forever)
	}
	rd.terminal = rapid.SampledFrom(terms).Draw(t, "terminal")
	if rd.terminal == c18Fatal {
		rd.depth = rapid.IntRange(1, 4).Draw(t, "fatalDepth")
	}
	rd.cancelKind = "never"
	if canCancel {
		kinds := []string{"never", "never", "never", "call", "self", "wait"}
		if rd.terminal == c18Forever {
			kinds = []string{"call", "self", "wait", "wait"}
		}
		rd.cancelKind = rapid.SampledFrom(kinds).Draw(t, "cancelKind")
		switch rd.cancelKind {
		case "call", "self":
			if rd.terminal == c18Forever {
				rd.cancelAtN = rd.nFail + 1
			} else {
				// bias towards late points: the interesting ones have retries behind them
				rd.cancelAtN = rd.nFail + 1 - rapid.IntRange(0, rd.nFail).Draw(t, "cancelBack")
			}
		case "wait":
			if rd.nFail == 0 {
				rd.cancelKind, rd.cancelAtN = "call", 1
			} else if rd.terminal == c18Forever {
				rd.cancelAtN = rd.nFail
			} else {
				rd.cancelAtN = rd.nFail - rapid.IntRange(0, rd.nFail-1).Draw(t, "cancelBack")
			}
			rd.cancelFrac = rapid.SampledFrom([]string{"now", "later", "later"}).Draw(t, "cancelFrac")
		}
	}
	return rd
}

func c18TermString(rd *c18Round) string {
	switch rd.terminal {
	case c18Success:
		return "success"
	case c18Fatal:
		return fmt.Sprintf("fatal^%d", rd.depth)
	}
	return "forever"
}

func (m *c18Machine) runRound(t *rapid.T, n int) {
	rd := m.planRound(t, n)
	rd.preCancel = m.ctxErr() != nil
	if rd.preCancel {
		rd.cancelWhere = "before"
	}
	m.tr("round%d(fail=%d,end=%s,cancel=%s@%d%s,pre-cancelled=%v)", n, rd.nFail, c18TermString(rd), rd.cancelKind, rd.cancelAtN, rd.cancelFrac, rd.preCancel)
	m.mu.Lock()
	m.rd = rd
	m.mu.Unlock()
	m.rounds = append(m.rounds, rd)
	rd.invokeAt = time.Now()
	fn := m.fn
	rd.op = vkit.Launch("retry", func() any {
		defer m.signal()
		res, err := fn()
		m.mu.Lock()
		rd.finished, rd.finishAt, rd.res, rd.err, rd.ctxErrAtFinish = true, time.Now(), res, err, m.ctxErr()
		m.mu.Unlock()
		return nil
	})
	ff := false
	for steps := 0; ; steps++ {
		if steps > 40*c18MaxFailures {
			panic("c18 harness: driver does not converge")
		}
		state := m.observe()
		if state == c18Finished {
			break
		}
		m.mu.Lock()
		nCalls := len(rd.calls)
		m.mu.Unlock()
		switch state {
		case c18InCall:
			ff = false
			callNo := nCalls
			// the scripted outcome of this call
			kind := c18Plain
			if callNo > rd.nFail {
				kind = rd.terminal
				if kind == c18Forever {
					kind = c18Plain
				}
			}
			cancelHere := m.cancellable() && (rd.cancelKind == "call" || rd.cancelKind == "self") && callNo >= rd.cancelAtN
			forced := m.cancellable() && rd.terminal == c18Forever && callNo > rd.nFail+3 // the wait plan keeps missing: end it here
			sleepNow := rd.sleptInCall != callNo && rapid.IntRange(0, 5).Draw(t, "sleepInCall") == 0
			sleepInCall := func() {
				// whole slots: keeps a deadline off the grid of all other events
				rd.sleptInCall = callNo
				q := rapid.IntRange(1, 3).Draw(t, "callSlots")
				time.Sleep(time.Duration(q) * m.rate)
				m.tr("call%d:sleep(%d)", callNo, q)
			}
			if sleepNow && rapid.Bool().Draw(t, "sleepBeforeCancel") {
				sleepInCall()
				continue
			}
			if cancelHere || forced {
				if rd.cancelKind == "self" && !forced {
					d := m.drawDirective(t, kind, rd)
					d.selfCancel = true
					m.mu.Lock()
					rd.cancelWhere, rd.callsAtCanc = "in-call-self", nCalls
					m.mu.Unlock()
					m.tr("call%d=%s", callNo, c18DirString(d))
					rd.gate <- d
					continue
				}
				m.doCancel("in-call")
				if st := m.observe(); st != c18InCall {
					panic("c18 harness: gated call left its gate")
				}
			}
			if sleepNow {
				sleepInCall()
				continue
			}
			// quiet stretch ahead: plain failures with nothing planned, may be fast-forwarded
			quiet := rd.nFail - callNo + 1 // calls callNo..nFail fail plainly
			if m.cancel != nil && m.ctxErr() == nil && rd.cancelKind != "never" {
				// calls before the planned point; call cancelAtN itself (call plan) / failure cancelAtN
				// (wait plan) is released by the driver
				lim := rd.cancelAtN - callNo
				if lim < quiet {
					quiet = lim
				}
			}
			if kind == c18Plain && quiet >= 2 && rapid.IntRange(0, 3).Draw(t, "ff") != 0 {
				nff := quiet
				if rapid.IntRange(0, 2).Draw(t, "ffAll") == 0 {
					nff = rapid.IntRange(2, quiet).Draw(t, "ffN")
				}
				m.mu.Lock()
				rd.auto = nff - 1
				m.mu.Unlock()
				rd.ffUsed = true
				ff = true
				m.tr("call%d..%d=plain(ff)", callNo, callNo+nff-1)
				rd.gate <- c18Directive{kind: c18Plain, plainKind: "ptr"}
				continue
			}
			d := m.drawDirective(t, kind, rd)
			m.tr("call%d=%s", callNo, c18DirString(d))
			rd.gate <- d
		case c18InWait:
			k := nCalls // waiting before retry k
			if ff {
				// fast-forward runs until the next gated call (or the end)
				m.runToNext()
				continue
			}
			cancelHere := m.cancellable() && rd.cancelKind == "wait" && k >= rd.cancelAtN
			if cancelHere && (rd.cancelFrac == "now" || rd.sleptInWait == k) {
				m.doCancel("in-wait")
				continue
			}
			_, rem := m.remainingWait()
			remSlots := int64(rem / m.rate)
			wantSleep := cancelHere || (rd.sleptInWait != k && rapid.IntRange(0, 3).Draw(t, "sleepInWait") == 0)
			if wantSleep && remSlots >= 1 {
				rd.sleptInWait = k
				q := rapid.Int64Range(1, remSlots).Draw(t, "waitSlots")
				time.Sleep(time.Duration(q) * m.rate)
				m.tr("wait%d:sleep(%d)", k, q)
				continue
			}
			if cancelHere {
				m.doCancel("in-wait")
				continue
			}
			m.tr("wait%d:next", k)
			m.runToNext()
		}
	}
	m.tr("round%d=%s(calls=%d)", n, rd.endClass, len(rd.calls))
}

func c18Run(t *rapid.T, st *vkit.Stats) {
	m := &c18Machine{t: t, st: st, quit: make(chan struct{}), wake: make(chan struct{}, 1)}
	vkit.CaseStart(func() string { return strings.Join(m.trace, " ; ") })
	defer m.cleanup()

	m.rateArg = rapid.SampledFrom([]time.Duration{-1, math.MinInt64, 0, 0, 1, 7, time.Microsecond, time.Microsecond, time.Millisecond, time.Millisecond, 4 * time.Second,
		// rates that are not round numbers: slots x rate then has no trailing zero bits to spare (exact integer arithmetic matters beyond 2^53 ns)
		time.Second + 7, 4*time.Second + 3, 1500000001, time.Millisecond + 1}).Draw(t, "rate")
	m.rate = m.rateArg
	if m.rate <= 0 {
		m.rate = c18DefaultRate
	}
	m.maxFail = c18FailureCap(m.rate)
	kinds := []string{"nil", "background", "cancel", "cancel", "cancel", "cancel", "cancelled"}
	if m.rate >= 2 {
		kinds = append(kinds, "deadline", "deadline")
	}
	m.ctxKind = rapid.SampledFrom(kinds).Draw(t, "ctx")
	// a cancellation may carry a cause (WithCancelCause / WithDeadlineCause): what the retry loop returns is the
	// context's error all the same
	withCause := rapid.IntRange(0, 2).Draw(t, "withCause") == 0
	dlSlots := int64(-1)
	switch m.ctxKind {
	case "nil":
	case "background":
		m.ctx = context.Background()
	case "cancel":
		m.ctx, m.cancel = c18Cancellable(withCause)
		m.obsCtx = m.ctx
	case "cancelled":
		m.ctx, m.cancel = c18Cancellable(withCause)
		m.obsCtx = m.ctx
		m.cancel()
		m.cancelAt = time.Now()
	case "deadline":
		// off the slot grid: every other event of the case happens at start + n*rate
		hi := int64(1) << uint(rapid.IntRange(0, 14).Draw(t, "deadlineMag"))
		dlSlots = rapid.Int64Range(0, hi).Draw(t, "deadlineSlots")
		m.deadline = time.Now().Add(time.Duration(dlSlots)*m.rate + m.rate/2)
		if withCause {
			m.ctx, m.cancel = context.WithDeadlineCause(context.Background(), m.deadline, errors.New("c18: the deadline's cause, not the context's error"))
		} else {
			m.ctx, m.cancel = context.WithDeadline(context.Background(), m.deadline)
		}
		m.obsCtx = m.ctx
	}
	if dlSlots >= 0 {
		m.tr("new(rate=%v,ctx=deadline@%d.5 slots)", m.rateArg, dlSlots)
	} else {
		m.tr("new(rate=%v,ctx=%s)", m.rateArg, m.ctxKind)
	}

	// ---- constructor
	if _, pv := vkit.Call(func() any { return bigbuff.ExponentialRetry(m.ctx, m.rateArg, nil) }); pv == nil {
		m.fail("C18/nil-value-no-panic", "ExponentialRetry(ctx, %v, nil) did not panic", m.rateArg)
	}
	res, pv := vkit.Call(func() any { return bigbuff.ExponentialRetry(m.ctx, m.rateArg, m.value) })
	if pv != nil {
		m.fail("C18/constructor-panic", "ExponentialRetry(%s ctx, %v, value) panicked: %v", m.ctxKind, m.rateArg, pv)
	}
	m.fn = res.(func() (any, error))
	if m.fn == nil {
		m.fail("C18/constructor-panic", "ExponentialRetry returned a nil func")
	}
	synctest.Wait()
	if m.strayCalls() != 0 {
		m.fail("C18/constructor-calls-value", "ExponentialRetry called value %d time(s) before the closure was invoked", m.strayCalls())
	}

	nRounds := rapid.SampledFrom([]int{1, 1, 1, 2, 2, 3}).Draw(t, "rounds")
	for n := 1; n <= nRounds; n++ {
		m.runRound(t, n)
	}

	// ---- teardown + leak oracle
	m.mu.Lock()
	m.rd = nil
	m.mu.Unlock()
	if m.cancel != nil {
		m.cancel()
	}
	time.Sleep(time.Hour)
	synctest.Wait()
	if m.strayCalls() != 0 {
		m.fail("C18/call-after-return", "value was called %d time(s) after the last invocation had returned", m.strayCalls())
	}
	if left := vkit.BubbleOthers(); len(left) != 0 {
		m.fail("C18/goroutine-leak", "%d goroutine(s) alive after every invocation returned:\n%s", len(left), vkit.DescribeGoroutines(left))
	}

	m.ended = true

	// ---- evidence
	nt := false
	cls := []string{"rate:" + m.rateArg.String(), "ctx:" + m.ctxKind, fmt.Sprintf("rounds:%d", nRounds)}
	seen := map[string]bool{}
	add := func(c string) {
		if !seen[c] {
			seen[c] = true
			cls = append(cls, c)
		}
	}
	for _, rd := range m.rounds {
		nc := len(rd.calls)
		add("end:" + rd.endClass)
		switch {
		case nc == 0:
			add("calls:0")
		case nc == 1:
			add("calls:1")
		case nc <= 4:
			add("calls:2-4")
		case nc <= 12:
			add("calls:5-12")
		case nc <= 31:
			add("calls:13-31")
		default:
			add("calls:32+")
		}
		if rd.ffUsed {
			add("fast-forward")
		}
		if rd.n > 1 && nc > 1 {
			add("reinvoked-with-retries")
		}
		landed := strings.Contains(rd.cancelWhere, "in-call") || strings.Contains(rd.cancelWhere, "in-wait")
		if landed {
			add("cancel-landed:" + rd.cancelWhere)
			if rd.callsAtCanc >= 4 {
				add("nt:cancel-after-3-retries")
				nt = true
			}
			if nc > 0 && rd.calls[nc-1].dir.kind != c18Plain {
				add("cancel-in-flight-then-" + rd.endClass)
			}
		}
		if nc > 0 && rd.calls[nc-1].dir.kind == c18Fatal && rd.calls[nc-1].dir.depth >= 2 {
			add("nt:nested-fatal")
			nt = true
		}
		if nc >= 32 {
			add("nt:k>=31")
			nt = true
		}
	}
	st.Case(m.trace, nt, cls...)
}

func TestC18Retry(t *testing.T) {
	st := vkit.For("c18_retry")
	rapid.Check(t, func(t *rapid.T) {
		rapid.SyncTest(t, func(t *rapid.T) {
			c18Run(t, st)
		})
	})
}

// c18ChainHasFatal reports whether err or anything reachable through Unwrap is bigbuff's fatal wrapper.
func c18ChainHasFatal(err error) bool {
	for depth := 0; err != nil && depth < 64; depth++ {
		if strings.Contains(fmt.Sprintf("%T", err), "fatalError") {
			return true
		}
		switch u := err.(type) {
		case interface{ Unwrap() error }:
			err = u.Unwrap()
		case interface{ Unwrap() []error }:
			for _, e := range u.Unwrap() {
				if c18ChainHasFatal(e) {
					return true
				}
			}
			return false
		default:
			return false
		}
	}
	return false
}
