//go:build go1.25

package props

// exclstep — bigbuff.Exclusive in a synctest bubble (C09: never two work functions of one key at once,
// keys independent; C10: every call answered exactly once by an execution begun after it, coalesced calls
// share one result, resolve-not-called, Start followed by an execution, executions <= calls, no per-key
// state left).
//
// Work functions are harness closures (one per call) that stamp start / resolve / return on a logical
// clock and block on gates that rules open, so "resolved but not yet returned", "waiting out a CallAfter
// delay", "key A held open while key B runs" are generated states. The oracle needs no prediction of the
// wait arithmetic: on one key executions are sequential and each one answers exactly the calls made since
// the previous execution began, hence the execution answering a call is the FIRST execution of its key that
// starts after the call was made.

import (
	"context"
	"errors"
	"fmt"
	"math"
	"os"
	"reflect"
	"strings"
	"sync"
	"testing"
	"testing/synctest"
	"time"

	bigbuff "github.com/joeycumines/go-bigbuff"
	"pgregory.net/rapid"

	"verif/harness/vkit"
)

type exExec struct {
	id        int
	key       int
	fnOf      int // call whose closure is being executed
	start     int64
	startAt   time.Time
	resolveAt int64 // 0 = not yet
	returnAt  int64
	skip      bool // returns without calling resolve
	workStyle bool
	minDur    time.Duration // rate-limit wrapper duration (0 = none)
	rlCancel  context.CancelFunc
	rlDone    bool // the rate limiter's context has been cancelled (no minimum duration from then on)
	gateR     chan struct{}
	gateT     chan struct{}
	rOpen     bool
	tOpen     bool
	resErr    error
}

type exCall struct {
	id      int
	key     int
	style   string
	wait    time.Duration
	invoked int64
	at      time.Time
	op      *vkit.Op                         // blocking styles
	ch      <-chan *bigbuff.ExclusiveOutcome // async styles
	got     *bigbuff.ExclusiveOutcome
	done    bool
	isStart bool
	skip    bool
	minDur  time.Duration
	rlCtx   context.Context
	rlCan   context.CancelFunc
}

type exMachine struct {
	sharedRL   map[time.Duration]bigbuff.ExclusiveOption
	sharedUsed int

	prof  string
	t     *rapid.T
	st    *vkit.Stats
	e     *bigbuff.Exclusive
	mu    sync.Mutex
	clock int64
	calls []*exCall
	execs []*exExec
	open  map[int]int // key -> number of executions currently inside their work function
	viol  string      // set from inside work functions
	trace []string
	keys  []any
	rlCtx context.Context
	rlCan context.CancelFunc

	gapArrival  bool
	twoKeysOpen bool
	mixedBatch  bool
	skipWaiter  bool
	released    bool
}

type exAbort struct{}

func (m *exMachine) on(p ...string) bool {
	if m.prof == "" {
		return true
	}
	for _, x := range p {
		if x == m.prof {
			return true
		}
	}
	return false
}

func (m *exMachine) tick() int64 { m.clock++; return m.clock } // callers hold m.mu

func (m *exMachine) tr(f string, a ...any) { m.trace = append(m.trace, fmt.Sprintf(f, a...)) }

func (m *exMachine) releaseAll() {
	m.openGates()
	m.rlCan()
}

func (m *exMachine) openGates() {
	m.mu.Lock()
	m.released = true
	for _, e := range m.execs {
		if !e.rOpen {
			e.rOpen = true
			close(e.gateR)
		}
		if !e.tOpen {
			e.tOpen = true
			close(e.gateT)
		}
	}
	m.mu.Unlock()
}

func (m *exMachine) fail(sig, f string, a ...any) {
	m.t.Helper()
	if tags := strings.Split(sig[:strings.Index(sig, "/")], "+"); !m.on(tags...) {
		vkit.Other(m.st, sig)
		m.releaseAll()
		panic(exAbort{})
	}
	msg := fmt.Sprintf("%s\ntrace: %s", fmt.Sprintf(f, a...), strings.Join(m.trace, " ; "))
	vkit.Announce(sig, "%s", msg)
	m.releaseAll()
	m.t.Fatalf("[%s] %s", sig, msg)
}

var exErrTag = errors.New("exclstep result error")

// body is what every harness work function does once it is executed.
func (m *exMachine) body(c *exCall, workStyle bool, resolve func(any, error)) (any, error) {
	m.mu.Lock()
	e := &exExec{id: len(m.execs), key: c.key, fnOf: c.id, start: m.tick(), startAt: time.Now(), skip: c.skip, workStyle: workStyle,
		minDur: c.minDur, rlCancel: c.rlCan, gateR: make(chan struct{}), gateT: make(chan struct{})}
	if m.released {
		e.rOpen, e.tOpen = true, true
		close(e.gateR)
		close(e.gateT)
	}
	m.execs = append(m.execs, e)
	m.open[c.key]++
	if m.open[c.key] > 1 && m.viol == "" {
		m.viol = fmt.Sprintf("execution %d (closure of call %d) started on key %d while another work function of that key has not returned", e.id, c.id, c.key)
	}
	m.mu.Unlock()
	<-e.gateR
	var err error
	if e.id%3 == 2 {
		err = fmt.Errorf("%w #%d", exErrTag, e.id)
	}
	e.resErr = err
	if workStyle {
		if !e.skip {
			m.mu.Lock()
			e.resolveAt = m.tick()
			m.mu.Unlock()
			resolve(e.id, err)
		}
		<-e.gateT
	}
	m.mu.Lock()
	e.returnAt = m.tick()
	if !workStyle {
		e.resolveAt = e.returnAt
	}
	m.open[c.key]--
	m.mu.Unlock()
	return e.id, err
}

// answering returns the first execution of the call's key that started after the call was made.
func (m *exMachine) answering(c *exCall) *exExec {
	for _, e := range m.execs {
		if e.key == c.key && e.start > c.invoked {
			return e
		}
	}
	return nil
}

func (m *exMachine) settle() {
	synctest.Wait()
	m.check()
}

func (m *exMachine) check() {
	if sig, msg := m.checkLocked(); sig != "" {
		m.fail(sig, "%s", msg)
	}
}

func (m *exMachine) checkLocked() (fsig, fmsg string) {
	m.mu.Lock()
	defer m.mu.Unlock()
	if m.viol != "" {
		return "C09/overlap", m.viol
	}
	// executions: the closure belongs to a call of that key made before the execution began, none runs twice
	seenFn := map[int]int{}
	nOpenKeys := 0
	for k, n := range m.open {
		_ = k
		if n > 0 {
			nOpenKeys++
		}
	}
	if nOpenKeys >= 2 {
		m.twoKeysOpen = true
	}
	for _, e := range m.execs {
		c := m.calls[e.fnOf]
		if prev, dup := seenFn[e.fnOf]; dup {
			return "C10/function-executed-twice", fmt.Sprintf("the closure of call %d was executed by executions %d and %d: executions outnumber calls", e.fnOf, prev, e.id)
		}
		seenFn[e.fnOf] = e.id
		if c.invoked > e.start {
			return "C10/harness", fmt.Sprintf("closure executed before its call was made")
		}
	}
	if len(m.execs) > len(m.calls) {
		return "C10/executions-outnumber-calls", fmt.Sprintf("%d executions for %d calls", len(m.execs), len(m.calls))
	}
	// rate-limited executions keep the key busy for the minimum duration
	for i, e := range m.execs {
		if e.minDur <= 0 || e.rlDone || m.rlCtx.Err() != nil {
			continue
		}
		for _, n := range m.execs[i+1:] {
			if n.key == e.key && n.startAt.Sub(e.startAt) < e.minDur {
				return "C09/rate-limit-overlap", fmt.Sprintf("execution %d started %v after rate-limited execution %d (min %v) of the same key began", n.id, n.startAt.Sub(e.startAt), e.id, e.minDur)
			}
			break
		}
	}
	// calls
	for _, c := range m.calls {
		if c.done {
			continue
		}
		a := m.answering(c)
		resolved := a != nil && (a.resolveAt != 0 || a.returnAt != 0)
		if resolved && a.resolveAt == 0 && a.minDur > 0 && !a.rlDone && m.rlCtx.Err() == nil && time.Since(a.startAt) < a.minDur {
			// the work function returned without resolving, but it is wrapped by the rate limiter, which
			// only returns (and lets the forced resolve-not-called outcome happen) after its minimum duration
			resolved = false
		}
		if c.isStart {
			if a != nil {
				c.done = true
			}
			continue
		}
		var got *bigbuff.ExclusiveOutcome
		finished := false
		if c.op != nil {
			if c.op.Finished() {
				finished = true
				if c.op.Panic != nil {
					return "C10/call-panic", fmt.Sprintf("call %d (%s) panicked: %v", c.id, c.style, c.op.Panic)
				}
				got = c.op.Res.(*bigbuff.ExclusiveOutcome)
			}
		} else {
			select {
			case o, ok := <-c.ch:
				finished = true
				if !ok || o == nil {
					return "C10/outcome-missing", fmt.Sprintf("call %d (%s): outcome channel closed without delivering an outcome", c.id, c.style)
				}
				got = o
				select {
				case o2, ok2 := <-c.ch:
					if ok2 || o2 != nil {
						return "C10/outcome-twice", fmt.Sprintf("call %d (%s) received a second outcome %v", c.id, c.style, o2)
					}
				default:
					return "C10/outcome-not-closed", fmt.Sprintf("call %d (%s): outcome channel not closed after the outcome was delivered", c.id, c.style)
				}
			default:
			}
		}
		if finished != resolved {
			if finished {
				return "C10/answered-early", fmt.Sprintf("call %d (%s key %d made at t=%d) received %v/%v although no execution begun after it has resolved (answering execution: %v)", c.id, c.style, c.key, c.invoked, got.Result, got.Error, a)
			}
			return "C10/call-hang", fmt.Sprintf("call %d (%s key %d) still waiting at quiescence although execution %d, the first begun after it, has resolved/returned", c.id, c.style, c.key, a.id)
		}
		if !finished {
			continue
		}
		c.done, c.got = true, got
		if a.skip && a.workStyle {
			if got.Error == nil || got.Result != nil || !strings.Contains(got.Error.Error(), "resolve not called") {
				return "C10/resolve-not-called", fmt.Sprintf("call %d answered by execution %d which returned without resolving: got %v/%v, expected the resolve-not-called error", c.id, a.id, got.Result, got.Error)
			}
			m.skipWaiter = true
		} else {
			if got.Result != any(a.id) || got.Error != a.resErr {
				if id, ok := got.Result.(int); ok && id < len(m.execs) && m.execs[id].start < c.invoked {
					return "C10/stale-result", fmt.Sprintf("call %d (%s key %d made at t=%d) received the result of execution %d which began earlier (t=%d)", c.id, c.style, c.key, c.invoked, id, m.execs[id].start)
				}
				return "C10/wrong-outcome", fmt.Sprintf("call %d (%s key %d) received %v/%v, its answering execution %d resolved %v/%v", c.id, c.style, c.key, got.Result, got.Error, a.id, a.id, a.resErr)
			}
		}
	}
	// an execution must be under way when calls wait and nothing holds them back
	now := time.Now()
	for key := range m.keys {
		if m.open[key] > 0 {
			continue
		}
		var first *exCall
		maxWait := time.Duration(0)
		for _, c := range m.calls {
			if c.key == key && m.answering(c) == nil {
				if first == nil {
					first = c
				}
				if c.wait > maxWait {
					maxWait = c.wait
				}
			}
		}
		if first == nil {
			continue
		}
		// the previous execution of a rate-limited batch may still be inside its wrapper
		busyUntil := time.Time{}
		for _, e := range m.execs {
			if e.key == key && e.minDur > 0 && !e.rlDone && m.rlCtx.Err() == nil {
				if u := e.startAt.Add(e.minDur); u.After(busyUntil) {
					busyUntil = u
				}
			}
		}
		if now.Sub(first.at) >= maxWait && !now.Before(busyUntil) {
			return "C10/lost-call", fmt.Sprintf("call %d (%s key %d, wait %v, made %v ago) has no execution begun after it, although no work function of that key is running and every wait has elapsed", first.id, first.style, key, first.wait, now.Sub(first.at))
		}
	}
	return "", ""
}

func (m *exMachine) ruleCall(t *rapid.T) {
	if len(m.calls) >= 14 {
		t.Skip("enough calls")
	}
	key := rapid.IntRange(0, len(m.keys)-1).Draw(t, "key")
	style := rapid.SampledFrom([]string{"Call", "CallAfter", "CallAsync", "CallAfterAsync", "Start", "StartAfter", "Options", "Options", "OptionsStart"}).Draw(t, "style")
	wait := time.Duration(0)
	if strings.Contains(style, "After") || strings.HasPrefix(style, "Options") {
		wait = rapid.SampledFrom([]time.Duration{-1, -time.Hour, math.MinInt64, 0, 0, time.Millisecond, time.Millisecond, time.Hour, time.Hour}).Draw(t, "wait")
	}
	c := &exCall{id: len(m.calls), key: key, style: style, wait: wait}
	if wait < 0 {
		c.wait = 0
	}
	k := m.keys[key]
	value := func() (any, error) { return m.body(c, false, nil) }
	work := func(resolve func(any, error)) { _, _ = m.body(c, true, resolve) }
	// a call made while an execution of its key is between resolve and return
	m.mu.Lock()
	for _, e := range m.execs {
		if e.key == key && e.resolveAt != 0 && e.returnAt == 0 {
			m.gapArrival = true
		}
	}
	c.invoked = m.tick()
	c.at = time.Now()
	m.calls = append(m.calls, c)
	m.mu.Unlock()
	e := m.e
	switch style {
	case "Call":
		c.op = vkit.Launch("Call", func() any { r, err := e.Call(k, value); return &bigbuff.ExclusiveOutcome{Result: r, Error: err} })
	case "CallAfter":
		c.op = vkit.Launch("CallAfter", func() any {
			r, err := e.CallAfter(k, value, wait)
			return &bigbuff.ExclusiveOutcome{Result: r, Error: err}
		})
	case "CallAsync":
		c.ch = e.CallAsync(k, value)
	case "CallAfterAsync":
		c.ch = e.CallAfterAsync(k, value, wait)
	case "Start":
		c.isStart = true
		e.Start(k, value)
	case "StartAfter":
		c.isStart = true
		e.StartAfter(k, value, wait)
	case "Options", "OptionsStart":
		c.skip = rapid.IntRange(0, 3).Draw(t, "skipResolve") == 0
		opts := []bigbuff.ExclusiveOption{bigbuff.ExclusiveKey(k), bigbuff.ExclusiveWork(work), bigbuff.ExclusiveWait(wait)}
		switch rapid.IntRange(0, 5).Draw(t, "rateLimit") {
		case 0:
			c.minDur = rapid.SampledFrom([]time.Duration{time.Millisecond, time.Second}).Draw(t, "minDur")
			c.rlCtx, c.rlCan = context.WithCancel(m.rlCtx) // its own context: a rule may cancel it while its work runs
			opts = append(opts, bigbuff.ExclusiveRateLimit(c.rlCtx, c.minDur))
		case 1:
			// one option VALUE built once and passed to calls under any key (an option is a description, not a
			// resource: sharing it must not couple the keys it is used with)
			c.minDur = rapid.SampledFrom([]time.Duration{time.Millisecond, time.Second}).Draw(t, "minDur")
			if m.sharedRL == nil {
				m.sharedRL = map[time.Duration]bigbuff.ExclusiveOption{}
			}
			if _, ok := m.sharedRL[c.minDur]; !ok {
				m.sharedRL[c.minDur] = bigbuff.ExclusiveRateLimit(m.rlCtx, c.minDur)
			}
			c.rlCtx = m.rlCtx
			opts = append(opts, m.sharedRL[c.minDur])
			m.sharedUsed++
		}
		if rapid.Bool().Draw(t, "shuffleOpts") {
			opts[0], opts[1] = opts[1], opts[0]
		}
		if style == "OptionsStart" {
			c.isStart = true
			opts = append(opts, bigbuff.ExclusiveStart(true))
			if ch := e.CallWithOptions(opts...); ch != nil {
				m.fail("C10/start-returned-channel", "CallWithOptions(start) returned a non-nil outcome channel")
			}
		} else {
			c.ch = e.CallWithOptions(opts...)
		}
	}
	if !c.isStart && c.op == nil && c.ch == nil {
		m.fail("C10/nil-channel", "%s returned a nil outcome channel", style)
	}
	m.tr("c%d=%s(k%d,wait=%v,skip=%v,min=%v)", c.id, style, key, wait, c.skip, c.minDur)
	m.settle()
}

func (m *exMachine) ruleRelease(t *rapid.T) {
	m.mu.Lock()
	var cand []*exExec
	for _, e := range m.execs {
		if !e.rOpen || (e.workStyle && !e.tOpen) {
			cand = append(cand, e)
		}
	}
	m.mu.Unlock()
	if len(cand) == 0 {
		t.Skip("nothing to release")
	}
	e := cand[rapid.IntRange(0, len(cand)-1).Draw(t, "exec")]
	m.mu.Lock()
	if !e.rOpen {
		e.rOpen = true
		close(e.gateR)
		m.tr("resolve(e%d)", e.id)
	} else {
		e.tOpen = true
		close(e.gateT)
		m.tr("return(e%d)", e.id)
	}
	m.mu.Unlock()
	m.settle()
}

// ruleCancelRateLimit cancels the context of a rate limiter whose wrapped work function is executing right now. The
// limiter's context only governs the limiter ("cleaning up the resources required to apply the rate limit"): the work
// function keeps running and keeps its key until it returns; merely the minimum duration no longer applies.
func (m *exMachine) ruleCancelRateLimit(t *rapid.T) {
	m.mu.Lock()
	var cand []*exExec
	for _, e := range m.execs {
		if e.minDur > 0 && !e.rlDone && e.returnAt == 0 && e.rlCancel != nil {
			cand = append(cand, e)
		}
	}
	m.mu.Unlock()
	if len(cand) == 0 {
		t.Skip("no rate-limited work function is executing")
	}
	e := cand[rapid.IntRange(0, len(cand)-1).Draw(t, "rlExec")]
	m.mu.Lock()
	e.rlDone = true
	m.mu.Unlock()
	e.rlCancel()
	m.tr("cancelRateLimit(e%d)", e.id)
	m.settle()
}

func (m *exMachine) ruleAdvance(t *rapid.T) {
	d := rapid.SampledFrom([]time.Duration{500 * time.Microsecond, time.Millisecond, time.Second, 30 * time.Minute, time.Hour}).Draw(t, "adv")
	time.Sleep(d)
	m.tr("advance(%v)", d)
	m.settle()
}

func exKeysLen(e *bigbuff.Exclusive) (int, bool) {
	f := reflect.ValueOf(e).Elem().FieldByName("work")
	if !f.IsValid() || f.Kind() != reflect.Map {
		return 0, false
	}
	return f.Len(), true
}

func exRun(t *rapid.T, st *vkit.Stats, prof string) {
	m := &exMachine{prof: prof, t: t, st: st, e: new(bigbuff.Exclusive), open: map[int]int{}}
	m.rlCtx, m.rlCan = context.WithCancel(context.Background())
	vkit.CaseStart(func() string { return strings.Join(m.trace, " ; ") })
	defer func() {
		if r := recover(); r != nil {
			m.releaseAll()
			if _, ok := r.(exAbort); ok {
				return
			}
			panic(r)
		}
	}()
	nKeys := rapid.IntRange(1, 3).Draw(t, "keys")
	all := []any{nil, "a", struct{ X int }{7}}
	m.keys = all[:nKeys]
	acts := map[string]func(*rapid.T){}
	add := func(n string, w int, f func(*rapid.T)) {
		for i := 0; i < w; i++ {
			acts[fmt.Sprintf("%s~%d", n, i)] = f
		}
	}
	add("call", 5, m.ruleCall)
	add("release", 5, m.ruleRelease)
	add("advance", 2, m.ruleAdvance)
	add("cancelRateLimit", 1, m.ruleCancelRateLimit)
	t.Repeat(vkit.NoStarve(acts, nil))

	// ---- drain: open every gate, let every wait elapse
	m.tr("drain")
	for i := 0; i < 40; i++ {
		m.openGates()
		synctest.Wait()
		time.Sleep(2 * time.Hour)
		synctest.Wait()
	}
	m.check()
	for _, c := range m.calls {
		if !c.done {
			if c.isStart {
				m.fail("C10/start-without-execution", "%s (call %d, key %d) was never followed by an execution that began after it", c.style, c.id, c.key)
			}
			m.fail("C10/call-hang", "call %d (%s key %d) never answered although all work finished and every wait elapsed", c.id, c.style, c.key)
		}
	}
	// coalesced calls share one outcome: verified per call against its answering execution; classify batches
	batch := map[int]map[string]bool{}
	for _, c := range m.calls {
		if a := m.answering(c); a != nil {
			if batch[a.id] == nil {
				batch[a.id] = map[string]bool{}
			}
			batch[a.id][c.style] = true
		}
	}
	for _, s := range batch {
		if len(s) >= 2 {
			m.mixedBatch = true
		}
	}
	if m.on("C10") {
		if n, ok := exKeysLen(m.e); ok {
			if n != 0 {
				m.fail("C10/state-left", "%d per-key entries remain after every call was answered and all work finished", n)
			}
		} else {
			st.Metric("key-map-not-observable", 1)
		}
	}
	// a fresh call on each key runs a new execution
	for key, k := range m.keys {
		before := len(m.execs)
		ran := false
		r, err := m.e.Call(k, func() (any, error) { ran = true; return "fresh", nil })
		if !ran || r != any("fresh") || err != nil || len(m.execs) != before {
			m.fail("C10/fresh-call", "a fresh Call on key %d after everything finished: ran=%v result=%v err=%v", key, ran, r, err)
		}
	}
	time.Sleep(3 * time.Hour)
	synctest.Wait()
	if n, ok := exKeysLen(m.e); ok && n != 0 && m.on("C10") {
		m.fail("C10/state-left", "%d per-key entries remain after the fresh calls", n)
	}
	if left := vkit.BubbleOthers(); len(left) != 0 {
		m.fail("C10+C12/exclusive-goroutine-leak", "%d goroutine(s) remain:\n%s", len(left), vkit.DescribeGoroutines(left))
	}
	multiExec := map[int]int{}
	for _, e := range m.execs {
		multiExec[e.key]++
	}
	two := false
	for _, n := range multiExec {
		if n >= 2 {
			two = true
		}
	}
	nt := (two && m.gapArrival) || m.twoKeysOpen
	if prof == "C10" {
		nt = m.mixedBatch || m.skipWaiter
	}
	var cls []string
	flag := func(b bool, n string) {
		if b {
			cls = append(cls, n)
		}
	}
	flag(m.gapArrival, "call-in-resolve-return-gap")
	flag(m.twoKeysOpen, "two-keys-open-at-once")
	flag(m.mixedBatch, "mixed-style-batch")
	flag(m.skipWaiter, "resolve-skipped-with-waiter")
	flag(two, ">=2-executions-on-a-key")
	st.Case(m.trace, nt, cls...)
}

func TestExclStep(t *testing.T) {
	prof := os.Getenv("VKIT_PROFILE")
	st := vkit.For("exclstep_" + prof)
	rapid.Check(t, func(t *rapid.T) {
		rapid.SyncTest(t, func(t *rapid.T) {
			exRun(t, st, prof)
		})
	})
}
