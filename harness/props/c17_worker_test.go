//go:build go1.25

package props

// C17 — bigbuff.Worker: one running instance while held, stopped only after every holder is done.
//
// Two generated domains share one oracle:
//
//   - step mode (model-based stepper inside a synctest bubble): rules do / done / exit, the compound rule
//     "stopdo" (Do issued while the instance is stopping: the Do parks on the Worker's mutex, which synctest
//     does not consider durably blocked, so the rule opens the exit gate itself before it settles) and the
//     compound rule "race" (drawn set of done calls and new Do calls spread over 1..3 goroutines in a drawn
//     order with drawn yields; both outcomes of the hand-over — the Do keeps the instance alive / the
//     instance stops and the Do is served by a fresh one — are accepted and adopted).
//   - free mode: 2..8 holder goroutines looping Do -> yields / virtual sleeps -> probe -> done, the worker
//     function exits by itself after drawn yields.
//
// The worker function handed to Do is the observer: it stamps start / stop-seen / exit on a logical clock
// and blocks, after it saw stop closed, on a gate that only a rule opens. Holders stamp Do-call, Do-return,
// before-done and after-done on the same clock. The oracle is written from the doc comment of Worker.Do
// and the statement of C17, not from the code.

import (
	"bytes"
	"fmt"
	"os"
	"runtime"
	"strings"
	"sync"
	"sync/atomic"
	"testing"
	"testing/synctest"
	"time"

	bigbuff "github.com/joeycumines/go-bigbuff"
	"pgregory.net/rapid"

	"verif/harness/vkit"
)

// ---------------------------------------------------------------------------------------------- world

type c17Inst struct {
	id         int
	by         *c17Hold // the Do call whose function is running
	stop       <-chan struct{}
	gate       chan struct{}
	gateOnce   sync.Once
	gateOpen   bool // main goroutine only
	start      atomic.Int64
	stopSeen   atomic.Int64
	exit       atomic.Int64
	heldAtStop atomic.Int64
}

func (in *c17Inst) open() {
	in.gateOpen = true
	in.gateOnce.Do(func() { close(in.gate) })
}

type c17Hold struct {
	id   int
	done func()
	call atomic.Int64 // before Do is called
	ret  atomic.Int64 // after Do returned
	pre  atomic.Int64 // before the done func is called
	post atomic.Int64 // after the done func returned
	rel  atomic.Bool
	zero atomic.Bool // the harness' count of outstanding holders reached 0 at this done
	op   *vkit.Op
}

type c17Viol struct{ sig, msg string }

type c17World struct {
	wk          *bigbuff.Worker
	clock       atomic.Int64
	held        atomic.Int64 // holders whose Do returned and whose done was not yet called (never over-counts)
	running     atomic.Int64
	auto        atomic.Bool // instances exit by themselves once they saw stop
	quit        chan struct{}
	quitOnce    sync.Once
	startYields int
	exitYields  int

	mu    sync.Mutex
	insts []*c17Inst
	viols []c17Viol
}

func c17NewWorld() *c17World {
	return &c17World{wk: new(bigbuff.Worker), quit: make(chan struct{})}
}

func (w *c17World) tick() int64 { return w.clock.Add(1) }

func (w *c17World) violate(sig, format string, args ...any) {
	w.mu.Lock()
	w.viols = append(w.viols, c17Viol{sig, fmt.Sprintf(format, args...)})
	w.mu.Unlock()
}

func (w *c17World) firstViol() *c17Viol {
	w.mu.Lock()
	defer w.mu.Unlock()
	if len(w.viols) == 0 {
		return nil
	}
	v := w.viols[0]
	return &v
}

func (w *c17World) snapshot() []*c17Inst {
	w.mu.Lock()
	defer w.mu.Unlock()
	return append([]*c17Inst(nil), w.insts...)
}

var c17StackBuf = make([]byte, 256<<10)

// c17MaybeLeak is a cheap pre-check for vkit.BubbleOthers (which allocates a large buffer per call): it
// reports whether the goroutine dump shows any goroutine of the caller's bubble besides the caller and the
// synctest runner. When in doubt it says yes.
func c17MaybeLeak() bool {
	n := runtime.Stack(c17StackBuf, true)
	if n >= len(c17StackBuf) {
		return true
	}
	blocks := bytes.Split(c17StackBuf[:n], []byte("\n\n"))
	hdr := func(b []byte) []byte {
		if i := bytes.IndexByte(b, '\n'); i >= 0 {
			return b[:i]
		}
		return b
	}
	me := hdr(blocks[0])
	i := bytes.Index(me, []byte("synctest bubble "))
	if i < 0 {
		return true
	}
	tag := me[i:]
	if j := bytes.IndexAny(tag, ",]"); j >= 0 {
		tag = tag[:j]
	}
	for _, b := range blocks[1:] {
		h := hdr(b)
		k := bytes.Index(h, tag)
		if k < 0 {
			continue
		}
		if rest := h[k+len(tag):]; len(rest) > 0 && rest[0] >= '0' && rest[0] <= '9' {
			continue // another bubble whose number has this one as a prefix
		}
		if bytes.Contains(b, []byte("internal/synctest.Run")) || bytes.Contains(b, []byte("synctest.testingSynctestTest")) {
			continue
		}
		return true
	}
	return false
}

func c17Yield(n int) {
	for i := 0; i < n; i++ {
		runtime.Gosched()
	}
}

// c17Spin gives the other goroutines ample opportunity to run without declaring quiescence (used only while
// a goroutine may be parked on the Worker's mutex, where synctest.Wait would stall).
func c17Spin(units int) {
	c17Yield(100 * units)
}

func c17Open(ch <-chan struct{}) bool {
	select {
	case <-ch:
		return false
	default:
		return true
	}
}

// fn is the worker function handed to Do by hold h.
func (w *c17World) fn(h *c17Hold) func(stop <-chan struct{}) {
	return func(stop <-chan struct{}) {
		in := &c17Inst{by: h, stop: stop, gate: make(chan struct{})}
		c17Yield(w.startYields)
		n := w.running.Add(1)
		w.mu.Lock()
		in.id = len(w.insts)
		w.insts = append(w.insts, in)
		in.start.Store(w.tick())
		w.mu.Unlock()
		if n != 1 {
			w.violate("C17/two-instances-running", "instance i%d started while %d earlier instance(s) had not returned", in.id, n-1)
		}
		if stop == nil {
			w.violate("C17/nil-stop-channel", "instance i%d was given a nil stop channel", in.id)
			in.stopSeen.Store(w.tick())
			in.exit.Store(w.tick())
			w.running.Add(-1)
			return
		}
		<-stop
		heldNow := w.held.Load()
		in.heldAtStop.Store(heldNow)
		in.stopSeen.Store(w.tick())
		if heldNow != 0 {
			w.violate("C17/stopped-while-held", "instance i%d saw its stop channel closed while %d done func(s) of returned Do calls were not yet called", in.id, heldNow)
		} else if !w.auto.Load() {
			select {
			case <-in.gate:
			case <-w.quit:
			}
		}
		c17Yield(w.exitYields)
		in.exit.Store(w.tick())
		w.running.Add(-1)
	}
}

// do is the body of a launched Do call.
func (w *c17World) do(h *c17Hold) {
	h.call.Store(w.tick())
	d := w.wk.Do(w.fn(h))
	if d != nil {
		w.held.Add(1)
	}
	h.done = d
	h.ret.Store(w.tick())
	select {
	case <-w.quit: // the case is being torn down: do not keep the instance
		if d != nil {
			w.release(h)
		}
	default:
	}
}

func (w *c17World) release(h *c17Hold) {
	if !h.rel.CompareAndSwap(false, true) {
		return
	}
	h.pre.Store(w.tick())
	if w.held.Add(-1) == 0 {
		h.zero.Store(true)
	}
	h.done()
	h.post.Store(w.tick())
}

func (w *c17World) render(holds []*c17Hold) string {
	var sb strings.Builder
	for _, in := range w.snapshot() {
		by := -1
		if in.by != nil {
			by = in.by.id
		}
		fmt.Fprintf(&sb, " i%d[fn-of=h%d start=%d stop-seen=%d exit=%d]", in.id, by, in.start.Load(), in.stopSeen.Load(), in.exit.Load())
	}
	for _, h := range holds {
		if h.call.Load() == 0 {
			continue
		}
		fmt.Fprintf(&sb, " h%d[do=%d..%d done=%d..%d]", h.id, h.call.Load(), h.ret.Load(), h.pre.Load(), h.post.Load())
	}
	return "clock:" + sb.String()
}

// audit checks the stamps collected so far (call it at a quiescent point). Every comparison is between
// stamps whose real-time order is forced by the statement:
//   - an instance starts only after the previous one returned;
//   - a hold whose Do returned before an instance saw stop had its done called before that;
//   - no Do returns between stop-seen and exit of an instance (a Do that arrives while an instance is
//     stopping waits for it to exit).
func (w *c17World) audit(holds []*c17Hold) *c17Viol {
	insts := w.snapshot()
	for i, in := range insts {
		s, ss, e := in.start.Load(), in.stopSeen.Load(), in.exit.Load()
		if i > 0 {
			pe := insts[i-1].exit.Load()
			if pe == 0 || pe > s {
				return &c17Viol{"C17/two-instances-running", fmt.Sprintf("instance i%d started (t=%d) before instance i%d returned (t=%d)", in.id, s, insts[i-1].id, pe)}
			}
		}
		if ss == 0 {
			continue
		}
		if n := in.heldAtStop.Load(); n != 0 {
			return &c17Viol{"C17/stopped-while-held", fmt.Sprintf("instance i%d saw stop closed while %d holder(s) had not called done", in.id, n)}
		}
		for _, h := range holds {
			r := h.ret.Load()
			if r == 0 {
				continue
			}
			if r < ss {
				if p := h.pre.Load(); p == 0 || p > ss {
					return &c17Viol{"C17/stopped-while-held", fmt.Sprintf("instance i%d saw stop closed at t=%d, but Do of h%d had returned at t=%d and its done func was called at t=%d (0 = never)", in.id, ss, h.id, r, p)}
				}
			} else if e == 0 || r < e {
				return &c17Viol{"C17/do-returned-while-stopping", fmt.Sprintf("Do of h%d returned at t=%d, after instance i%d saw stop (t=%d) and before it returned (t=%d, 0 = not yet)", h.id, r, in.id, ss, e)}
			}
		}
	}
	return nil
}

// overlap: some Do call overlaps, on the logical clock, the window that begins with a done that took the
// number of outstanding holders to zero and ends with that done's return or, when the instance stopped
// because of it, with the exit of the instance.
func (w *c17World) overlap(holds []*c17Hold) (overlap bool, spansStop bool, zeroSurvived bool) {
	insts := w.snapshot()
	for _, d := range holds {
		if !d.zero.Load() {
			continue
		}
		from, to := d.pre.Load(), d.post.Load()
		var stopped *c17Inst
		for _, in := range insts {
			if ss := in.stopSeen.Load(); ss > from {
				stopped = in
				break
			}
		}
		if stopped != nil {
			for _, h := range holds {
				if r := h.ret.Load(); r > from && r < stopped.stopSeen.Load() {
					stopped = nil // some Do returned in between: it kept the instance alive
					zeroSurvived = true
					break
				}
			}
		}
		if stopped != nil {
			if e := stopped.exit.Load(); e > to {
				to = e
			}
		}
		for _, h := range holds {
			c, r := h.call.Load(), h.ret.Load()
			if h == d || c == 0 {
				continue
			}
			if c < to && (r == 0 || r > from) {
				overlap = true
				if stopped != nil {
					if e := stopped.exit.Load(); e != 0 && c < e && r > e {
						spansStop = true
					}
				}
			}
		}
	}
	return
}

// ---------------------------------------------------------------------------------------------- step mode

type c17Machine struct {
	t  *rapid.T
	st *vkit.Stats
	w  *c17World

	holds    []*c17Hold // every Do ever issued
	out      []*c17Hold // Do returned, done not yet called
	pending  []*c17Hold // Do launched in this step
	laneOps  []*vkit.Op
	expInsts int
	trace    []string
	cleaned  bool

	nKept, nHandover, nStopDo, nMidStop, nMultiCreate, nRaceLast int
	maxOut                                                       int
}

func (m *c17Machine) tr(format string, args ...any) {
	m.trace = append(m.trace, fmt.Sprintf(format, args...))
	if os.Getenv("VKIT_DEBUG") != "" {
		fmt.Println("TRACE", m.trace[len(m.trace)-1])
	}
}

func (m *c17Machine) fail(sig string, format string, args ...any) {
	m.t.Helper()
	msg := fmt.Sprintf("%s\ntrace: %s\n%s", fmt.Sprintf(format, args...), strings.Join(m.trace, " ; "), m.w.render(m.holds))
	vkit.Announce(sig, "%s", msg)
	m.cleanup()
	m.t.Fatalf("[%s] %s", sig, msg)
}

// cleanup releases, as far as the (possibly broken) library allows, everything the case still holds so that
// the bubble can end: instances stop waiting for their gate, parked Do calls release what they obtain.
func (m *c17Machine) cleanup() {
	if m.cleaned {
		return
	}
	m.cleaned = true
	w := m.w
	w.auto.Store(true)
	w.quitOnce.Do(func() { close(w.quit) })
	for _, in := range w.snapshot() {
		in.open()
	}
	for round := 0; round < 4; round++ {
		for _, h := range m.holds {
			if h.ret.Load() != 0 && h.done != nil && !h.rel.Load() {
				hh := h
				go func() {
					defer func() { _ = recover() }()
					w.release(hh)
				}()
			}
		}
		c17Spin(2)
	}
}

func (m *c17Machine) newHold() *c17Hold {
	h := &c17Hold{id: len(m.holds)}
	m.holds = append(m.holds, h)
	return h
}

func (m *c17Machine) launchDo() *c17Hold {
	h := m.newHold()
	w := m.w
	h.op = vkit.Launch("Worker.Do", func() any { w.do(h); return nil })
	m.pending = append(m.pending, h)
	return h
}

const (
	c17Idle = iota
	c17Running
	c17Stopping
)

func (m *c17Machine) last() *c17Inst {
	s := m.w.snapshot()
	if len(s) == 0 {
		return nil
	}
	return s[len(s)-1]
}

func (m *c17Machine) phase() int {
	in := m.last()
	switch {
	case in == nil || in.exit.Load() != 0:
		return c17Idle
	case in.stopSeen.Load() != 0:
		return c17Stopping
	}
	return c17Running
}

// settle: quiescence, then every launched call must have returned, then the invariants.
func (m *c17Machine) settle() {
	synctest.Wait()
	for _, op := range m.laneOps {
		if !op.Finished() {
			m.fail("C17/do-blocked", "a goroutine issuing done/Do calls is still blocked at quiescence although no instance is stopping")
		}
		if op.Panic != nil {
			m.fail("C17/call-panic", "done/Do panicked: %v", op.Panic)
		}
	}
	m.laneOps = nil
	for _, h := range m.pending {
		if h.op != nil {
			if h.op.Panic != nil {
				m.fail("C17/call-panic", "Do (h%d) panicked: %v", h.id, h.op.Panic)
			}
			if !h.op.Finished() {
				m.fail("C17/do-blocked", "Do (h%d) is still blocked at quiescence although no instance is stopping", h.id)
			}
		}
		if h.ret.Load() == 0 {
			m.fail("C17/do-blocked", "Do (h%d) did not return by quiescence although no instance is stopping", h.id)
		}
		if h.done == nil {
			m.fail("C17/nil-done", "Do (h%d) returned a nil done func", h.id)
		}
		m.out = append(m.out, h)
	}
	m.pending = nil
	if len(m.out) > m.maxOut {
		m.maxOut = len(m.out)
	}
	m.check()
}

func (m *c17Machine) check() {
	if v := m.w.firstViol(); v != nil {
		m.fail(v.sig, "%s", v.msg)
	}
	if v := m.w.audit(m.holds); v != nil {
		m.fail(v.sig, "%s", v.msg)
	}
	insts := m.w.snapshot()
	var live []*c17Inst
	for _, in := range insts {
		if in.exit.Load() == 0 {
			live = append(live, in)
		}
	}
	if len(live) > 1 {
		m.fail("C17/two-instances-running", "%d instances are started and not returned at quiescence", len(live))
	}
	if len(m.out) > 0 {
		if len(live) == 0 {
			m.fail("C17/no-instance-while-held", "%d done func(s) outstanding but no instance of the function is running (instances started so far: %d)", len(m.out), len(insts))
		}
		in := live[0]
		if in.stopSeen.Load() != 0 || !c17Open(in.stop) {
			m.fail("C17/stopped-while-held", "%d done func(s) outstanding but the stop channel of the running instance i%d is closed", len(m.out), in.id)
		}
	} else if len(live) == 1 {
		in := live[0]
		if in.stopSeen.Load() == 0 {
			m.fail("C17/not-stopped-when-unheld", "no done func outstanding at quiescence but instance i%d was not told to stop (stop channel open=%v)", in.id, c17Open(in.stop))
		}
	}
	if len(insts) > m.expInsts {
		m.fail("C17/spurious-instance", "%d instances were started, the Do calls so far account for %d", len(insts), m.expInsts)
	}
	if len(insts) < m.expInsts {
		m.fail("C17/no-fresh-instance", "%d instances were started, the Do calls so far require %d", len(insts), m.expInsts)
	}
}

func (m *c17Machine) removeOut(h *c17Hold) {
	for i, o := range m.out {
		if o == h {
			m.out = append(m.out[:i:i], m.out[i+1:]...)
			return
		}
	}
	panic("harness: hold not outstanding")
}

func (m *c17Machine) releaseSync(h *c17Hold) {
	_, pv := vkit.Call(func() any { m.w.release(h); return nil })
	if pv != nil {
		m.fail("C17/call-panic", "done func of h%d panicked: %v", h.id, pv)
	}
	m.removeOut(h)
}

func (m *c17Machine) leakCheck(when string) {
	if !c17MaybeLeak() {
		return
	}
	if left := vkit.BubbleOthers(); len(left) != 0 {
		m.fail("C17/goroutine-leak", "%d goroutine(s) alive %s (every instance returned, nobody holds the worker):\n%s", len(left), when, vkit.DescribeGoroutines(left))
	}
}

// ---- rules

func (m *c17Machine) ruleDo(t *rapid.T) {
	ph := m.phase()
	if ph == c17Stopping {
		t.Skip("stopping: see stopdo")
	}
	k := 1
	if ph == c17Idle {
		k = rapid.SampledFrom([]int{1, 1, 1, 2, 3}).Draw(t, "k")
	}
	if rapid.IntRange(0, 11).Draw(t, "crowd") == 0 {
		k = rapid.IntRange(60, 140).Draw(t, "crowdSize") // a crowd of holders at once
	}
	y := rapid.IntRange(0, 3).Draw(t, "yields")
	if k > 3 {
		y = 0
	}
	var ids []string
	for i := 0; i < k; i++ {
		h := m.launchDo()
		ids = append(ids, fmt.Sprintf("h%d", h.id))
		c17Yield(y)
	}
	if ph == c17Idle {
		m.expInsts++
		if k > 1 {
			m.nMultiCreate++
		}
	}
	m.tr("do(%s;y=%d)", strings.Join(ids, ","), y)
	m.settle()
}

func (m *c17Machine) ruleDone(t *rapid.T) {
	if len(m.out) == 0 {
		t.Skip("nobody holds")
	}
	// the last holder is mostly released by the race rule
	if len(m.out) == 1 && rapid.IntRange(0, 2).Draw(t, "plainLast") != 0 {
		t.Skip("leave the last done to race")
	}
	h := m.out[rapid.IntRange(0, len(m.out)-1).Draw(t, "which")]
	m.releaseSync(h)
	m.tr("done(h%d)", h.id)
	m.settle()
}

// ruleDoNil: Do(nil) panics (documented) — and, being refused, must not count as a holder: everything else goes
// on exactly as if the call had not been made. Not issued while an instance is stopping (the call would park on
// the Worker's mutex).
func (m *c17Machine) ruleDoNil(t *rapid.T) {
	if m.phase() == c17Stopping {
		t.Skip("stopping")
	}
	wk := m.w.wk
	_, pv := vkit.Call(func() any { return wk.Do(nil) })
	if pv == nil {
		m.fail("C17/do-nil-accepted", "Do(nil) returned instead of panicking")
	}
	m.tr("do(nil)=panic")
	m.settle()
}

// ruleDoneMany: every holder but a drawn few lets go, one after the other, without settling in between.
func (m *c17Machine) ruleDoneMany(t *rapid.T) {
	if len(m.out) < 4 {
		t.Skip("no crowd")
	}
	keep := rapid.IntRange(0, 2).Draw(t, "keep")
	n := 0
	for len(m.out) > keep {
		m.releaseSync(m.out[len(m.out)-1])
		n++
	}
	m.tr("doneMany(%d, %d keep holding)", n, keep)
	m.settle()
}

func (m *c17Machine) ruleExit(t *rapid.T) {
	if m.phase() != c17Stopping {
		t.Skip("not stopping")
	}
	in := m.last()
	in.open()
	m.tr("exit(i%d)", in.id)
	m.settle()
}

// ruleAdvance: (virtual) time passes while nothing else happens. A Worker has no notion of time: an instance that is
// slow to return after it was told to stop is waited for, however long it takes.
func (m *c17Machine) ruleAdvance(t *rapid.T) {
	d := rapid.SampledFrom([]time.Duration{time.Millisecond, time.Second, 3 * time.Second, time.Minute, 24 * time.Hour}).Draw(t, "advance")
	time.Sleep(d)
	m.tr("advance(%v)", d)
	m.settle()
}

// ruleStopDo: Do calls issued while the instance is stopping (told to stop, not yet returned). They must stay
// pending until the instance returned and are then served by exactly one fresh instance.
func (m *c17Machine) ruleStopDo(t *rapid.T) {
	if m.phase() != c17Stopping {
		t.Skip("not stopping")
	}
	old := m.last()
	k := rapid.SampledFrom([]int{1, 1, 2, 3}).Draw(t, "k")
	y := rapid.IntRange(0, 3).Draw(t, "yields")
	spin := rapid.IntRange(0, 3).Draw(t, "spin")
	var hs []*c17Hold
	var ids []string
	for i := 0; i < k; i++ {
		h := m.launchDo()
		hs = append(hs, h)
		ids = append(ids, fmt.Sprintf("h%d", h.id))
		c17Yield(y)
	}
	c17Spin(spin)
	m.tr("stopdo(%s;y=%d;spin=%d)+exit(i%d)", strings.Join(ids, ","), y, spin, old.id)
	for _, h := range hs {
		if h.ret.Load() != 0 {
			m.fail("C17/do-returned-while-stopping", "Do (h%d) returned while instance i%d was told to stop and has not returned", h.id, old.id)
		}
	}
	if n := len(m.w.snapshot()); n != m.expInsts {
		m.fail("C17/two-instances-running", "a new instance was started while instance i%d has not returned", old.id)
	}
	m.nStopDo++
	old.open()
	m.expInsts++
	m.settle()
}

type c17RaceOp struct {
	rel    *c17Hold // done of this holder, or
	do     *c17Hold // a new Do
	yields int
}

// ruleRace: done calls (mostly: of every holder) and new Do calls issued in the same step.
func (m *c17Machine) ruleRace(t *rapid.T) {
	if m.phase() != c17Running || len(m.out) == 0 {
		t.Skip("nothing running")
	}
	live := m.last()
	H := len(m.out)
	r := H
	if H > 1 && rapid.IntRange(0, 3).Draw(t, "partial") == 0 {
		r = rapid.IntRange(1, H-1).Draw(t, "r")
	}
	all := r == H
	perm := rapid.Permutation(append([]*c17Hold(nil), m.out...)).Draw(t, "who")
	k := rapid.SampledFrom([]int{0, 1, 1, 1, 1, 2, 2, 3}).Draw(t, "k")
	var ops []c17RaceOp
	for _, h := range perm[:r] {
		ops = append(ops, c17RaceOp{rel: h})
	}
	for i := 0; i < k; i++ {
		ops = append(ops, c17RaceOp{do: m.newHold()})
	}
	ops = rapid.Permutation(ops).Draw(t, "order")
	nl := rapid.IntRange(1, 3).Draw(t, "lanes")
	lanes := make([][]c17RaceOp, nl)
	var desc []string
	for i := range ops {
		ops[i].yields = rapid.SampledFrom([]int{0, 0, 1, 2, 4, 8, 16, 32, 64}).Draw(t, "y")
		l := rapid.IntRange(0, nl-1).Draw(t, "lane")
		lanes[l] = append(lanes[l], ops[i])
	}
	for l, lo := range lanes {
		var s []string
		for _, o := range lo {
			if o.rel != nil {
				s = append(s, fmt.Sprintf("y%d.done(h%d)", o.yields, o.rel.id))
			} else {
				s = append(s, fmt.Sprintf("y%d.do(h%d)", o.yields, o.do.id))
			}
		}
		desc = append(desc, fmt.Sprintf("L%d:%s", l, strings.Join(s, ",")))
	}
	preopen := rapid.Bool().Draw(t, "preopen") || live.gateOpen // an earlier race may have opened the gate already
	spin, extra := 0, 0
	if !preopen {
		spin = rapid.IntRange(0, 3).Draw(t, "spin")
		extra = rapid.SampledFrom([]int{0, 1, 1, 2}).Draw(t, "extra")
	}
	if preopen {
		live.open()
	}
	w := m.w
	for _, lo := range lanes {
		if len(lo) == 0 {
			continue
		}
		lo := lo
		m.laneOps = append(m.laneOps, vkit.Launch("lane", func() any {
			for _, o := range lo {
				c17Yield(o.yields)
				if o.rel != nil {
					w.release(o.rel)
				} else {
					w.do(o.do)
				}
			}
			return nil
		}))
	}
	for _, o := range ops {
		if o.rel != nil {
			m.removeOut(o.rel)
		} else {
			m.pending = append(m.pending, o.do)
		}
	}
	mid := false
	if !preopen {
		c17Spin(spin)
		if all && live.stopSeen.Load() != 0 {
			// the hand-over went to the stop: the instance is told to stop and waits for its gate, so whoever
			// calls Do now must wait for it
			mid = true
			m.nMidStop++
			var ex []*c17Hold
			for i := 0; i < extra; i++ {
				ex = append(ex, m.launchDo())
			}
			c17Spin(1)
			for _, h := range ex {
				if h.ret.Load() != 0 {
					m.tr("race(%s;all=%v;spin=%d;mid-stop extra=%d)", strings.Join(desc, " "), all, spin, extra)
					m.fail("C17/do-returned-while-stopping", "Do (h%d) returned while instance i%d was told to stop and has not returned", h.id, live.id)
				}
			}
			k += len(ex)
		}
		live.open()
	}
	ti := len(m.trace)
	m.tr("race(%s;all=%v;preopen=%v;spin=%d;mid=%v)", strings.Join(desc, " "), all, preopen, spin, mid)
	synctest.Wait()
	n := len(w.snapshot())
	outcome := "kept"
	switch {
	case n == m.expInsts+1 && all && k > 0 && live.stopSeen.Load() != 0:
		// allowed: the last done won, the instance stopped, the Do calls are served by a fresh instance
		m.expInsts = n
		outcome = "handover"
		m.nHandover++
	case n == m.expInsts && all && k > 0:
		m.nKept++
	case all && k == 0:
		outcome = "stopped"
	default:
		outcome = "partial"
	}
	if all && k > 0 {
		m.nRaceLast++
	}
	m.trace[ti] += "=>" + outcome
	m.settle()
}

func c17Bucket(n int) string {
	if n >= 4 {
		return "4+"
	}
	return fmt.Sprint(n)
}

func c17RunStep(t *rapid.T, st *vkit.Stats) {
	m := &c17Machine{t: t, st: st, w: c17NewWorld()}
	vkit.CaseStart(func() string { return strings.Join(m.trace, " ; ") })
	defer m.cleanup() // rapid may abort a case from inside a draw
	m.w.startYields = rapid.IntRange(0, 2).Draw(t, "fnStartYields")
	m.w.exitYields = rapid.SampledFrom([]int{0, 0, 1, 4}).Draw(t, "fnExitYields")
	m.tr("step(fnY=%d/%d)", m.w.startYields, m.w.exitYields)

	w := map[string]int{"do": 4, "done": 3, "exit": 2, "stopdo": 4, "race": 6, "advance": 2, "doneMany": 3, "doNil": 1}
	actions := map[string]func(*rapid.T){}
	add := func(name string, f func(*rapid.T)) {
		for i := 0; i < w[name]; i++ {
			actions[fmt.Sprintf("%s~%d", name, i)] = f
		}
	}
	add("do", m.ruleDo)
	add("done", m.ruleDone)
	add("exit", m.ruleExit)
	add("stopdo", m.ruleStopDo)
	add("race", m.ruleRace)
	add("advance", m.ruleAdvance)
	add("doneMany", m.ruleDoneMany)
	add("doNil", m.ruleDoNil)
	t.Repeat(vkit.NoStarve(actions, nil))

	// ---- teardown: everybody lets go, the instance is let out, nothing may remain
	m.tr("teardown")
	for len(m.out) > 0 {
		m.releaseSync(m.out[len(m.out)-1])
	}
	m.settle()
	if m.phase() == c17Stopping {
		m.last().open()
		m.settle()
	}
	for _, in := range m.w.snapshot() {
		if in.stopSeen.Load() == 0 || in.exit.Load() == 0 {
			m.fail("C17/not-stopped-when-unheld", "instance i%d has not been stopped / has not returned at the end of the case although nobody holds the worker", in.id)
		}
	}
	time.Sleep(time.Hour)
	synctest.Wait()
	m.check()
	m.leakCheck("at the end of the case")
	m.cleaned = true // nothing left to clean

	n := len(m.w.snapshot())
	ov, _, _ := m.w.overlap(m.holds)
	nt := n >= 2 && (m.nRaceLast > 0 || m.nStopDo > 0 || m.nMidStop > 0 || ov)
	cls := []string{"mode:step", "instances:" + c17Bucket(n), "max-holders:" + c17Bucket(m.maxOut)}
	if m.nKept > 0 {
		cls = append(cls, "race:do-kept-instance")
	}
	if m.nHandover > 0 {
		cls = append(cls, "race:handover-to-fresh-instance")
	}
	if m.nKept > 0 && m.nHandover > 0 {
		cls = append(cls, "race:both-outcomes-in-case")
	}
	if m.nMidStop > 0 {
		cls = append(cls, "race:stop-observed-before-exit")
	}
	if m.nStopDo > 0 {
		cls = append(cls, "do-while-stopping")
	}
	if m.nMultiCreate > 0 {
		cls = append(cls, "concurrent-do-on-idle-worker")
	}
	if ov {
		cls = append(cls, "clock-overlap:last-done/do")
	}
	st.Case(m.trace, nt, cls...)
}

// ---------------------------------------------------------------------------------------------- free mode

type c17Iter struct {
	preSleep, preYields, heldSleep, heldYields int
}

func c17RunFree(t *rapid.T, st *vkit.Stats) {
	w := c17NewWorld()
	w.auto.Store(true)
	var trace []string
	var holds []*c17Hold
	vkit.CaseStart(func() string { return strings.Join(trace, " ; ") })
	// burst: few goroutines, many quick Do/done rounds each (many hand-overs per case)
	burst := rapid.IntRange(0, 2).Draw(t, "burst") == 0
	nh := rapid.IntRange(2, 8).Draw(t, "holders")
	if burst {
		nh = 2 + nh%3
	}
	w.startYields = rapid.IntRange(0, 3).Draw(t, "fnStartYields")
	w.exitYields = rapid.SampledFrom([]int{0, 1, 3, 8, 20}).Draw(t, "fnExitYields")
	trace = append(trace, fmt.Sprintf("free(holders=%d,burst=%v,fnY=%d/%d)", nh, burst, w.startYields, w.exitYields))
	plans := make([][]c17Iter, nh)
	hs := make([][]*c17Hold, nh)
	for i := range plans {
		n := rapid.IntRange(1, 4).Draw(t, "iters")
		if burst {
			n = rapid.IntRange(16, 96).Draw(t, "burstIters")
		}
		var s []string
		for j := 0; j < n; j++ {
			var it c17Iter
			if burst {
				it = c17Iter{
					preSleep:   rapid.SampledFrom([]int{0, 0, 0, 0, 0, 1}).Draw(t, "preSleep"),
					preYields:  rapid.IntRange(0, 3).Draw(t, "preYields"),
					heldSleep:  rapid.SampledFrom([]int{0, 0, 0, 0, 1}).Draw(t, "heldSleep"),
					heldYields: rapid.IntRange(0, 3).Draw(t, "heldYields"),
				}
			} else {
				it = c17Iter{
					preSleep:   rapid.SampledFrom([]int{0, 0, 1, 1, 2, 3}).Draw(t, "preSleep"),
					preYields:  rapid.IntRange(0, 3).Draw(t, "preYields"),
					heldSleep:  rapid.SampledFrom([]int{0, 0, 1, 1, 2}).Draw(t, "heldSleep"),
					heldYields: rapid.IntRange(0, 4).Draw(t, "heldYields"),
				}
			}
			plans[i] = append(plans[i], it)
			h := &c17Hold{id: len(holds)}
			holds = append(holds, h)
			hs[i] = append(hs[i], h)
			s = append(s, fmt.Sprintf("s%d.y%d.do(h%d).y%d.s%d.done", it.preSleep, it.preYields, h.id, it.heldYields, it.heldSleep))
		}
		trace = append(trace, fmt.Sprintf("G%d:%s", i, strings.Join(s, ",")))
	}
	fin := make([]atomic.Bool, nh)
	for i := range plans {
		i := i
		go func() {
			defer func() {
				if r := recover(); r != nil {
					w.violate("C17/call-panic", "Do/done panicked in holder goroutine G%d: %v", i, r)
				}
				fin[i].Store(true)
			}()
			for j, it := range plans[i] {
				h := hs[i][j]
				if it.preSleep > 0 {
					time.Sleep(time.Duration(it.preSleep))
				}
				c17Yield(it.preYields)
				w.do(h)
				if h.done == nil {
					w.violate("C17/nil-done", "Do (h%d) returned a nil done func", h.id)
					return
				}
				c17Yield(it.heldYields)
				if it.heldSleep > 0 {
					time.Sleep(time.Duration(it.heldSleep))
				}
				// probe immediately before done: the Do of this holder returned and its done was not called
				if n := w.running.Load(); n > 1 {
					w.violate("C17/two-instances-running", "h%d sees %d instances running", h.id, n)
				}
				var cur *c17Inst
				w.mu.Lock()
				if len(w.insts) > 0 {
					cur = w.insts[len(w.insts)-1]
				}
				w.mu.Unlock()
				if cur != nil && cur.exit.Load() == 0 {
					// an earlier instance has returned before this holder's Do returned, so this is the one it holds
					if cur.stopSeen.Load() != 0 || !c17Open(cur.stop) {
						w.violate("C17/stopped-while-held", "h%d holds the worker (Do returned, done not called) but the stop channel of the running instance i%d is closed", h.id, cur.id)
					}
				} else if it.heldSleep > 0 {
					// the holder slept in virtual time, so every other goroutine of the bubble, the new instance
					// included, had come to rest before
					w.violate("C17/no-instance-while-held", "h%d holds the worker (Do returned, done not called) but no instance is running", h.id)
				}
				w.release(h)
			}
		}()
	}
	time.Sleep(time.Hour)
	synctest.Wait()
	fail := func(sig, format string, args ...any) {
		msg := fmt.Sprintf("%s\ntrace: %s\n%s", fmt.Sprintf(format, args...), strings.Join(trace, " ; "), w.render(holds))
		vkit.Announce(sig, "%s", msg)
		w.quitOnce.Do(func() { close(w.quit) })
		t.Fatalf("[%s] %s", sig, msg)
	}
	if v := w.firstViol(); v != nil {
		fail(v.sig, "%s", v.msg)
	}
	for i := range fin {
		if !fin[i].Load() {
			for _, h := range hs[i] {
				if h.call.Load() != 0 && h.ret.Load() == 0 {
					fail("C17/do-blocked", "Do (h%d) of holder goroutine G%d never returned although every instance was let out", h.id, i)
				}
			}
			fail("C17/do-blocked", "holder goroutine G%d never finished", i)
		}
	}
	if v := w.audit(holds); v != nil {
		fail(v.sig, "%s", v.msg)
	}
	insts := w.snapshot()
	for _, in := range insts {
		if in.stopSeen.Load() == 0 || in.exit.Load() == 0 {
			fail("C17/not-stopped-when-unheld", "instance i%d has not been stopped / has not returned at the end of the case although nobody holds the worker", in.id)
		}
	}
	if len(insts) == 0 {
		fail("C17/no-instance-while-held", "no instance was ever started")
	}
	if !c17MaybeLeak() {
		// nothing of this bubble is left
	} else if left := vkit.BubbleOthers(); len(left) != 0 {
		fail("C17/goroutine-leak", "%d goroutine(s) alive at the end of the case:\n%s", len(left), vkit.DescribeGoroutines(left))
	}
	ov, spans, zs := w.overlap(holds)
	nt := len(insts) >= 2 && ov
	cls := []string{"mode:free", "instances:" + c17Bucket(len(insts)), "free-holders:" + c17Bucket(nh)}
	if burst {
		cls = append(cls, "free:burst")
	}
	st.Metric("free:instances", len(insts))
	st.Metric("free:do-calls", len(holds))
	if ov {
		cls = append(cls, "clock-overlap:last-done/do")
	}
	if spans {
		cls = append(cls, "free:do-waited-across-stop")
	}
	if zs {
		cls = append(cls, "free:do-kept-instance-after-zero")
	}
	st.Case(trace, nt, cls...)
}

func TestC17Worker(t *testing.T) {
	st := vkit.For("c17_worker")
	rapid.Check(t, func(t *rapid.T) {
		rapid.SyncTest(t, func(t *rapid.T) {
			if rapid.IntRange(0, 9).Draw(t, "mode") < 6 {
				c17RunStep(t, st)
			} else {
				c17RunFree(t, st)
			}
		})
	})
}
