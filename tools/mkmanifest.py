#!/usr/bin/env python3
"""Regenerate MANIFEST.json from checks_config.CONFIG + the per-property texts below."""
import json, os, sys
ROOT = os.path.dirname(os.path.dirname(os.path.abspath(__file__)))
sys.path.insert(0, ROOT)
from checks_config import CONFIG

TEXT = {
 "C01": ("model-based stateful PBT (rapid state machine in a synctest bubble) of Buffer/consumers against a put-order model; first-time reads, batch order, consumer start position; plus free-running concurrent programs with a witness-stream oracle and a porcupine linearizability / gap-free oracle over a consumer shared by several goroutines", "stateful property-based testing vs reference model (rapid + testing/synctest)"),
 "C02": ("model-based stateful PBT of Commit/Rollback/Range/Buffer.Range against the transactional model, incl. scripted callbacks (panic/stop/put/cancel) and rollback into evicted regions; package-level Range over a scripted faulty Consumer against the exact call-order specification; porcupine linearizability of a consumer shared by several goroutines", "stateful property-based testing vs reference model (rapid + testing/synctest)"),
 "C03": ("model-based stateful PBT of retention (cleaner-call log replay, Slice/Size/Diff equalities, lagging consumers fail loudly) plus pure PBT of DefaultCleaner/FixedBufferCleaner against an independent specification", "stateful + pure property-based testing vs reference model/specification (rapid)"),
 "C04": ("model-based stateful PBT in virtual time: after the cooldown has elapsed since the last change the consumed prefix must be gone, for every placement of the change relative to cooldown windows; bulk programs (thousands of values, burst commits); real-time window probe with stuck-state confirmation for the timer/cleanup hand-over", "stateful property-based testing in virtual time (rapid + testing/synctest)"),
 "C05": ("enabledness oracle at exact quiescence for blocked Get (Buffer stepper) and for WaitCond itself (dedicated stepper): never a lost wake-up, failed Get consumes nothing; gate probe placing the event between the waiter's check and its park; free-running programs", "stateful property-based testing with exact-quiescence enabledness oracle (rapid + testing/synctest)"),
 "C06": ("generated concurrent programs (free-running in a bubble) with history invariants: counts, exactly-once, one global order, contiguous runs", "property-based testing over generated concurrent programs with history-invariant oracle (rapid + testing/synctest)"),
 "C07": ("generated concurrent programs with membership churn; termination decided by bubble deadlock detection and a real-time stall watchdog; no panic; final count; instance still works", "property-based testing over generated concurrent programs, deadlock/stall detection (rapid + testing/synctest)"),
 "C08": ("model-based stepper + free-running programs + barrier-synchronised race lane + buffered receivers + misuse sequences over the whole int range (incl. misuse during an in-flight Send) for ChanCaster", "stateful + concurrent-program + input property-based testing (rapid + testing/synctest)"),
 "C09": ("model-based stepper over Exclusive with gated work functions: per-key mutual exclusion checked at every work-function start, key independence via enabledness at quiescence, rate limits with contexts cancelled mid-work; plus free-running programs with hook-yield plans", "stateful property-based testing with gated callbacks (rapid + testing/synctest)"),
 "C10": ("model-based stepper over Exclusive: answering execution = first begun after the call (logical clock), outcome equality/exactly-once, resolve-not-called, no lost call, no state left; plus free-running programs with hook-yield plans", "stateful property-based testing with gated callbacks (rapid + testing/synctest)"),
 "C11": ("generated concurrent programs for every concurrency-safe type executed under the Go race detector; every report with a library frame is a violation; the free-running engines of the other properties are rebuilt with -race as additional program sources", "property-based testing over generated concurrent programs with the Go race detector as oracle"),
 "C12": ("model-based steppers for Buffer/consumers, Channel and WaitCond with generated shutdown orders; enabledness of Close, errors after close, goroutine-leak oracle at bubble end; per-type leak programs for Exclusive, Workers, Worker, Notifier, context combinators, ExponentialRetry and LinearAttempt; concurrent Close of a shared consumer", "stateful property-based testing with goroutine-leak oracle (rapid + testing/synctest)"),
 "C13": ("model-based stateful PBT of Channel against the (taken, committed, replay) model in virtual poll time; porcupine linearizability of free-running programs and of a barrier-synchronised two-party race lane; contiguous-snapshot oracle for Buffer() under bulk load", "stateful property-based testing vs reference model + linearizability checking of generated concurrent histories (rapid + testing/synctest + porcupine)"),
 "C14": ("model-based stepper over Workers with gated tasks: exactly-once, result identity, concurrency bound, no starvation and Wait/Count semantics decided at exact quiescence", "stateful property-based testing with gated callbacks (rapid + testing/synctest)"),
 "C15": ("model-based stepper over Notifier: eligible-set delivery exactly once, enabledness of Publish at quiescence, nothing to non-members, registry panics without side effects, leak oracle", "stateful property-based testing vs reference model (rapid + testing/synctest)"),
 "C16": ("generated input-context sets and simultaneous-cancellation steps (real parallelism + a gate on the primary hook) against the documented cancellation/value/exactly-once semantics; plus a bubble-free engine for the construction-time and value semantics, built with both toolchains", "stateful property-based testing with simultaneous-cancel steps (rapid + testing/synctest)"),
 "C17": ("stepper plus free-running modes over Worker with an instance function stamping start/stop-seen/exit; overlap, held-instance, stop-after-all-done and hand-over oracles", "stateful + concurrent-program property-based testing (rapid + testing/synctest)"),
 "C18": ("stepper in virtual time over ExponentialRetry with scripted outcomes and planned cancellations against the sequential specification of the doc comment", "stateful property-based testing in virtual time (rapid + testing/synctest)"),
 "C20": ("stepper in virtual time over LinearAttempt with generated receiver paces and cancellation instants (incl. exact tick ties) against the documented channel behaviour", "stateful property-based testing in virtual time (rapid + testing/synctest)"),
 "C19": ("PBT over generated signatures/arguments/result targets against an assignability oracle and direct-call comparison", "property-based testing (rapid), differential vs direct call"),
}
NOTE = "exploration only: finds counterexamples on the generated cases, cannot show absence; trusts the Go runtime's synctest quiescence/virtual time, rapid's generators, and the reference model written from the documentation"

def main():
    checks = []
    for pid in sorted(CONFIG):
        text, tech = TEXT.get(pid, ("property-based testing", "property-based testing (rapid)"))
        checks.append({
            "property_id": pid,
            "quick_cmd": "./check %s quick" % pid,
            "thorough_cmd": "./check %s thorough" % pid,
            "evidence_file": "evidence/%s.json" % pid,
            "replay_cmd_template": "./check %s --replay {path}" % pid,
            "engine": "props",
            "level_claimed": {"category": "exploration", "text": text, "design_ref": "DESIGN.md section 6 / %s" % pid},
            "level_note": NOTE,
            "technique": tech,
        })
    allp = ["C%02d" % i for i in range(1, 21)]
    old = json.load(open(os.path.join(ROOT, "MANIFEST.json")))
    m = {
        "version": 1,
        "setup_cmd": "./check --setup",
        "hooks": dict(old["hooks"], source_commits=__import__("subprocess").run(["git", "-C", "/repo", "log", "--grep", "^verif:", "--format=%h"], stdout=-1, text=True).stdout.split()),
        "engines": [{"name": "props", "path": "harness/props", "serves_properties": sorted(CONFIG),
                     "kind_free_text": "rapid property tests (go1.26.8, testing/synctest), one test binary built from /repo's working tree with -tags verif; ./check shards it over processes"}],
        "checks": checks,
        "not_applicable": [{"property_id": p, "reason": "check not built yet (in progress)"} for p in allp if p not in CONFIG],
        "notes": "see DESIGN.md; KNOWN_FINDINGS.txt lists fixed and recorded findings",
    }
    json.dump(m, open(os.path.join(ROOT, "MANIFEST.json"), "w"), indent=1)
    print("claimed:", sorted(CONFIG))

main()
