#!/usr/bin/env python3
"""Render sensitivity/results.json (hand-written mutants) and sensitivity/seeded_results.json (independent seeded
defects) as sensitivity/SUMMARY.md."""
import json, os, sys
ROOT = os.path.dirname(os.path.dirname(os.path.abspath(__file__)))
sys.path.insert(0, os.path.join(ROOT, "tools"))
from mutants import MUTANTS

def fmt(rec):
    out = []
    for k, v in sorted(rec.items()):
        if isinstance(v, dict) and "exit" in v:
            verdict = {0: "MISSED", 1: "caught", 2: "inconclusive"}.get(v["exit"], str(v["exit"]))
            out.append("%s: **%s** %s (%.0fs)" % (k, verdict, ", ".join("`%s`" % s for s in v.get("sigs", [])[:4]), v.get("wall_s", 0)))
    return "<br>".join(out)

lines = ["# Sensitivity results", "",
         "Every row is a change to a scratch copy of /repo that compiles; the property's registered *quick* command was run "
         "against the copy (`VERIF_REPO`), seed 0. `caught` = exit 1 with a VIOLATION line (signatures shown).", ""]
res = json.load(open(os.path.join(ROOT, "sensitivity", "results.json"))) if os.path.exists(os.path.join(ROOT, "sensitivity", "results.json")) else {}
lines += ["## Hand-written mutants (tools/mutants.py)", "", "| mutant | what | result |", "|---|---|---|"]
for m in MUTANTS:
    r = res.get(m["id"])
    lines.append("| %s | %s | %s |" % (m["id"], m.get("note", ""), fmt(r) if r else "not run"))
sres = json.load(open(os.path.join(ROOT, "sensitivity", "seeded_results.json"))) if os.path.exists(os.path.join(ROOT, "sensitivity", "seeded_results.json")) else {}
lines += ["", "## Independent seeded defects (seeded/<id>/, written by sub-agents that saw only the property text)", "",
          "| id | property | what (author's summary) | needs | result |", "|---|---|---|---|---|"]
sd = os.path.join(ROOT, "seeded")
for d in sorted(os.listdir(sd)):
    meta = json.load(open(os.path.join(sd, d, "meta.json")))
    r = sres.get(d)
    lines.append("| %s | %s | %s | %s | %s |" % (d, meta["breaks_property"], (meta.get("summary") or "").replace("|", "/").replace("\n", " ")[:260],
                                               (meta.get("needs_to_manifest") or "").replace("|", "/").replace("\n", " ")[:220], fmt(r) if r else "not run"))
open(os.path.join(ROOT, "sensitivity", "SUMMARY.md"), "w").write("\n".join(lines) + "\n")
caught = sum(1 for r in list(res.values()) + list(sres.values()) for k, v in r.items() if isinstance(v, dict) and v.get("exit") == 1)
print("rows:", len(res), "+", len(sres))
