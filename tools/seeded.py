#!/usr/bin/env python3
"""Seeded defects written by independent sub-agents (kept under /verif/seeded/<id>/).

  tools/seeded.py verify <srcdir> <id>    confirm a candidate (patch.diff, seeded_demo_test.go, meta.json in <srcdir>):
                                          demo passes without the patch, fails with it, the library builds and the
                                          repository's own suite still passes; then keep it as seeded/<id>/
  tools/seeded.py run [--tier T] [--seed N] [--props C01,C02] <id>...   run the property's check(s) against the defect
  tools/seeded.py list

Scratch copies live under /tmp and are removed afterwards; /repo itself is never modified.
"""
import json, os, re, shutil, subprocess, sys, tempfile, time
ROOT = os.path.dirname(os.path.dirname(os.path.abspath(__file__)))
ALLOWED_FAIL = {"TestChanCaster_Send_waitForNextFullCycle", "TestChanPubSub_highContention", "TestChannel_Get",
                "TestExclusive_CallAfter", "TestExclusive_Call_concurrent"}
ENV = dict(os.environ, GOFLAGS="-mod=mod", GOPROXY="off", GOSUMDB="off")


def scratch(tag):
    dst = tempfile.mkdtemp(prefix="seeded-%s-" % tag, dir="/tmp")
    subprocess.run("cd /repo && git ls-files -z | xargs -0 cp --parents -t %s" % dst, shell=True, check=True)
    return dst


def run(cmd, cwd, timeout=1800):
    p = subprocess.run(cmd, cwd=cwd, env=ENV, stdout=subprocess.PIPE, stderr=subprocess.STDOUT, text=True, timeout=timeout)
    return p.returncode, p.stdout


def demo(dst, n=3, race=False):
    """returns list of exit codes of n runs of the demonstration"""
    codes = []
    for _ in range(n):
        rc, out = run(["go", "test", "-vet=off", "-count=1"] + (["-race"] if race else []) + ["-run", "^TestSeededDemo$", "-timeout", "300s", "."], dst)
        codes.append(rc)
    return codes, out


def baseline(dst):
    rc, out = run(["go", "test", "-json", "-vet=off", "-count=1", "-timeout", "25m", "./..."], dst)
    failed = set()
    for line in out.splitlines():
        try:
            ev = json.loads(line)
        except Exception:
            continue
        if ev.get("Action") == "fail" and ev.get("Test"):
            failed.add(ev["Test"].split("/")[0])
    failed = sorted(failed - ALLOWED_FAIL)
    # the machine is busy: timing-sensitive tests fail spuriously. A failure counts only if, run alone three times, the
    # test fails at least twice WITH the patch and at most once on an unchanged copy under the same load.
    persistent = []
    clean = None
    try:
        for name in failed:
            fp = sum(1 for _ in range(3) if run(["go", "test", "-vet=off", "-count=1", "-run", "^%s$" % name, "-timeout", "10m", "."], dst)[0] != 0)
            if fp < 2:
                continue
            if clean is None:
                clean = scratch("clean")
            fc = sum(1 for _ in range(3) if run(["go", "test", "-vet=off", "-count=1", "-run", "^%s$" % name, "-timeout", "10m", "."], clean)[0] != 0)
            if fc <= 1:
                persistent.append("%s (alone: %d/3 with the patch, %d/3 without)" % (name, fp, fc))
    finally:
        if clean:
            shutil.rmtree(clean, ignore_errors=True)
    return persistent


def verify(src, sid):
    meta = json.load(open(os.path.join(src, "meta.json")))
    patch = os.path.abspath(os.path.join(src, "patch.diff"))
    demo_src = os.path.join(src, "seeded_demo_test.go")
    dst = scratch(sid)
    rec = {"id": sid, "property": meta.get("property"), "ran": []}
    ok = True
    try:
        shutil.copy(demo_src, os.path.join(dst, "seeded_demo_test.go"))
        race = meta.get("property") == "C11"  # a data race is only observable under the race detector
        codes, out = demo(dst, race=race)
        rec["ran"].append("demo on unchanged tree x3%s: exit codes %s" % (" (-race)" if race else "", codes))
        if any(codes):
            ok = False
            print(sid, "REJECT: demo fails on the unchanged tree\n", out[-1500:])
        p = subprocess.run(["git", "apply", "--unsafe-paths", "--directory=" + dst, patch], cwd="/", stdout=subprocess.PIPE, stderr=subprocess.STDOUT, text=True)
        if p.returncode != 0:
            p = subprocess.run(["patch", "-p1", "-i", patch], cwd=dst, stdout=subprocess.PIPE, stderr=subprocess.STDOUT, text=True)
        if p.returncode != 0:
            print(sid, "REJECT: patch does not apply\n", p.stdout)
            return False
        rc, out = run(["go", "build", "./..."], dst)
        rec["ran"].append("go build with patch: exit %d" % rc)
        if rc != 0:
            ok = False
            print(sid, "REJECT: does not compile\n", out[-1500:])
        codes, out = demo(dst, race=race)
        rec["ran"].append("demo with patch x3%s: exit codes %s" % (" (-race)" if race else "", codes))
        if not all(codes):
            ok = False
            print(sid, "REJECT: demo does not fail reliably with the patch", codes)
        os.remove(os.path.join(dst, "seeded_demo_test.go"))
        failed = baseline(dst)
        rec["ran"].append("repository suite with patch (guard off, go test -vet=off -count=1 ./...): new failures %s" % failed)
        if failed:
            ok = False
            print(sid, "REJECT: existing tests fail with the patch:", failed)
    finally:
        shutil.rmtree(dst, ignore_errors=True)
    if ok:
        out_dir = os.path.join(ROOT, "seeded", sid)
        os.makedirs(out_dir, exist_ok=True)
        shutil.copy(patch, os.path.join(out_dir, "patch.diff"))
        shutil.copy(demo_src, os.path.join(out_dir, "seeded_demo_test.go.txt"))
        meta_out = {"id": sid, "breaks_property": meta.get("property"), "summary": meta.get("summary"), "needs_to_manifest": meta.get("needs"),
                    "author": "independent sub-agent given only the property text and a scratch worktree",
                    "author_ran": meta.get("ran"), "confirmed_by_me": rec["ran"]}
        json.dump(meta_out, open(os.path.join(out_dir, "meta.json"), "w"), indent=1)
        print(sid, "ACCEPTED")
    return ok


def run_checks(ids, tier, seed, props_override):
    res_path = os.path.join(ROOT, "sensitivity", "seeded_results.json")
    os.makedirs(os.path.dirname(res_path), exist_ok=True)
    results = json.load(open(res_path)) if os.path.exists(res_path) else {}
    for sid in ids:
        d = os.path.join(ROOT, "seeded", sid)
        meta = json.load(open(os.path.join(d, "meta.json")))
        props = props_override or [meta["breaks_property"]]
        dst = scratch(sid)
        try:
            p = subprocess.run(["patch", "-p1", "-s", "-i", os.path.join(d, "patch.diff")], cwd=dst, stdout=subprocess.PIPE, stderr=subprocess.STDOUT, text=True)
            if p.returncode != 0:
                print(sid, "patch does not apply to the current /repo:", p.stdout[-500:])
                continue
            rec = results.setdefault(sid, {"property": meta["breaks_property"]})
            for prop in props:
                t0 = time.time()
                env = dict(os.environ, VERIF_REPO=dst, VERIF_SEED=str(seed))
                p = subprocess.run([os.path.join(ROOT, "check"), prop, tier], cwd=ROOT, env=env, stdout=subprocess.PIPE, stderr=subprocess.STDOUT, text=True)
                sigs = re.findall(r"signature: (\S+)", p.stdout)
                rec["%s/%s" % (prop, tier)] = {"exit": p.returncode, "sigs": sigs, "wall_s": round(time.time() - t0, 1), "seed": seed}
                print("%-12s %s %s exit=%d %.1fs %s" % (sid, prop, tier, p.returncode, time.time() - t0, sigs))
                if p.returncode == 2:
                    print(p.stdout[-2500:])
        finally:
            shutil.rmtree(dst, ignore_errors=True)
            shutil.rmtree(os.path.join(ROOT, "work", "alt-" + re.sub(r"[^A-Za-z0-9]+", "_", dst)), ignore_errors=True)
        json.dump(results, open(res_path, "w"), indent=1, sort_keys=True)


def main():
    a = sys.argv[1:]
    if not a or a[0] == "list":
        for d in sorted(os.listdir(os.path.join(ROOT, "seeded"))):
            m = json.load(open(os.path.join(ROOT, "seeded", d, "meta.json")))
            print(d, m["breaks_property"], (m.get("summary") or "")[:120])
        return
    if a[0] == "verify":
        sys.exit(0 if verify(a[1], a[2]) else 1)
    if a[0] == "run":
        tier, seed, props, ids = "quick", 0, None, []
        i = 1
        while i < len(a):
            if a[i] == "--tier":
                tier = a[i + 1]; i += 1
            elif a[i] == "--seed":
                seed = int(a[i + 1]); i += 1
            elif a[i] == "--props":
                props = a[i + 1].split(","); i += 1
            else:
                ids.append(a[i])
            i += 1
        run_checks(ids, tier, seed, props)


if __name__ == "__main__":
    main()
