"""Hand-written mutants used for sensitivity testing (DESIGN.md section 7). Each edit is (file, old, new) and
must match exactly once. Independent seeded changes written by sub-agents live under seeded/<id>/ instead."""

MUTANTS = [
    # ---------------- C01
    {"id": "c01-newconsumer-offset0", "prop": "C01", "note": "NewConsumer registers at offset 0 instead of the current base",
     "edits": [("buffer.go", "b.consumers[c] = b.offset // the consumer's initial offset becomes the start of the buffer", "b.consumers[c] = 0")]},
    {"id": "c01-get-offbyone", "prop": "C01,C03", "note": "get() uses > instead of >= on the pending guard",
     "edits": [("buffer.go", "if relative >= len(b.buffer) {", "if relative > len(b.buffer) {")]},
    {"id": "c01-put-reverse", "prop": "C01", "note": "Put appends batches of >=3 in reverse",
     "edits": [("buffer.go", "b.buffer = append(b.buffer, values...)", "if len(values) >= 3 {\n\t\tfor i := len(values) - 1; i >= 0; i-- {\n\t\t\tb.buffer = append(b.buffer, values[i])\n\t\t}\n\t} else {\n\t\tb.buffer = append(b.buffer, values...)\n\t}")]},
    # ---------------- C02
    {"id": "c02-rollback-delta1", "prop": "C02", "note": "Rollback leaves the delta at 1 when more than 2 were pending",
     "edits": [("consumer.go", "\tc.offset = 0\n\tc.cond.Broadcast()\n\n\treturn nil\n}\n\nfunc (c *consumer) Rollback", "\tc.offset = 0\n\tc.cond.Broadcast()\n\n\treturn nil\n}\n\nfunc (c *consumer) Rollback"),
               ("consumer.go", "return errors.New(\"bigbuff.consumer.Rollback nothing to rollback\")\n\t}\n\n\tc.offset = 0", "return errors.New(\"bigbuff.consumer.Rollback nothing to rollback\")\n\t}\n\n\tif c.offset > 2 {\n\t\tc.offset = 1\n\t\tc.cond.Broadcast()\n\t\treturn nil\n\t}\n\tc.offset = 0")]},
    {"id": "c02-range-commit-before-fn", "prop": "C02", "note": "package Range commits before calling fn",
     "edits": [("bigbuff.go", "\t\t\tok = fn(index, value)\n\n\t\t\terr = consumer.Commit()\n\t\t\tif err != nil {\n\t\t\t\treturn\n\t\t\t}\n", "\t\t\terr = consumer.Commit()\n\t\t\tif err != nil {\n\t\t\t\treturn\n\t\t\t}\n\n\t\t\tok = fn(index, value)\n")]},
    {"id": "c02-bufrange-ignores-diff", "prop": "C02", "note": "Buffer.Range wrapper never stops at the end",
     "edits": [("buffer.go", "\t\t\tdiff, ok := b.Diff(c)\n\t\t\treturn ok && diff > 0\n", "\t\t\t_, ok := b.Diff(c)\n\t\t\treturn ok\n")]},
    # ---------------- C03
    {"id": "c03-default-highest", "prop": "C03", "note": "DefaultCleaner returns the highest offset",
     "edits": [("bigbuff.go", "\tlowest := size\n", "\tlowest := 0\n"), ("bigbuff.go", "\t\tif offset < lowest {", "\t\tif offset > lowest && offset <= size {")]},
    {"id": "c03-cleanup-no-offset-advance", "prop": "C03,C01", "note": "cleanupLogic does not advance offset",
     "edits": [("buffer.go", "\tb.offset += shift\n", "")]},
    {"id": "c03-get-no-past-guard", "prop": "C03", "note": "get() clamps a negative relative index to 0 instead of failing",
     "edits": [("buffer.go", "\t\treturn nil, false, fmt.Errorf(\"bigbuff.Buffer.get offset %d is %d past\", offset, -1*relative)", "\t\trelative = 0")]},
    {"id": "c03-diff-ignores-delta", "prop": "C03", "note": "Diff ignores the uncommitted delta",
     "edits": [("buffer.go", "return len(b.buffer) - (offset + cm.offset - b.offset), true", "return len(b.buffer) - (offset - b.offset), true")]},
    # ---------------- C04
    {"id": "c04-no-rebroadcast-flag", "prop": "C04", "note": "changes seen during a cooldown are not re-broadcast",
     "edits": [("buffer.go", "\t\t\t\t// indicate that we want a re-broadcast (since we missed out this time)\n\t\t\t\tbroadcast = true\n", "")]},
    {"id": "c04-delete-no-broadcast", "prop": "C04", "note": "consumer close does not broadcast",
     "edits": [("buffer.go", "\tdelete(b.consumers, c)\n\t// we (may have) modified the buffer, broadcast it\n\tb.cond.Broadcast()", "\tdelete(b.consumers, c)\n\tif len(b.consumers) == 0 {\n\t\tb.cond.Broadcast()\n\t}")]},
    # ---------------- C05
    {"id": "c05-get-advances-on-error", "prop": "C05", "note": "consumer.Get advances delta before checking the async error",
     "edits": [("consumer.go", "\tresult := <-out\n\tif result.Error != nil {\n\t\treturn nil, result.Error\n\t}\n\n\tc.offset++\n", "\tresult := <-out\n\tc.offset++\n\tif result.Error != nil {\n\t\treturn nil, result.Error\n\t}\n\n")]},
    {"id": "c05-waitcond-no-ctx-check", "prop": "C05", "note": "WaitCond only checks ctx before the first wait",
     "edits": [("sync.go", "\t\t\tif err := ctx.Err(); err != nil {\n\t\t\t\treturn err\n\t\t\t}\n\t\t\tif cancel == nil {", "\t\t\tif err := ctx.Err(); err != nil && cancel == nil {\n\t\t\t\treturn err\n\t\t\t}\n\t\t\tif cancel == nil {")]},
    # ---------------- C12
    {"id": "c12-waitcond-no-defer-cancel", "prop": "C12", "note": "WaitCond never cancels its derived context (watcher leak)",
     "edits": [("sync.go", "\t\t\t\tdefer cancel()\n", "\t\t\t\t_ = cancel\n")]},
    {"id": "c12-second-close-nil", "prop": "C12", "note": "second consumer Close returns nil",
     "edits": [("consumer.go", "\terr = errors.New(\"bigbuff.consumer.Close may only be called once\")\n", "\terr = nil\n")]},
    {"id": "c12-buffer-close-no-wait", "prop": "C12", "note": "Buffer.Close does not wait for consumers",
     "edits": [("buffer.go", "\t\tfor len(b.consumers) != 0 {\n\t\t\tb.cond.Wait()\n\t\t}\n", "")]},
    {"id": "c12-close-ignores-uncommitted", "prop": "C12", "note": "consumer Close does not wait for uncommitted reads",
     "edits": [("consumer.go", "\t\tfor c.offset != 0 {\n\t\t\tc.cond.Wait()\n\t\t}\n", "")]},
]
