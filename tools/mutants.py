"""Hand-written mutants used for sensitivity testing (DESIGN.md section 7). Each edit is (file, old, new) and
must match exactly once. Independent seeded changes written by sub-agents live under seeded/<id>/ instead."""

MUTANTS = [
    # ---------------- C01
    {"id": "c01-newconsumer-offset0", "prop": "C01", "note": "NewConsumer registers at offset 0 instead of the current base",
     "edits": [("buffer.go", "b.consumers[c] = b.offset // the consumer's initial offset becomes the start of the buffer", "b.consumers[c] = 0")]},
    {"id": "c01-get-offbyone", "prop": "C01,C03", "note": "get() uses > instead of >= on the pending guard",
     "edits": [("buffer.go", "if relative >= len(b.buffer) {", "if relative > len(b.buffer) {")]},
    {"id": "c01-put-reverse", "prop": "C01", "note": "Put appends batches of >=3 in reverse",
     "edits": [("buffer.go", "b.buffer = append(b.buffer, values...)", "if len(values) >= 3 {\n\t\tfor i := len(values) - 1; i >= 0; i-- {\n\t\t\tb.buffer = append(b.buffer, values[i])\n\t\t}\n\t} else {\n\t\tb.buffer = append(b.buffer, values...)\n\t}")]},
    # ---------------- C02
    {"id": "c02-rollback-delta1", "prop": "C02", "note": "Rollback leaves the delta at 1 when more than 2 were pending",
     "edits": [("consumer.go", "\tc.offset = 0\n\tc.cond.Broadcast()\n\n\treturn nil\n}\n\nfunc (c *consumer) Rollback", "\tc.offset = 0\n\tc.cond.Broadcast()\n\n\treturn nil\n}\n\nfunc (c *consumer) Rollback"),
               ("consumer.go", "return errors.New(\"bigbuff.consumer.Rollback nothing to rollback\")\n\t}\n\n\tc.offset = 0", "return errors.New(\"bigbuff.consumer.Rollback nothing to rollback\")\n\t}\n\n\tif c.offset > 2 {\n\t\tc.offset = 1\n\t\tc.cond.Broadcast()\n\t\treturn nil\n\t}\n\tc.offset = 0")]},
    {"id": "c02-range-commit-before-fn", "prop": "C02", "note": "package Range commits before calling fn",
     "edits": [("bigbuff.go", "\t\t\tok = fn(index, value)\n\n\t\t\terr = consumer.Commit()\n\t\t\tif err != nil {\n\t\t\t\treturn\n\t\t\t}\n", "\t\t\terr = consumer.Commit()\n\t\t\tif err != nil {\n\t\t\t\treturn\n\t\t\t}\n\n\t\t\tok = fn(index, value)\n")]},
    {"id": "c02-bufrange-ignores-diff", "prop": "C02", "note": "Buffer.Range wrapper never stops at the end",
     "edits": [("buffer.go", "\t\t\tdiff, ok := b.Diff(c)\n\t\t\treturn ok && diff > 0\n", "\t\t\t_, ok := b.Diff(c)\n\t\t\treturn ok\n")]},
    # ---------------- C03
    {"id": "c03-default-highest", "prop": "C03", "note": "DefaultCleaner returns the highest offset",
     "edits": [("bigbuff.go", "\tlowest := size\n", "\tlowest := 0\n"), ("bigbuff.go", "\t\tif offset < lowest {", "\t\tif offset > lowest && offset <= size {")]},
    {"id": "c03-cleanup-no-offset-advance", "prop": "C03,C01", "note": "cleanupLogic does not advance offset",
     "edits": [("buffer.go", "\tb.offset += shift\n", "")]},
    {"id": "c03-get-no-past-guard", "prop": "C03", "note": "get() clamps a negative relative index to 0 instead of failing",
     "edits": [("buffer.go", "\t\treturn nil, false, fmt.Errorf(\"bigbuff.Buffer.get offset %d is %d past\", offset, -1*relative)", "\t\trelative = 0")]},
    {"id": "c03-diff-ignores-delta", "prop": "C03", "note": "Diff ignores the uncommitted delta",
     "edits": [("buffer.go", "return len(b.buffer) - (offset + cm.offset - b.offset), true", "return len(b.buffer) - (offset - b.offset), true")]},
    # ---------------- C04
    {"id": "c04-no-rebroadcast-flag", "prop": "C04", "note": "changes seen during a cooldown are not re-broadcast",
     "edits": [("buffer.go", "\t\t\t\t// indicate that we want a re-broadcast (since we missed out this time)\n\t\t\t\tbroadcast = true\n", "")]},
    {"id": "c04-delete-no-broadcast", "prop": "C04", "note": "consumer close does not broadcast",
     "edits": [("buffer.go", "\tdelete(b.consumers, c)\n\t// we (may have) modified the buffer, broadcast it\n\tb.cond.Broadcast()", "\tdelete(b.consumers, c)\n\tif len(b.consumers) == 0 {\n\t\tb.cond.Broadcast()\n\t}")]},
    # ---------------- C05
    {"id": "c05-get-advances-on-error", "prop": "C05", "note": "consumer.Get advances delta before checking the async error",
     "edits": [("consumer.go", "\tresult := <-out\n\tif result.Error != nil {\n\t\treturn nil, result.Error\n\t}\n\n\tc.offset++\n", "\tresult := <-out\n\tc.offset++\n\tif result.Error != nil {\n\t\treturn nil, result.Error\n\t}\n\n")]},
    {"id": "c05-waitcond-no-ctx-check", "prop": "C05", "note": "WaitCond only checks ctx before the first wait",
     "edits": [("sync.go", "\t\t\tif err := ctx.Err(); err != nil {\n\t\t\t\treturn err\n\t\t\t}\n\t\t\tif cancel == nil {", "\t\t\tif err := ctx.Err(); err != nil && cancel == nil {\n\t\t\t\treturn err\n\t\t\t}\n\t\t\tif cancel == nil {")]},
    # ---------------- C12
    {"id": "c12-waitcond-no-defer-cancel", "prop": "C12", "note": "WaitCond never cancels its derived context (watcher leak)",
     "edits": [("sync.go", "\t\t\t\tdefer cancel()\n", "\t\t\t\t_ = cancel\n")]},
    {"id": "c12-second-close-nil", "prop": "C12", "note": "second consumer Close returns nil",
     "edits": [("consumer.go", "\terr = errors.New(\"bigbuff.consumer.Close may only be called once\")\n", "\terr = nil\n")]},
    {"id": "c12-buffer-close-no-wait", "prop": "C12", "note": "Buffer.Close does not wait for consumers",
     "edits": [("buffer.go", "\t\tfor len(b.consumers) != 0 {\n\t\t\tb.cond.Wait()\n\t\t}\n", "")]},
    {"id": "c12-close-ignores-uncommitted", "prop": "C12", "note": "consumer Close does not wait for uncommitted reads",
     "edits": [("consumer.go", "\t\tfor c.offset != 0 {\n\t\t\tc.cond.Wait()\n\t\t}\n", "")]},
    # ---------------- C06
    {"id": "c06-count-before-lock", "prop": "C06", "note": "Send reads the subscriber count before taking sendingMu",
     "edits": [("chanpubsub.go", "\t// N.B. released after sending (after pings, before waiting for pongs)\n\tx.sendingMu.Lock()", "\tsubscribers := int(x.subscribers.Load())\n\t// N.B. released after sending (after pings, before waiting for pongs)\n\tx.sendingMu.Lock()"),
               ("chanpubsub.go", "\tsubscribers := int(x.subscribers.Load())\n\tif subscribers == 0 {\n\t\treturn 0 // no subscribers (slow path)", "\tif subscribers == 0 {\n\t\treturn 0 // no subscribers (slow path)")]},
    {"id": "c06-wait-no-block", "prop": "C06", "note": "Wait does not block while pongN == 0",
     "edits": [("chanpubsub.go", "\tfor x.pongN == 0 {\n\t\tx.pongC.Wait()\n\t\tx.checkBroken() // ALWAYS checkBroken after a wait\n\t}\n\n\tx.pongN-- // consume a pong", "\tif x.pongN == 0 {\n\t\treturn\n\t}\n\n\tx.pongN-- // consume a pong")]},
    {"id": "c06-subscribe-no-rlock", "prop": "C06,C07", "note": "positive Add without sendingMu.RLock",
     "edits": [("chanpubsub.go", "\t\tx.sendingMu.RLock()\n\t\tdefer x.sendingMu.RUnlock()\n\t\tsubscribers = x.addSubscribers(delta)", "\t\tsubscribers = x.addSubscribers(delta)")]},
    # ---------------- C07
    {"id": "c07-negadd-skips-ping", "prop": "C07", "note": "negative Add skips ping.Add(delta) when a send is in flight",
     "edits": [("chanpubsub.go", "\t\t\tx.ping.Add(delta)\n\t\t\tsuccess = true", "\t\t\tsuccess = true")]},
    {"id": "c07-send-keeps-lock", "prop": "C07", "note": "Send keeps sendingMu through the pong phase",
     "edits": [("chanpubsub.go", "\tskipSendingUnlock = true\n\tx.sendingMu.Unlock() // we can add subscribers while waiting for pongs\n", "")]},
    {"id": "c07-iter-no-unsubscribe", "prop": "C07", "note": "SubscribeContext iterator omits the deferred Unsubscribe",
     "edits": [("chanpubsub.go", "\t\tdefer x.Unsubscribe()\n\n\t\tfor {", "\t\tfor {")]},
    # ---------------- C08
    {"id": "c08-add-no-rlock", "prop": "C08", "note": "positive Add without the read lock",
     "edits": [("chancaster.go", "\t\t\tx.mutex.RLock()\n\t\t\tdefer x.mutex.RUnlock()\n", "")]},
    {"id": "c08-negadd-receives-less", "prop": "C08", "note": "negative Add receives delta-1 values during a send",
     "edits": [("chancaster.go", "\t\t\t\tfor range delta {\n\t\t\t\t\t<-x.C\n\t\t\t\t}", "\t\t\t\tfor range delta - 1 {\n\t\t\t\t\t<-x.C\n\t\t\t\t}")]},
    {"id": "c08-send-returns-receivers", "prop": "C08", "note": "Send returns the initial receivers instead of the post-send count",
     "edits": [("chancaster.go", "\treturn int(tracker)\n}", "\treturn int(receivers)\n}")]},
    {"id": "c08-drop-range-check", "prop": "C08", "note": "negative Add drops the underflow range check",
     "edits": [("chancaster.go", "\t\tif receivers := uint32(state >> 32); receivers <= maxReceivers &&\n\t\t\tmaxReceivers-receivers >= uint32(delta) {", "\t\tif receivers := uint32(state >> 32); true {")]},
]
