#!/usr/bin/env python3
"""Sensitivity runner: apply a mutant (tools/mutants.py) or a patch (seeded/<id>/patch.diff) to a scratch copy
of /repo (outside /repo and /verif), confirm it compiles (and, with --baseline, still passes the repository's own
suite), run a property's check against the copy via VERIF_REPO, expect exit 1, remove the copy.

  tools/sensitivity.py [--baseline] [--tier quick|thorough] [--seed N] <mutant-id>...
  tools/sensitivity.py --list
"""
import json, os, re, shutil, subprocess, sys, tempfile, time
ROOT = os.path.dirname(os.path.dirname(os.path.abspath(__file__)))
sys.path.insert(0, os.path.join(ROOT, "tools"))
from mutants import MUTANTS  # noqa

ALLOWED_FAIL = {"TestChanCaster_Send_waitForNextFullCycle", "TestChanPubSub_highContention", "TestChannel_Get",
                "TestExclusive_CallAfter", "TestExclusive_Call_concurrent"}


def apply_mutant(dst, m):
    if "patch" in m:
        subprocess.run(["git", "apply", os.path.join(ROOT, m["patch"])], cwd=dst, check=True)
        return
    for (fn, old, new) in m["edits"]:
        p = os.path.join(dst, fn)
        s = open(p).read()
        if s.count(old) != 1:
            raise ValueError("mutant %s: pattern occurs %d times in %s" % (m["id"], s.count(old), fn))
        open(p, "w").write(s.replace(old, new))


def baseline(dst):
    env = dict(os.environ, GOFLAGS="-mod=mod", GOPROXY="off", GOSUMDB="off")
    p = subprocess.run(["go", "test", "-json", "-vet=off", "-count=1", "-timeout", "25m", "./..."], cwd=dst, env=env,
                       stdout=subprocess.PIPE, stderr=subprocess.STDOUT, text=True)
    failed = set()
    for line in p.stdout.splitlines():
        try:
            ev = json.loads(line)
        except Exception:
            continue
        if ev.get("Action") == "fail" and ev.get("Test"):
            failed.add(ev["Test"].split("/")[0])
    return sorted(failed - ALLOWED_FAIL), p.returncode


def main():
    args = sys.argv[1:]
    if args == ["--list"]:
        for m in MUTANTS:
            print(m["id"], m["prop"], m.get("note", ""))
        return
    do_base = "--baseline" in args
    tier = "quick"
    seed = "0"
    ids = []
    i = 0
    while i < len(args):
        a = args[i]
        if a == "--baseline":
            pass
        elif a == "--tier":
            tier = args[i + 1]; i += 1
        elif a == "--seed":
            seed = args[i + 1]; i += 1
        else:
            ids.append(a)
        i += 1
    res_path = os.path.join(ROOT, "sensitivity", "results.json")
    os.makedirs(os.path.dirname(res_path), exist_ok=True)
    results = json.load(open(res_path)) if os.path.exists(res_path) else {}
    for mid in ids:
        ms = [m for m in MUTANTS if m["id"] == mid]
        if not ms:
            print("unknown mutant", mid); continue
        m = ms[0]
        dst = tempfile.mkdtemp(prefix="sens-%s-" % mid, dir="/tmp")
        try:
            subprocess.run("cd /repo && git ls-files -z | xargs -0 cp --parents -t %s" % dst, shell=True, check=True)
            try:
                apply_mutant(dst, m)
            except ValueError as ex:
                print(ex)
                continue
            env = dict(os.environ, GOFLAGS="-mod=mod", GOPROXY="off", GOSUMDB="off")
            b = subprocess.run(["go", "build", "./..."], cwd=dst, env=env, stdout=subprocess.PIPE, stderr=subprocess.STDOUT, text=True)
            if b.returncode != 0:
                print(mid, "DOES NOT COMPILE\n", b.stdout); continue
            rec = {"prop": m["prop"], "note": m.get("note", "")}
            if do_base:
                failed, rc = baseline(dst)
                rec["baseline_new_failures"] = failed
                print(mid, "baseline new failures:", failed)
            for prop in m["prop"].split(","):
                t0 = time.time()
                env2 = dict(os.environ, VERIF_REPO=dst, VERIF_SEED=seed)
                p = subprocess.run([os.path.join(ROOT, "check"), prop, tier], cwd=ROOT, env=env2, stdout=subprocess.PIPE, stderr=subprocess.STDOUT, text=True)
                sigs = re.findall(r"signature: (\S+)", p.stdout)
                rec[prop] = {"exit": p.returncode, "sigs": sigs, "wall_s": round(time.time() - t0, 1), "tier": tier}
                print("%-40s %s exit=%d %.1fs %s" % (mid, prop, p.returncode, time.time() - t0, sigs))
                if p.returncode == 2:
                    print(p.stdout[-3000:])
            results[mid] = rec
        finally:
            shutil.rmtree(dst, ignore_errors=True)
            shutil.rmtree(os.path.join(ROOT, "work", "alt-" + re.sub(r"[^A-Za-z0-9]+", "_", dst)), ignore_errors=True)
    json.dump(results, open(res_path, "w"), indent=1, sort_keys=True)


if __name__ == "__main__":
    main()
