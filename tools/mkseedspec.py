#!/usr/bin/env python3
"""Write the brief handed to a fresh sub-agent that is to author seeded defects for one property.

The brief contains only: the property's text (statement + quantifier), the worktree to use, the rules of the game and
one-line summaries of the defects earlier rounds already produced for that property (so that the new ones differ).
Nothing about /verif's checks is included.

usage: mkseedspec.py <round-number> <letters, e.g. ef> <outdir> <worktree-prefix> <result-dir> [ids...]
"""
import json, os, sys

ROOT = os.path.dirname(os.path.dirname(os.path.abspath(__file__)))

TPL = """You are helping to evaluate a verification framework for the Go library github.com/joeycumines/go-bigbuff (a library of
concurrency primitives). Your job: write a SEEDED DEFECT — a small, realistic change to the library that BREAKS the property
stated below, while the library still compiles and its existing test suite still passes.

You have your own scratch git worktree of the library at {wt} (work ONLY there; never touch /repo or /verif, and do not
read anything under /verif). Toolchain: the default `go` (1.23) works offline; always export
GOFLAGS=-mod=mod GOPROXY=off GOSUMDB=off before go commands. Other people work on this machine at the same time: never use
`git stash` (it is shared between worktrees; use `git diff > /tmp/<yourid>.diff`, `git apply -R`, `git apply`), never use
`pkill`/`killall` (kill only your own processes by PID).

THE PROPERTY ({pid}: {title})
{statement}

It is meant to hold: {quant}

This is round {rnd}. The following defects were already written for this property in earlier rounds — do NOT repeat
them or close variants; find different mechanisms, preferably subtler ones (needing a rarer interleaving, a longer or more
unusual sequence of calls, an unusual configuration or input, an interaction between two features, a rarely used entry
point or option of the API, or two cooperating sites that each look fine alone):
{prior}

What to produce — TWO different seeded defects (call them "{a}" and "{b}"), each:
  1. A change to the library's non-test .go files (never edit *_test.go files, never edit verif_*.go, keep the existing
     verifPoint(...) lines where they are) that makes the property false, but only under circumstances that ordinary use
     would not expose at once. Keep it realistic: the kind of bug a refactoring or an "optimisation" could introduce.
     The defect must break THIS property as stated (for every input / schedule it quantifies over), not merely some
     neighbouring behaviour.
  2. It must compile and the EXISTING suite must still pass with it: run `go test -vet=off -count=1 ./...` in the worktree
     (~1 minute). TestChanCaster_Send_waitForNextFullCycle always fails on this machine even without any change, and
     TestChanPubSub_highContention, TestChannel_Get, TestExclusive_CallAfter, TestExclusive_Call_concurrent, TestWorkers_Call,
     TestExclusive_Start, TestExclusiveRateLimit are timing-flaky under load: ignore those (re-run a suspicious failure alone
     with -count=3 before blaming your change). Everything else must pass.
  3. A demonstration: a new Go test file (package bigbuff, name it seeded_demo_test.go, one test function TestSeededDemo) that
     FAILS with your change applied and PASSES on the unchanged library (verify both, several times each; it should fail
     reliably with the change and never without it). The demo may use any exported or unexported API of the package.{extra}
  4. Save your work OUTSIDE the worktree:
        {out}/{pid}/{a}/patch.diff        (output of `git diff` for the library change only, WITHOUT the demo test file)
        {out}/{pid}/{a}/seeded_demo_test.go
        {out}/{pid}/{a}/meta.json         {{"property": "{pid}", "summary": "...what was changed...", "needs": "...what is needed for it
                                     to manifest...", "ran": ["...commands you ran and their outcome..."]}}
     and the same under {out}/{pid}/{b}/ .
At the end the worktree must be clean (`git checkout -- . && git clean -fd`; git status shows nothing).

Final message: a short factual summary of the two defects (what, where, what it needs to manifest, how the demo shows it).
"""


def main():
    rnd, letters, outdir, wtprefix, resdir = sys.argv[1:6]
    ids = sys.argv[6:]
    props = {}
    for line in open(os.path.join(ROOT, "properties.jsonl")):
        line = line.strip()
        if line:
            p = json.loads(line)
            props[p["id"]] = p
    os.makedirs(outdir, exist_ok=True)
    for pid in ids or sorted(props):
        p = props[pid]
        prior = []
        sd = os.path.join(ROOT, "seeded")
        for d in sorted(os.listdir(sd)):
            if d.startswith(pid) and os.path.exists(os.path.join(sd, d, "meta.json")):
                m = json.load(open(os.path.join(sd, d, "meta.json")))
                prior.append("  - " + " ".join(str(m.get("summary", "")).split())[:420])
        extra = ""
        if pid == "C11":
            extra = ("\n     For this property the demo is run with `go test -race`; it should fail because the race detector"
                     " reports a race (or because of a visible consequence of it).")
        txt = TPL.format(wt=f"{wtprefix}-{pid}", pid=pid, title=p.get("title", ""), statement=p.get("statement", ""),
                         quant=(p.get("quantifier") or {}).get("text", "") if isinstance(p.get("quantifier"), dict) else p.get("quantifier", ""), rnd=rnd, prior="\n".join(prior) or "  (none)",
                         a=letters[0], b=letters[1], out=resdir, extra=extra)
        open(os.path.join(outdir, pid + ".txt"), "w").write(txt)
        print(pid, len(prior), "prior")


if __name__ == "__main__":
    main()
