"""Per-property job tables for ./check (see DESIGN.md section 6).

Each job runs one rapid property (Go test function) of harness/props in N shard processes.
checks[tier] is the TOTAL number of generated cases over all shards.
"""

BUF_MODEL = ("rapid state machine over bigbuff.Buffer inside a testing/synctest bubble (virtual time, exact quiescence): rules "
             "put(0-4 values, ctx nil/bg/cancelled), newConsumer, get (launched; ctx nil/bg/cancellable/pre-cancelled), cancelGet, "
             "commit, rollback, closeConsumer (incl. with uncommitted reads), closeBuffer, advance(fraction of cooldown), "
             "setCleaner(default|fixed(max,target)|never|scripted shifts), Range/Buffer.Range with scripted callbacks "
             "(continue/stop/panic/put/cancel); cooldown in {0,1us,1ms,10ms,1s} or untouched defaults; reference model = put "
             "order G, evicted count, per-consumer (committed, uncommitted) checked after every step at quiescence "
             "(values, errors, enabledness of blocked calls, Size/Slice/Diff, cleaner-call log replay, leak check at end). ")


BUF_FREE = (" Plus free-running concurrent Buffer programs in a bubble (buffree): 1-4 producers x 1-8 batches of 1-4 values, a witness consumer created before the first Put, "
            "0-5 consumers created at drawn points with drawn scripts (quota, commit every k, rollbacks, early close), cooldown in {0,50us,1ms}, Gosched bursts at the library's "
            "instrumentation points; history oracles: witness stream == put order (permutation, batches contiguous, program order, real-time order), every consumer a contiguous run "
            "starting between the eviction counts around its creation, exact replay after rollback, no Get error, clean close, no goroutine left.")


def regress(prof, race=False):
    """replay tier: plain deterministic regression checks of the defects this framework found and /repo repaired"""
    j = {"name": "regress", "test": "TestRegress", "checks": {"quick": 1, "thorough": 1}, "shards": {"quick": 1, "thorough": 1},
         "env": {"VKIT_PROFILE": prof}}
    if race:
        j["race"] = True
    return j


def buffree(prof, quick, thorough):
    return {"name": "buffree", "test": "TestBufFree", "checks": {"quick": quick, "thorough": thorough},
            "shards": {"quick": 8, "thorough": 16}, "env": {"VKIT_PROFILE": prof}, "stall_sig": prof + "/stall"}


def bufstep(prof, quick, thorough, steps=40):
    return {"name": "bufstep", "test": "TestBufStep", "steps": steps,
            "checks": {"quick": quick, "thorough": thorough},
            "shards": {"quick": 8, "thorough": 16},
            # a wedge between Put, a blocked Get and a waiting Diff parks goroutines on mutexes: the bubble never goes
            # quiet and only the stall watchdog sees it
            "env": {"VKIT_PROFILE": prof}, **({"stall_sig": prof + "/stall"} if prof in ("C05", "C12") else {})}


CHAN_MODEL = ("rapid state machine over bigbuff.Channel inside a synctest bubble (virtual poll ticks): source buffered (cap 1/4) or "
              "unbuffered (harness feeder), element type int/interface{}/string/struct{} and bidirectional or receive-only, rate in {default,50us,1ms}, parent ctx nil/cancellable/already "
              "cancelled at construction; rules feed(1-3), get (launched; ctx "
              "nil/bg/cancellable/pre-cancelled), cancelGet, advance(1-3 poll periods), commit, rollback, close, cancelParent, closeSource; "
              "model (fed, taken, committed, replay, closed) checked after every step: Get value/error/enabledness, Buffer() == taken-but-uncommitted, "
              "source accounting, Done, no zero values from a closed source, nothing taken after close, goroutine-leak check at the end. ")


def waitcond(prof, quick, thorough):
    return {"name": "waitcondstep", "test": "TestWaitCondStep", "steps": 30,
            "checks": {"quick": quick, "thorough": thorough},
            "shards": {"quick": 4, "thorough": 16},
            "env": {"VKIT_PROFILE": prof}}


WAITCOND_RULE = (" Plus a stepper over WaitCond itself (1-5 waiters with nil/background/cancellable/pre-cancelled/deadline contexts on one cond; rules "
                 "set predicate with/without Broadcast, cancel, advance): enabledness at quiescence, nil only after the predicate held under the lock, ctx error "
                 "without any Broadcast, predicate always under the lock, no watcher goroutine outlives its call.")


def leakjob(name, test, quick, thorough, owner):
    """Run another property's engine under C12: only its goroutine-leak assertions count (retagged to C12)."""
    return {"name": name, "test": test, "checks": {"quick": quick, "thorough": thorough}, "shards": {"quick": 4, "thorough": 8},
            "env": {"VKIT_PROFILE": "C12"}, "retag": {"^%s/(goroutine-leak|leak-after-cancel)" % owner: "C12+%s/\\1" % owner}}


def chanstep(prof, quick, thorough):
    return {"name": "chanstep", "test": "TestChanStep", "steps": 40,
            "checks": {"quick": quick, "thorough": thorough},
            "shards": {"quick": 8, "thorough": 16},
            "env": {"VKIT_PROFILE": prof}}


PUBSUB_FREE = ("free-running concurrent ChanPubSub programs in a synctest bubble: 0-5 subscribers (manual Add/C/Wait loops, SubscribeContext iterators, iterators "
               "never run) each leaving at a drawn trigger (after n receipts, after the j-th Send call plus k yields, by cancel, by break, by a recovered panic or runtime.Goexit in the loop body), bulk "
               "holders (Add(+k) ... Add(-k) without receiving), iterator contexts that cancel themselves right after an Err() call, 1-3 concurrent senders x 1-6 messages, a witness subscriber "
               "standing throughout in two thirds of the cases (else successor-consistency order oracle); Gosched bursts at harness points and at the library's instrumentation points "
               "(in one case out of twenty one point stalls for 30000 yields); oracles over the recorded history (logical clock): per-message "
               "receipts == Send return, no duplicates, no stale or invented message, standing subscriptions receive, Send returns after n receipts+Wait calls, one global order "
               "(witness) extending sender order and real time with every stream a contiguous run, no panic, final count 0, fresh round works; termination via bubble deadlock "
               "detection + real-time stall watchdog. ")


PUBSUB_STEP = (" Plus pubsubstep: model-based stepper in a bubble with generator-paced subscribers (manual: recv / hold / ack=Wait / leave; iterators with a gated loop body, cancel, "
               "break, never-run) and a Send whose phases (counted N -> delivery -> pong -> returned) are tracked by the model; exact enabledness at every quiescent point (who received, "
               "whose Wait returned, Send returned iff all copies delivered/absorbed and all receivers acknowledged, Send(nobody)=0 at once, a Subscribe launched during delivery must wait "
               "and is not counted), final count, fresh round, no goroutine left; non-trivial = a leave during delivery, a join during the pong phase or a deferred subscription.")


def pubsubstep(prof, quick, thorough):
    return {"name": "pubsubstep", "test": "TestPubSubStep", "steps": 40, "checks": {"quick": quick, "thorough": thorough},
            "shards": {"quick": 8, "thorough": 16}, "env": {"VKIT_PROFILE": prof}, "stall_sig": prof + "/stall"}


PUBSUB_CHURN = (" Plus pubsubchurn: a barrier-synchronised race lane in a bubble — 30-200 rounds per case in which 1-3 subscriptions that never receive leave (Add(-1) each or one Add(-k)) "
                "in the middle of a Send that is stopped in its delivery phase (instrumentation point 'caster armed'), released together with 0-3 further senders and an optional newcomer that "
                "subscribes and follows the contract, all with sweeping spin offsets; oracle: no panic, everything terminates, every Send's return value equals the receipts of its token, count 0 "
                "after every round.")


def pubsubchurn(prof, quick, thorough):
    return {"name": "pubsubchurn", "test": "TestPubSubChurn", "checks": {"quick": quick, "thorough": thorough},
            "shards": {"quick": 4, "thorough": 16}, "env": {"VKIT_PROFILE": prof}, "stall_sig": prof + "/stall"}


def pubsubfree(prof, quick, thorough):
    return {"name": "pubsubfree", "test": "TestPubSubFree", "checks": {"quick": quick, "thorough": thorough},
            "shards": {"quick": 12, "thorough": 16}, "env": {"VKIT_PROFILE": prof}, "stall_sig": prof + "/stall"}


EXCL_MODEL = ("rapid state machine over bigbuff.Exclusive in a synctest bubble: rules call(style in Call/CallAfter/CallAsync/CallAfterAsync/Start/StartAfter/"
              "CallWithOptions(work func, optional start flag, optional ExclusiveRateLimit wrapper, optional skip-resolve), key in 1-3 keys incl. nil, wait in {-1,0,1ms,1h}), "
              "resolve(e)/return(e) gates of running work functions, advance(virtual time); every work function is a harness closure stamping start/resolve/return on a logical clock. "
              "Oracle: per-key executions never overlap (checked at the moment a work function starts; rate-limited executions keep the key for their minimum duration), the execution "
              "answering a call is the first one of its key begun after the call; calls complete at quiescence iff it has resolved, outcome equality, exactly one outcome then closed "
              "channel, resolve-not-called, no closure executed twice, executions <= calls, an execution is under way whenever calls wait and nothing holds them back, drain at the end "
              "(all answered, key map empty, fresh calls run fresh executions, no goroutine left). ")


EXCL_FREE = (" Plus exclfree: free-running concurrent programs in a bubble (2-8 caller goroutines x 1-5 calls of every style on 1-3 keys, work functions yielding before/after "
             "resolve, Gosched bursts at the library's runner-start / after-work instrumentation points) with history oracles: per-key overlap counter inside the work functions, exactly "
             "one outcome per call, produced by an execution of its key begun after the call was stamped, never an earlier one, resolve-not-called only from a non-resolving execution, no "
             "closure twice, every Start followed by an execution, no per-key state or goroutine left; work functions that resolve from two goroutines released together with different values "
             "(all callers answered by that execution must see the same one); in one case of eight 64-120 further keys are present at once while a slow work function runs on key 0, "
             "which is called again afterwards while the slow one is still running. The stepper also passes one ExclusiveRateLimit option VALUE to calls under different keys.")


def exclfree(prof, quick, thorough):
    return {"name": "exclfree", "test": "TestExclFree", "checks": {"quick": quick, "thorough": thorough},
            "shards": {"quick": 8, "thorough": 16}, "env": {"VKIT_PROFILE": prof}, "stall_sig": prof + "/stall"}


def exclstep(prof, quick, thorough):
    # Exclusive never blocks while holding a lock, so a wedged case (driver or work function stuck behind a library
    # mutex) is itself a violation: calls not answered / keys not independent
    return {"name": "exclstep", "test": "TestExclStep", "steps": 40, "checks": {"quick": quick, "thorough": thorough},
            "shards": {"quick": 8, "thorough": 16}, "env": {"VKIT_PROFILE": prof}, "stall_sig": prof + "/stall"}


CONFIG = {
    "C15": {
        "rule": ("rapid stepper over bigbuff.Notifier in a synctest bubble: 0-6 subscriptions over 1-3 keys (string, int, struct, nil key) with target channels of assorted element types "
                 "(int, string, any, error, *T, []byte; unbuffered or cap 1; send-only views), with no ctx / live ctx / already cancelled ctx / SubscribeCancel; rules publish(key, value in ints, "
                 "strings, typed and untyped nil, errors; with/without publish ctx) launched, receive(sub), cancelSub, cancelPublish, subscribe/unsubscribe (parked behind a publish in flight, "
                 "incl. Go's writer preference that then parks later publishes), duplicate subscribe, unmatched unsubscribe. Oracle: eligible set E = subscriptions of the key whose element type "
                 "accepts the value and whose ctx is live; each member receives the value exactly once unless its ctx is cancelled first; non-members receive nothing (non-blocking extra receive on "
                 "every target at every quiescent point); Publish pending exactly while a member is neither delivered nor cancelled and the publish ctx is live; nothing after Unsubscribe; "
                 "duplicate Subscribe / unmatched Unsubscribe panic and leave later deliveries unchanged; no goroutine left. non-trivial = a publish with |E|>=3 where a context-guarded member is "
                 "cancelled while others are pending and a later delivery follows, or a nil-valued publish with |E|>=1; distinct = hash of the op trace."),
        "jobs": [{"name": "notifier", "test": "TestC15Notifier", "checks": {"quick": 8000, "thorough": 1000000}, "shards": {"quick": 8, "thorough": 16}, "env": {"VKIT_PROFILE": "C15"}},
                 regress("C15"), dict(regress("C15"), name="regress_go_default", go="default")],
    },
    "C16": {
        "rule": ("rapid engine over CombineContext / ConflatedContext / ChainAfterFunc in a synctest bubble: 0-5 input contexts each carrying a distinct value (std cancel, deadline in virtual "
                 "time, custom Context type without AfterFunc support, child of another input, never-cancellable), a drawn subset already cancelled at construction, nil entries, duplicates, "
                 "nil primary; then 0-6 steps each cancelling a SET of contexts simultaneously (one goroutine per cancel released by one barrier, or one virtual instant), explicit cancel of the "
                 "Conflated result, constructors racing the first step, and a gate on the ChainPrimaryFired instrumentation point that forces both orders of ChainAfterFunc's two hooks. Oracle "
                 "after construction and after every step at quiescence: Combine cancelled iff primary or any non-nil other is, carries the primary's values; Conflated live iff >=1 input live "
                 "and cancel not called, only the first input's values, panics on zero inputs; ChainAfterFunc's function called exactly once iff either context was cancelled, never twice; no "
                 "goroutine left after teardown. non-trivial = >=3 inputs with >=1 pre-cancelled and a step cancelling >=2 at once, or both contexts of a chain cancelled in the same step; "
                 "distinct = hash of the case."),
        "jobs": [{"name": "context", "test": "TestC16Context", "checks": {"quick": 24000, "thorough": 8000000}, "shards": {"quick": 8, "thorough": 16}, "env": {"VKIT_PROFILE": "C16"}},
                 # construction-time / value semantics without a bubble, under both toolchains (context.Cause, AfterFunc and friends differ between Go releases)
                 {"name": "context_static", "test": "TestC16Static", "checks": {"quick": 20000, "thorough": 400000}, "shards": {"quick": 2, "thorough": 8}, "stall_sig": "C16/stall"},
                 {"name": "context_static_go_default", "go": "default", "test": "TestC16Static", "checks": {"quick": 20000, "thorough": 400000}, "shards": {"quick": 2, "thorough": 8}, "stall_sig": "C16/stall"}],
    },
    "C17": {
        "rule": ("rapid engine over bigbuff.Worker in a synctest bubble: stepper rules do (launched Do), done(holder), exit(instance gate: the worker function returns after it saw stop), race steps "
                 "(release every holder together with new Do calls on real Ps), plus free-running modes (2-8 holders doing Do -> yields -> done in loops, bursts of 16-96 rounds); the worker function "
                 "stamps start / stop-seen / exit on a logical clock. Oracle: instances never overlap, exactly one running instance with an open stop channel while anybody holds it, stop closed only "
                 "after every outstanding done was called, a Do arriving while an instance stops waits for its exit and gets a fresh instance, every instance stopped once unheld, no goroutine left. "
                 "non-trivial = >=2 instances and (last done racing a new Do, or a Do while the instance is stopping); distinct = hash of the case."),
        "jobs": [{"name": "worker_early", "test": "TestC17Early", "steps": 30, "checks": {"quick": 8000, "thorough": 800000}, "shards": {"quick": 4, "thorough": 16}},
                 {"name": "worker", "test": "TestC17Worker", "steps": 30, "checks": {"quick": 16000, "thorough": 4000000}, "shards": {"quick": 8, "thorough": 16}, "env": {"VKIT_PROFILE": "C17"}}],
    },
    "C20": {
        "rule": ("(free) free-running programs in a bubble: a receiver whose pauses are whole or half multiples of the rate (its wake-ups tie with ticks, so receive and non-blocking send race on real processors while the virtual clock stands still), optional cancellation after a drawn number of receives; never more than count values, exactly count when never cancelled, non-decreasing virtual timestamps, at most two values after cancellation, producer gone. " + "rapid stepper over LinearAttempt in a synctest bubble (virtual time): count 1-6, rate in {1ns,1ms,1s}, context cancellable/deadline/Err-only/pre-cancelled/background, "
                 "receiver policy prompt/every-k/stop-after-j/parked/absent/free, cancellation at a drawn instant incl. exactly on a tick (timer tie), just before/after, mid-interval, before the "
                 "call, after close; invalid inputs must panic. Oracle: first value immediately (len==1 on return, closed+empty if pre-cancelled), <= count values, exact non-decreasing tick "
                 "timestamps, <=1 buffered at every quiescent point, closed after the count-th value or at the first quiescent point after cancellation, <=1 tick forwarded after cancel, "
                 "producer goroutine gone (leak oracle). non-trivial = count>=3, cancellation while the producer is alive and a value still buffered at that instant; distinct = hash of the case. "
                 "attempt_crowd: 30-600 live attempts (rate 1h) first; then one more attempt on its own context: first value at once, <=2 values after its cancellation, closed at quiescence, <= count values; then the crowd is cancelled and every channel must be closed; non-trivial = >=128 live attempts."),
        "jobs": [{"name": "attempt_crowd", "test": "TestC20Crowd", "checks": {"quick": 400, "thorough": 40000}, "shards": {"quick": 2, "thorough": 8}, "stall_sig": "C20/stall"},
                 {"name": "attempt", "test": "TestC20Attempt", "steps": 12, "checks": {"quick": 16000, "thorough": 2400000}, "shards": {"quick": 8, "thorough": 16}, "env": {"VKIT_PROFILE": "C20"}},
                 {"name": "attempt_free", "test": "TestC20Free", "checks": {"quick": 4000, "thorough": 600000}, "shards": {"quick": 4, "thorough": 16}},
                 # real clock, several (overlapping) attempts per case; count/closure facts only, hangs are the stall watchdog's business
                 {"name": "attempt_real", "test": "TestC20Real", "checks": {"quick": 240, "thorough": 24000}, "shards": {"quick": 8, "thorough": 16}, "stall_sig": "C20/stall"},
                 {"name": "attempt_real_go_default", "go": "default", "test": "TestC20Real", "checks": {"quick": 240, "thorough": 24000}, "shards": {"quick": 8, "thorough": 16}, "stall_sig": "C20/stall"}],
    },
    "C14": {
        "rule": ("(free) free-running programs in a bubble: 2-6 callers x 2-12 invocations through Call with an own function or through 1-2 shared Wrap wrappers (one function serving overlapping invocations); oracle = bijection between invocations and executions (value and error of one finished execution each, none returned twice, own function for Call), concurrency bound checked inside the functions, Wait/Count afterwards. The stepper also bounds overtaking: a call seen queued at a quiescent point may not be passed by more than 8 calls made after that point. " + "rapid stepper over bigbuff.Workers in a synctest bubble: rules call(count 1-4, gated task returning a unique value/error; also via Wrap), release(task), wait (launched), "
                 "burst (2-6 actions without settling, drawn Gosched) and storm (4-12 concurrent callers with self-yielding tasks); oracle at every quiescent point: each task starts once, "
                 "Call returns exactly its task's result and only after it finished, running <= largest count requested so far, Count()==running, no starvation (a queued task runs whenever "
                 "nothing holds it back; stranded queue = violation), Wait pending while anything is queued/running and returning afterwards with Count()==0, leak check. "
                 "non-trivial = a Call with a smaller count than the previous Call arrived while >=1 task was queued; distinct = hash of the op trace."),
        "jobs": [{"name": "workers", "test": "TestC14Workers", "checks": {"quick": 12000, "thorough": 1200000}, "shards": {"quick": 8, "thorough": 16}, "env": {"VKIT_PROFILE": "C14"}},
                 {"name": "workers_free", "test": "TestC14Free", "checks": {"quick": 6000, "thorough": 600000}, "shards": {"quick": 4, "thorough": 16}, "stall_sig": "C14/stall"}],
    },
    "C18": {
        "rule": ("rapid stepper in a synctest bubble (virtual time) over ExponentialRetry/FatalError: one closure invoked 1-3 times on one context; operation = gated harness callback "
                 "with a scripted outcome sequence (plain error x j, then success | fatal error wrapped 1-4 deep | plain forever), results nil/non-nil; cancellation planned per round "
                 "(never, before the first call, driver cancels in call j, call j cancels itself, in the wait after failure j, deadline context); rate in {<=0 (300ms default), 1ns, 7ns, 1us, 1ms, 4s}; "
                 "chains up to 40 failures (past the 31-doubling cap). Oracle: sequential specification from the doc comment (stop conditions, returned result/error with no fatal "
                 "wrapper at any depth, no call after cancellation, every gap a whole number of slots within [0, 2^min(k,31)-1], waits cut short by cancellation, nil value panics, leak check). "
                 "non-trivial = >=3 retries with a cancellation landing in a wait or call, or a nested fatal of depth >=2, or k>=31; distinct = hash of the case."),
        "assumptions": ["the back-off distribution is not tested (only support and granularity)"],
        "jobs": [{"name": "retry", "test": "TestC18Retry", "checks": {"quick": 24000, "thorough": 2400000}, "shards": {"quick": 8, "thorough": 16}, "env": {"VKIT_PROFILE": "C18"}}],
    },
    "C11": {
        "rule": ("generated concurrent programs per type (Buffer+consumers incl. shared consumer/SetCleanerConfig/Range, Channel, Exclusive, Workers, Worker, Notifier, WaitCond, "
                 "context combinators: 2-6 goroutines x 1-8 drawn operations inside the documented contracts, pointer payloads written just before hand-over and read just after receipt; Buffer programs "
                 "reuse their Put argument slices, open bursts of 9-12 short-lived consumers and in a quarter of the cases keep no standing consumer), "
                 "plus the free-running ChanPubSub, ChanCaster, Buffer, Exclusive, Channel and shared-consumer program generators of the other properties, all executed by a -race binary; oracle = Go race detector reports with a library frame in a "
                 "conflicting access (signature = the racing pair of library functions). non-trivial = a program in which >=2 operations on the same object overlapped in time "
                 "(pairs of overlapping methods are listed in the class histogram); distinct = hash of the generated program."),
        "assumptions": ["dynamic happens-before race detection: only executed interleavings are judged", "x86-64 memory model as exercised by the Go race detector"],
        "jobs": [
            regress("C11", race=True),
            {"name": "race_programs", "test": "TestC11RacePrograms", "race": True, "checks": {"quick": 2400, "thorough": 500000}, "shards": {"quick": 8, "thorough": 16}},
            {"name": "race_pubsub", "test": "TestPubSubFree", "race": True, "checks": {"quick": 6000, "thorough": 400000}, "shards": {"quick": 4, "thorough": 16}, "env": {"VKIT_PROFILE": "C11"}},
            {"name": "race_caster", "test": "TestC08CasterFree", "race": True, "checks": {"quick": 4000, "thorough": 200000}, "shards": {"quick": 2, "thorough": 8}},
            # the other free-running program generators under the race detector as well
            {"name": "race_buffree", "test": "TestBufFree", "race": True, "checks": {"quick": 1200, "thorough": 60000}, "shards": {"quick": 2, "thorough": 8}, "env": {"VKIT_PROFILE": "C11"}},
            {"name": "race_exclfree", "test": "TestExclFree", "race": True, "checks": {"quick": 2000, "thorough": 100000}, "shards": {"quick": 2, "thorough": 8}, "env": {"VKIT_PROFILE": "C11"}},
            {"name": "race_chanlin", "test": "TestChanLin", "race": True, "checks": {"quick": 3000, "thorough": 150000}, "shards": {"quick": 2, "thorough": 8}, "env": {"VKIT_PROFILE": "C11"}},
            {"name": "race_conslin", "test": "TestConsLin", "race": True, "checks": {"quick": 3000, "thorough": 150000}, "shards": {"quick": 2, "thorough": 8}, "env": {"VKIT_PROFILE": "C11"}},
        ],
    },
    "C09": {
        "rule": EXCL_MODEL + "non-trivial = >=2 executions on one key with a call arriving in a resolve->return gap, or two keys with work functions open at once; distinct = hash of the op trace." + EXCL_FREE,
        "jobs": [exclstep("C09", 16000, 600000), exclfree("C09", 16000, 800000)],
    },
    "C10": {
        "rule": EXCL_MODEL + "non-trivial = an execution answering >=2 calls of different styles, or a skip-resolve execution with a waiter; distinct = hash of the op trace." + EXCL_FREE,
        "jobs": [exclstep("C10", 16000, 600000), exclfree("C10", 16000, 800000)],
    },
    "C06": {
        "rule": PUBSUB_FREE + "non-trivial = an unsubscribe overlapping a Send in logical time, or >=2 senders whose Sends overlapped; distinct = hash of the generated program." + PUBSUB_STEP + PUBSUB_CHURN,
        "jobs": [pubsubfree("C06", 60000, 3000000), pubsubstep("C06", 12000, 500000), pubsubchurn("C06", 3000, 300000)],
    },
    "C07": {
        "rule": PUBSUB_FREE + "non-trivial = an unsubscribe overlapping a Send's call/return interval (leaver subscribed before the Send), or an iterator that is never run; distinct = hash of the generated program." + PUBSUB_STEP + PUBSUB_CHURN,
        "jobs": [pubsubfree("C07", 60000, 3000000), pubsubstep("C07", 12000, 500000), pubsubchurn("C07", 3000, 300000)],
    },
    "C08": {
        "rule": ("three rapid engines over bigbuff.ChanCaster: (step) model-based stepper in a synctest bubble: register(1-3), receive (select on C/quit), "
                 "deregister (idle, or via quit; during a Send it absorbs one copy), send (launched), add0, positive Add launched during a Send "
                 "(must wait, then count only for a later Send); oracle = per-slot delivery, Send return == receipts, return+absorbed == registered at start, "
                 "enabledness at quiescence, Add return values; (free) free-running programs in a bubble: 1-5 receivers x 1-4 rounds that give up after a drawn "
                 "number of yields, 1-3 racing senders, per-message count + conservation oracle, bubble deadlock = hang; (misuse) sequential Add/Send with deltas "
                 "from the whole int range: out-of-range / unbalanced Adds must panic and every later call must panic; (buffered) channels with capacity >= registered receivers: rounds of "
                 "register / deregister / 1-3 racing Sends, returns add up to the registrations, every copy accounted for, count zero afterwards; the free engine ends with a barrier-synchronised "
                 "race lane (Send vs deregistration of the only receiver, up to 150 rounds with drawn spin offsets). "
                 "non-trivial = step: a Send with >=2 registered and an absorbed deregistration or a deferred registration; free: >=2 senders and >=1 deregistration; "
                 "misuse: a range panic followed by >=2 further calls; distinct = hash of the case."),
        "jobs": [
            {"name": "caster_step", "test": "TestC08CasterStep", "steps": 40, "checks": {"quick": 16000, "thorough": 400000}, "shards": {"quick": 8, "thorough": 16}},
            {"name": "caster_free", "test": "TestC08CasterFree", "checks": {"quick": 16000, "thorough": 800000}, "shards": {"quick": 4, "thorough": 16}, "stall_sig": "C08/stall"},
            {"name": "caster_buffered", "test": "TestC08CasterBuffered", "checks": {"quick": 16000, "thorough": 600000}, "shards": {"quick": 2, "thorough": 8}},
            {"name": "caster_misuse", "test": "TestC08CasterMisuse", "checks": {"quick": 30000, "thorough": 1000000}, "shards": {"quick": 2, "thorough": 8}},
        ],
    },
    "C13": {
        "rule": CHAN_MODEL + "non-trivial = a sequence containing rollback, partial re-read (>=1, < pending), second rollback, then commit; or a Close/cancel with a Get pending; distinct = hash of the executed op trace. "
                "Plus chanlin: free-running concurrent programs (2-4 goroutines x 1-9 Get/Commit/Rollback/Buffer/Close ops, a concurrent feeder whose sends are operations too, source cap 0/1/4/16) "
                "whose recorded call/return history is checked for linearizability against the same sequential model by porcupine (a Get error is admissible only if its own context was "
                "cancelled or the Channel is closed); non-trivial = >=6 operations with operations of different goroutines overlapping. "
                "chanrace: a barrier-synchronised race lane — 40-300 rounds per case in which two operations drawn from Get/Rollback/Commit/Buffer are released together with sweeping spin "
                "offsets, separated by sequential probes; the whole history is checked by porcupine. chanbulk: large pending buffers (batches of 64-700 values taken, optionally replayed, then "
                "committed) while 1-3 goroutines call Buffer() continuously: every snapshot must be a contiguous run of the source stream. "
                "chandonegate: a Get is stopped (instrumentation point inside its critical section, after its closed-check and before its receive) while the Channel is shut down by cancelling "
                "its parent context or by Close; if Done is seen closed while the Get stands there, the source must hold the same number of values after that Get returned.",
        "jobs": [{"name": "chandonegate", "test": "TestChanDoneGate", "checks": {"quick": 600, "thorough": 60000}, "shards": {"quick": 4, "thorough": 16}, "stall_sig": "C13/stall"},
                 {"name": "chandone", "test": "TestChanDoneLane", "checks": {"quick": 1200, "thorough": 120000}, "shards": {"quick": 4, "thorough": 16}, "stall_sig": "C13/stall"},
                 chanstep("C13", 24000, 800000),
                 {"name": "chanrace", "test": "TestChanRace", "checks": {"quick": 3000, "thorough": 150000}, "shards": {"quick": 6, "thorough": 16}, "stall_sig": "C13/stall"},
                 {"name": "chanbulk", "test": "TestChanBulk", "checks": {"quick": 240, "thorough": 12000}, "shards": {"quick": 4, "thorough": 8}, "stall_sig": "C13/stall"},
                 {"name": "chanlin", "test": "TestChanLin", "checks": {"quick": 40000, "thorough": 2000000}, "shards": {"quick": 8, "thorough": 16}, "env": {"VKIT_PROFILE": "C13"}}],
    },
    "C01": {
        "rule": BUF_MODEL + "non-trivial = >=2 consumers alive at once AND >=1 eviction while a consumer was open AND >=1 batch of >=2 values; distinct = hash of the executed op trace." + BUF_FREE +
                " conslin (see C02) contributes its no-gap oracle for a consumer shared by several goroutines.",
        "jobs": [{"name": "conslin", "test": "TestConsLin", "checks": {"quick": 24000, "thorough": 1000000}, "shards": {"quick": 4, "thorough": 8}, "env": {"VKIT_PROFILE": "C01"}, "stall_sig": "C01/stall"},
                 buffree("C01", 12000, 600000), bufstep("C01", 24000, 800000),
                 # race lane: Put against the cancellation of its own context (a Put takes effect and returns nil, or fails and contributes nothing)
                 {"name": "putcancel", "test": "TestBufPutCancel", "checks": {"quick": 400, "thorough": 40000}, "shards": {"quick": 4, "thorough": 16}, "stall_sig": "C01/stall"}],
    },
    "C02": {
        "rule": BUF_MODEL + "non-trivial = a rollback of >=2 uncommitted values followed by a re-read, or a Range ended by a callback panic; distinct = hash of the executed op trace." + BUF_FREE +
                " Plus conslin: 2-3 goroutines sharing ONE consumer (Get/Commit/Rollback/Diff scripts) with a concurrent producer; the recorded history is checked for linearizability "
                "against the sequential (put, committed, uncommitted) model by porcupine; non-trivial = operations of different goroutines overlapped. "
                "Plus range_faulty: package Range over a scripted faulty Consumer (Get/Commit/Rollback failures at drawn calls, callback continue/stop/panic/cancel, ctx nil/live/cancelled): "
                "the recorded call order must be Get, fn, Commit per item with Rollback exactly on failure; non-trivial = the range ended by a Get/Commit failure or a panic.",
        "jobs": [{"name": "commitrace", "test": "TestConsCommitRace", "checks": {"quick": 400, "thorough": 40000}, "shards": {"quick": 4, "thorough": 16}, "stall_sig": "C02/stall"},
                 {"name": "range_faulty", "test": "TestC02RangeFaulty", "checks": {"quick": 40000, "thorough": 2000000}, "shards": {"quick": 2, "thorough": 8}},
                 {"name": "range_faulty_go_default", "go": "default", "test": "TestC02RangeFaulty", "checks": {"quick": 20000, "thorough": 1000000}, "shards": {"quick": 2, "thorough": 8}},
                 {"name": "conslin", "test": "TestConsLin", "checks": {"quick": 30000, "thorough": 1500000}, "shards": {"quick": 6, "thorough": 16}, "stall_sig": "C02/stall"},
                 buffree("C02", 12000, 600000), bufstep("C02", 24000, 800000)],
    },
    "C03": {
        "rule": BUF_MODEL + "non-trivial = >=1 eviction while a consumer was open AND (a lagging consumer was observed OR uncommitted reads existed at eviction time); distinct = hash of the executed op trace. "
                "Plus a pure engine over DefaultCleaner/FixedBufferCleaner: size in [0,2^20], 0-8 offsets mixing negative/zero/below/equal/beyond size/huge, every (max,target) in [-2,16] "
                "against an independent specification and metamorphic relations (permutation, added negative offsets); non-trivial = offsets contain >=2 of {negative, zero, ==size, >size, huge}.",
        "jobs": [buffree("C03", 12000, 600000), bufstep("C03", 24000, 800000),
                 {"name": "cleaner_pure", "test": "TestC03CleanerPure", "checks": {"quick": 60000, "thorough": 3000000},
                  "shards": {"quick": 2, "thorough": 8}},
                 {"name": "cleaner_pure_go_default", "go": "default", "test": "TestC03CleanerPure", "checks": {"quick": 30000, "thorough": 1500000},
                  "shards": {"quick": 2, "thorough": 8}}],
    },
    "C04": {
        "rule": BUF_MODEL + "non-trivial = a state change placed strictly inside a cooldown window that was later followed by an eviction, or values freed by closing the slowest consumer; distinct = hash of the executed op trace. "
                "Plus a real-time window probe using the verif instrumentation points: the cleanup goroutine is delayed between a pass that saw 'cooldown pending' and parking on the "
                "cond (delay in {0, 0.5, 1.2, 2, 3} cooldowns; cooldown 1/2/4 ms; 1-3 consumers; final change = commit or close at 0.2-0.8 of the window); verdict only when the stuck state "
                "is confirmed from the goroutine dump and a timer canary (else inconclusive); non-trivial = the hook fired with a non-zero delay and the change landed inside the window. "
                "Plus bulk (virtual time): 300-20000 values (sizes straddling the powers of two) put in 1-10 batches, read and committed in one go or in strides by 1-3 consumers, the slowest "
                "optionally closed, or a FixedBufferCleaner overrun by the burst; one cooldown after the last change Size must equal the slowest backlog (<= max); non-trivial = more than 4096 values.",
        "jobs": [bufstep("C04", 24000, 800000),
                 {"name": "bulk", "test": "TestC04Bulk", "checks": {"quick": 600, "thorough": 30000}, "shards": {"quick": 4, "thorough": 8}},
                 {"name": "probe", "test": "TestC04Probe", "checks": {"quick": 160, "thorough": 4000}, "shards": {"quick": 8, "thorough": 16}, "shrinktime": "10s"},
                 {"name": "birth", "test": "TestC04Birth", "checks": {"quick": 3000, "thorough": 300000}, "shards": {"quick": 4, "thorough": 16}},
                 {"name": "probe_go_default", "go": "default", "test": "TestC04Probe", "checks": {"quick": 80, "thorough": 2000}, "shards": {"quick": 8, "thorough": 16}, "shrinktime": "10s"}],
    },
    "C05": {
        "rule": BUF_MODEL + "non-trivial = a waking event (Put / cancel / Close) issued while a Get was observed blocked at quiescence; distinct = hash of the executed op trace." + WAITCOND_RULE + BUF_FREE +
                " Plus a gate probe using the verif instrumentation points inside a bubble: Get's async waiter or a direct WaitCond call is stopped between predicate and park, the "
                "waking event (cancel / Put / Close / set+Broadcast) is issued inside that window (optionally after the cancellation watcher reached its wake-up point, then 0-200 yields), "
                "then the gate opens; at quiescence the waiter must have returned with the right outcome; non-trivial = the gate was hit. "
                "get_crowd: 60-300 Gets parked on 1-3 buffers first, then on another buffer a cancelled Get must return its context's error and a Get must be woken by a Put, then every parked Get is woken by one Put per buffer; non-trivial = >=64 parked.",
        "jobs": [{"name": "get_crowd", "test": "TestC05Crowd", "checks": {"quick": 400, "thorough": 40000}, "shards": {"quick": 2, "thorough": 8}, "stall_sig": "C05/stall"},
                 buffree("C05", 12000, 600000), bufstep("C05", 24000, 800000), waitcond("C05", 12000, 400000),
                 {"name": "probe", "test": "TestC05Probe", "checks": {"quick": 8000, "thorough": 200000}, "shards": {"quick": 4, "thorough": 16}}],
    },
    "C12": {
        "rule": BUF_MODEL + "non-trivial = a Close launched while another op on the handle was in flight or uncommitted reads existed AND >=2 handles closed in non-creation order; distinct = hash of the executed op trace. " + CHAN_MODEL + WAITCOND_RULE +
                " The goroutine-leak oracles of the Exclusive, context-combinator, Workers, Worker, ExponentialRetry and LinearAttempt engines (see C09/C10, C16, C14, C17, C18, C20) "
                "are run under this property as well: after every handle is closed / context cancelled / call returned, the bubble must hold no other goroutine. "
                "conslin (see C02) runs with a concurrent Close of the shared consumer: Close must return (once nothing is uncommitted), Done closed, Diff unregistered; a wedged program is a violation. "
                "commitrace: a race lane in which Commit/Commit or Commit/Rollback on the same uncommitted reads are released by one barrier (sweeping offsets, Buffer lock kept busy by a spinning cleaner "
                "and an observer): exactly one resolution succeeds, the consumer continues at the right value, consumer.Close and Buffer.Close return, the second Close fails.",
        "jobs": [{"name": "commitrace", "test": "TestConsCommitRace", "checks": {"quick": 400, "thorough": 40000}, "shards": {"quick": 4, "thorough": 16}, "stall_sig": "C12/stall"},
                 {"name": "closerace", "test": "TestBufCloseRace", "checks": {"quick": 800, "thorough": 80000}, "shards": {"quick": 8, "thorough": 16}, "stall_sig": "C12/stall"},
                 buffree("C12", 12000, 600000), bufstep("C12", 24000, 800000), chanstep("C12", 12000, 400000), waitcond("C12", 8000, 300000),
                 {"name": "conslin_close", "test": "TestConsLin", "checks": {"quick": 24000, "thorough": 800000}, "shards": {"quick": 4, "thorough": 8},
                  "env": {"VKIT_PROFILE": "C12"}, "stall_sig": "C12/stall"},
                 # the goroutine-leak oracles of the engines written for the other goroutine-starting APIs
                 dict(exclstep("C12", 6000, 200000), name="leak_exclusive"),
                 leakjob("leak_context", "TestC16Context", 8000, 300000, "C16"),
                 leakjob("leak_workers", "TestC14Workers", 4000, 150000, "C14"),
                 leakjob("leak_notifier", "TestC15Notifier", 3000, 100000, "C15"),
                 leakjob("leak_worker", "TestC17Worker", 6000, 200000, "C17"),
                 leakjob("leak_retry", "TestC18Retry", 6000, 200000, "C18"),
                 leakjob("leak_attempt", "TestC20Attempt", 6000, 200000, "C20")],
    },
    "C19": {
        "rule": ("rapid-generated function signatures (reflect.FuncOf over a 19-type grammar, 0-4 params, optional "
                 "variadic tail, 0-3 results) with a reflect.MakeFunc recorder; argument lists correct or perturbed "
                 "(dropped/extra/retyped/untyped-nil/typed-nil), result option none|CallResults|CallResultsSlice "
                 "correct or perturbed; optionally a second CallArgs option and/or a second results option earlier in the same Call (options are validated in order, the last of each kind is in "
                 "effect, the targets of an overridden results option stay untouched) and the same CallArgs option value applied to a second callable; oracle = verdict computed from Go "
                 "assignability + direct-call comparison. "
                 "non-trivial = variadic or >=2-parameter signature with >=1 nil-valued or perturbed argument/target; "
                 "distinct = hash of (signature, argument types/nilness, result targets, expected verdict)."),
        "assumptions": ["reflect.Type.AssignableTo implements Go assignability", "CallArgs is always supplied (statement's domain)"],
        "jobs": [
            {"name": "callable", "test": "TestC19Callable",
             "checks": {"quick": 40000, "thorough": 30000000},
             "shards": {"quick": 4, "thorough": 16}},
            regress("C19"),
            {"name": "callable_go_default", "go": "default", "test": "TestC19Callable", "checks": {"quick": 20000, "thorough": 6000000}, "shards": {"quick": 2, "thorough": 16}},
            dict(regress("C19"), name="regress_go_default", go="default"),
        ],
    },
}
