"""Per-property job tables for ./check (see DESIGN.md section 6).

Each job runs one rapid property (Go test function) of harness/props in N shard processes.
checks[tier] is the TOTAL number of generated cases over all shards.
"""

CONFIG = {
    "C19": {
        "rule": ("rapid-generated function signatures (reflect.FuncOf over a 19-type grammar, 0-4 params, optional "
                 "variadic tail, 0-3 results) with a reflect.MakeFunc recorder; argument lists correct or perturbed "
                 "(dropped/extra/retyped/untyped-nil/typed-nil), result option none|CallResults|CallResultsSlice "
                 "correct or perturbed; oracle = verdict computed from Go assignability + direct-call comparison. "
                 "non-trivial = variadic or >=2-parameter signature with >=1 nil-valued or perturbed argument/target; "
                 "distinct = hash of (signature, argument types/nilness, result targets, expected verdict)."),
        "assumptions": ["reflect.Type.AssignableTo implements Go assignability", "CallArgs is always supplied (statement's domain)"],
        "jobs": [
            {"name": "callable", "test": "TestC19Callable",
             "checks": {"quick": 40000, "thorough": 1600000},
             "shards": {"quick": 4, "thorough": 16}},
        ],
    },
}
